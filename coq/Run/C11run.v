(* Correspondence entry point for C11: build_schema on a parsed document. *)
From PyGql Require Import Run.Driver Schema.SdlBuild Spec.SdlSpec.

Inductive obs11 :=
| ObsSchema (s : schema)     (* canonical dump of the Schema build_schema returned *)
| ObsRejected (k : nat)      (* SDLError 1 / ExtensionError 2 / SchemaError 3 / InvalidValue 4 / CoercionError 5 *)
| ObsDiverged                (* RecursionError / no answer in the guarded worker *)
| ObsOther.                  (* any other exception *)

(* input: document, ignore_extensions, dump of additional_types *)
Definition in_C11 : Type := document * bool * list tdef.
Definition step_C11 : Type := in_C11 * obs11.
Definition case_C11 : Type := list step_C11.

Definition model_C11 (i : in_C11) : outcome schema :=
  let '(d, ign, add) := i in build_model (BOpts ign add) d.

Definition impl_agree_C11 (c : step_C11) : bool :=
  match model_C11 (fst c), snd c with
  | Ok s, ObsSchema s' => schema_equiv s s'
  | Rejected k _, ObsRejected k' => Nat.eqb k k'
  | OutOfFuel, ObsDiverged => true
  | _, _ => false
  end.

(* the Spec evaluated on the same input (documents without additional_types):
   the rules hold iff the model accepts, and then the model's schema is the
   declared one.  This is C11_exact / C11_reject executed on the case. *)
Definition strip_extensions (d : document) : document :=
  Doc (filter (fun x => negb (is_extension x)) (doc_defs d)) (doc_loc d).

Definition spec_agree_C11 (i : in_C11) : bool :=
  let '(d, ign, add) := i in
  match add with
  | _ :: _ => true
  | [] =>
      let d' := if ign then strip_extensions d else d in
      match model_C11 i with
      | Ok s => sdl_rules_okb d' && schema_equiv s (declared d')
      | Rejected _ _ => negb (sdl_rules_okb d')
      | _ => true
      end
  end.

Definition agree_one_C11 (c : in_C11 * obs11) : bool := impl_agree_C11 c && spec_agree_C11 (fst c).

(* a case is a history of calls that share the caller's additional_types
   objects; each call must behave as if it were the first (the model is run on
   that call's document and the pristine additional types) *)
Definition agree_C11 (c : list (in_C11 * obs11)) : bool := forallb agree_one_C11 c.

(* compact answer for diagnostics *)
Definition show_C11 (l : list in_C11) : list (outcome schema * bool) :=
  map (fun i => (model_C11 i, spec_agree_C11 i)) l.
