(* Correspondence entry points for C02: the tree (with every loc and every
   decoded literal) the model builds for an accepted text must equal the
   implementation's tree, by the decidable equality of Lang/AstEq.v.
   Entry ELex is used for the UTF-8 decoding of a bytes source: the decoded
   text (as a StringValue without loc) must be what bytes.decode gives, and
   undecodable bytes must be undecodable for the model. *)
From PyGql Require Import Run.Driver Lang.Parser Lang.Utf8.
From PyGql Require Export Lang.AstEq Run.C01run.

Inductive obs02 :=
| ObsDoc (d : document)
| ObsValue (v : value)
| ObsType (t : ty)
| ObsRejected.          (* not an accepted text: outside C02's quantifier *)

Definition case_C02 : Type := (entry * flags * str) * obs02.

Inductive tree02 := TDoc (d : document) | TValue (v : value) | TType (t : ty).

Definition model_C02 (e : entry) (fl : flags) (src : str) : outcome tree02 :=
  match e with
  | EDoc => do d <- parse_document fl src; Ok (TDoc d)
  | EValue => do v <- parse_value_str fl src; Ok (TValue v)
  | EType => do t <- parse_type_str fl src; Ok (TType t)
  | ELex =>          (* src holds BYTES here: the decoding step of a bytes source (Lang/Utf8.v) *)
      match decode_utf8 src with Some s => Ok (TValue (VString s false NL)) | None => Crash 0 end
  end.

Definition agree_C02 (c : case_C02) : bool :=
  let '((e, fl, src), o) := c in
  match model_C02 e fl src, o with
  | Ok (TDoc d'), ObsDoc d => document_eqb d' d
  | Ok (TValue v'), ObsValue v => value_eqb v' v
  | Ok (TType t'), ObsType t => ty_eqb t' t
  | Ok _, _ => false
  | _, ObsRejected => true
  | _, _ => false
  end.
