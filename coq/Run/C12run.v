(* Correspondence entry point for C12: Schema.to_string under call histories. *)
From PyGql Require Import Run.Driver Schema.SdlPrint Schema.SdlIntro Spec.SdlRoundtripSpec.

Inductive obs12 :=
| ObsText (t : str)
| ObsFailed.        (* any exception out of to_string *)

(* schemas (canonical dumps of the Schema objects), then the history: which
   schema, which options, what to_string returned *)
Definition step12 : Type := nat * popts * obs12.
Definition case_C12 : Type := list schema * list step12.

Definition model_C12 (sc : schema) (o : popts) : outcome str :=
  print_schema introspection_types specified_ddefs o sc.

Definition empty_schema : schema := Sch [] [] None None None [].

Definition agree_step (scs : list schema) (st : step12) : bool :=
  let '(i, o, ob) := st in
  match model_C12 (nth i scs empty_schema) o, ob with
  | Ok t, ObsText t' => str_eqb t t'
  | _, _ => false
  end.

(* the Spec-level statements executed on the case: every printable description
   is recovered from its printed block string (C12_description_roundtrip), and
   the document a SDL-expressible schema prints to builds an equivalent schema
   (C12_members_roundtrip) *)
Definition odesc (d : option str) (depth : nat) : list (str * nat) :=
  match d with Some (c :: r) => [(c :: r, depth)] | _ => [] end.
Definition siv_descs (depth : nat) (a : sivalue) := odesc (siv_desc a) depth.
Definition sf_descs (f : sfield) := odesc (sf_desc f) 1 ++ flat_map (siv_descs 2) (sf_args f).
Definition descs_of (sc : schema) : list (str * nat) :=
  flat_map (fun t => odesc (tdef_desc t) 0 ++
              match t with
              | TObject _ _ _ fs _ | TInterface _ _ fs _ => flat_map sf_descs fs
              | TEnum _ _ vs _ => flat_map (fun v => odesc (sev_desc v) 1) vs
              | TInput _ _ fs _ => flat_map (siv_descs 1) fs
              | _ => []
              end) (s_types sc)
  ++ flat_map (fun d => odesc (dd_desc d) 0 ++ flat_map (siv_descs 1) (dd_args d)) (s_ddefs sc).

Definition desc_checks (o : popts) (sc : schema) : bool :=
  forallb (fun '(d, depth) =>
             if printable d (depth * length (po_indent o)) then description_roundtrips o d depth
             else true) (descs_of sc).

Definition spec_agree_C12 (c : case_C12) : bool :=
  forallb (fun sc => if schema_okb sc then members_roundtrip sc else true) (fst c)
  && forallb (fun '(i, o, _) => desc_checks o (nth i (fst c) empty_schema)) (snd c).

Definition agree_C12 (c : case_C12) : bool :=
  forallb (agree_step (fst c)) (snd c) && spec_agree_C12 c.

Definition show_C12 (c : case_C12) : list (outcome str) * list (bool * bool) * list bool :=
  (map (fun '(i, o, _) => model_C12 (nth i (fst c) empty_schema) o) (snd c),
   map (fun sc => (schema_okb sc, members_roundtrip sc)) (fst c),
   map (fun '(i, o, _) => desc_checks o (nth i (fst c) empty_schema)) (snd c)).
