(* Correspondence entry points for C01: what the model answers on a source
   text for each entry point / flag triple, and what counts as agreement with
   the implementation's observable. *)
From PyGql Require Import Run.Driver Lang.Parser Lang.Loc.

Inductive entry := EDoc | EValue | EType | ELex.

(* the implementation's observable *)
Inductive obs01 :=
| ObsAccept                                      (* parse / parse_value / parse_type returned *)
| ObsTokens (ts : list (N * str * N * N))        (* ELex: class id, value, start, end of every token *)
| ObsReject (kind pos line col : N)              (* a GraphQLSyntaxError subclass, its .position, and the
                                                    line / column of to_dict() (0 0 when rendering failed) *)
| ObsOther.                                      (* any other exception *)

Inductive case_C01 :=
| CParse (e : entry) (fl : flags) (src : str) (o : obs01)
| CNamed.                                        (* implementation-side named probe (deep nesting) *)

Definition model_C01 (e : entry) (fl : flags) (src : str) : outcome (list ptok) :=
  match e with
  | EDoc => do _ <- parse_document fl src; Ok []
  | EValue => do _ <- parse_value_str fl src; Ok []
  | EType => do _ <- parse_type_str fl src; Ok []
  | ELex => lex src
  end.

Definition valued (k : tkind) : bool :=
  match k with KInt | KFloat | KName | KString | KBlockString => true | _ => false end.

Definition tok_agree (t : ptok) (o : N * str * N * N) : bool :=
  let '(k, v, a, b) := o in
  N.eqb (N.of_nat (tkind_id (tk t))) k
  && (if valued (tk t) then str_eqb (tval t) v else true)
  && N.eqb (N.of_nat (tstart t)) a && N.eqb (N.of_nat (tend t)) b.

Fixpoint toks_agree (ts : list ptok) (os : list (N * str * N * N)) : bool :=
  match ts, os with
  | [], [] => true
  | t :: ts', o :: os' => tok_agree t o && toks_agree ts' os'
  | _, _ => false
  end.

Definition agree_C01 (c : case_C01) : bool :=
  match c with
  | CNamed => true
  | CParse e fl src o =>
      match model_C01 e fl src, o with
      | Ok ts, ObsAccept => match e with ELex => false | _ => true end
      | Ok ts, ObsTokens os => match e with ELex => toks_agree ts os | _ => false end
      | Rejected k p, ObsReject k' p' line col =>
          N.eqb (N.of_nat k) k' && N.eqb (N.of_nat p) p'
          && match index_to_loc src (render_position src p) with
             | Some (l, c) => N.eqb (N.of_nat l) line && N.eqb (N.of_nat c) col
             | None => false
             end
      | _, _ => false
      end
  end.
