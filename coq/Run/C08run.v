(* Correspondence entry points for C08 (and shared with C09): one case = one
   behaviour-tree program under one configuration with the observations of all
   explored completion orders. *)
From Coq Require Import List NArith ZArith Bool Arith.
Import ListNotations.
From PyGql Require Import Exec.RuntimeMachine Exec.RuntimeFutures.

Inductive config :=
| CBlockingExec      (* BlockingExecutor + BlockingRuntime *)
| CBlockingRt        (* Executor + BlockingRuntime *)
| CAsyncio           (* Executor + AsyncIORuntime, completion order = o_sched *)
| CPool              (* Executor + ThreadPoolRuntime, completion order = o_sched *)
| CThreads.          (* Executor + ThreadPoolRuntime, completions from several OS threads (order unknown) *)

Inductive ocore :=
| OData (v : val) (errs : list entry)   (* GraphQLResult: ordered data, errors in reported order *)
| OFail (x : N)                         (* the overall result failed with RuntimeError tagged x *)
| OFailOther                            (* failed with any other exception *)
| OPending                              (* every resolver completed but the result never did *)
| OHang.                                (* the implementation blocked *)

Record obs := MkObs {
  o_sched : list tid;      (* completion order driven by the controller *)
  o_core : ocore;
  o_events : list entry;   (* Invoke / Finish in the order they happened *)
  o_leftover : N;          (* futures / tasks still not done at the end *)
  o_changed : bool;        (* the result differed between its completion and the end of the run *)
  o_eager : list tid;      (* submitted calls that completed before submit returned *)
  o_bad : list path        (* list fields containing an item that cannot be completed (the union's
                              resolve_type raises a ResolverError): the program lists only the items
                              before it -- they are started and run to completion, later ones never
                              start; per the library's policy the field is then null with exactly
                              one error at its path (fix_val) *)
}.

(* ---- combinator-level cases (layer 1): a script of chain / gather_futures /
   unwrap_future applications over externally completed futures ---- *)
Inductive carg := APlain (n : N) | AExt (i : nat) | ARes (j : nat).
Inductive cop :=
| OpGather (args : list carg)
| OpChain (arg : carg) (then_ : fn) (else_ : option fn)
| OpUnwrap (arg : carg).
Inductive cresult := CrVal (a : carg) | CrExn (n : N) (handled : bool).
Inductive ostate := OsPending | OsDone (r : fres) | OsRaised (e : exn) | OsPlain (v : value).

Record cscript := MkScript {
  sc_ext : nat;                     (* number of externally completed futures *)
  sc_ops : list cop;
  sc_results : list cresult;        (* result of external future i *)
  sc_sigma : list nat;              (* completion order *)
  sc_pre : list nat                 (* externals completed before the combinators are applied *)
}.

Inductive case_C08 :=
| CaseProg (c : config) (p : prog) (os : list obs)
| CaseComb (sc : cscript) (snaps : list (list ostate)) (swallowed_n : N).

(* ---- decidable equalities ---- *)
Fixpoint val_eqb (a b : val) {struct a} : bool :=
  match a, b with
  | VNull, VNull => true
  | VInt x, VInt y => Z.eqb x y
  | VList l, VList m =>
      (fix go l m := match l, m with
                     | [], [] => true
                     | x :: l', y :: m' => val_eqb x y && go l' m'
                     | _, _ => false
                     end) l m
  | VObj l, VObj m =>
      (fix go l m := match l, m with
                     | [], [] => true
                     | (k, x) :: l', (k', y) :: m' => N.eqb k k' && val_eqb x y && go l' m'
                     | _, _ => false
                     end) l m
  | _, _ => false
  end.

Definition ekind_eqb (a b : ekind) : bool :=
  match a, b with
  | EResolver, EResolver | ENonNull, ENonNull | EOther, EOther => true
  | _, _ => false
  end.
Definition entry_eqb (a b : entry) : bool :=
  match a, b with
  | LInvoke t, LInvoke u | LFinish t, LFinish u => tid_eqb t u
  | LErr p k, LErr q l => path_eqb p q && ekind_eqb k l
  | _, _ => false
  end.

Fixpoint remove_entry (e : entry) (l : list entry) : option (list entry) :=
  match l with
  | [] => None
  | x :: r => if entry_eqb e x then Some r
              else match remove_entry e r with Some r' => Some (x :: r') | None => None end
  end.
(* same multiset *)
Fixpoint perm_eqb (a b : list entry) : bool :=
  match a with
  | [] => match b with [] => true | _ => false end
  | e :: a' => match remove_entry e b with Some b' => perm_eqb a' b' | None => false end
  end.

Definition mem_N (x : N) (l : list N) : bool := existsb (N.eqb x) l.

(* an immediate resolver that raises aborts a selection-set loop synchronously;
   asyncio then never awaits the coroutines created earlier in that loop, the
   thread pool has already submitted them (see docs/C08.md) *)
Fixpoint has_imm_exn (f : fld) : bool :=
  match f with
  | Fld _ dfr _ b =>
      match b with
      | BExn _ => match dfr with None => true | Some _ => false end   (* Some _ : any (levels, eager) *)
      | BObj fs => has_imm_exn_fs fs
      | BList _ its => has_imm_exn_its its
      | _ => false
      end
  end
with has_imm_exn_fs (fs : flds) : bool :=
  match fs with FNil => false | FCons f r => has_imm_exn f || has_imm_exn_fs r end
with has_imm_exn_its (its : items) : bool :=
  match its with
  | INil => false
  | ICons it r => (match it with ItObj fs => has_imm_exn_fs fs | _ => false end) || has_imm_exn_its r
  end.

Definition prog_fields (p : prog) : flds := match p with Prog _ fs => fs end.
Definition prog_mut (p : prog) : bool := match p with Prog m _ => m end.

Definition clean (o : obs) : bool :=
  N.eqb (o_leftover o) 0 && negb (o_changed o).

(* the library's policy for a list with an item that cannot be completed, applied to the
   data the machine computed for the truncated list *)
Definition mem_path (p : path) (l : list path) : bool := existsb (path_eqb p) l.
Fixpoint fix_val (bad : list path) (p : path) (v : val) {struct v} : val * list entry :=
  match v with
  | VObj kvs =>
      let '(kvs', es) :=
        (fix go (kvs : list (N * val)) : list (N * val) * list entry :=
           match kvs with
           | [] => ([], [])
           | (k, x) :: r =>
               let p' := p ++ [k] in
               let '(x', e1) :=
                 match x with
                 | VList _ =>
                     (* the started items ran: what they recorded (incl. inner lists of this kind) stays *)
                     let '(x1, e0) := fix_val bad p' x in
                     if mem_path p' bad then (VNull, e0 ++ [LErr p' EResolver]) else (x1, e0)
                 | _ => fix_val bad p' x
                 end in
               let '(r', e2) := go r in ((k, x') :: r', e1 ++ e2)
           end) kvs in
      (VObj kvs', es)
  | VList l =>
      let '(l', es) :=
        (fix go (i : N) (l : list val) : list val * list entry :=
           match l with
           | [] => ([], [])
           | x :: r => let '(x', e1) := fix_val bad (p ++ [i]) x in
                       let '(r', e2) := go (N.succ i) r in (x' :: r', e1 ++ e2)
           end) 0%N l in
      (VList l', es)
  | _ => (v, [])
  end.

(* outcome allowed by the schedule-free characterisation (theorems C08_confluence,
   C08_unexpected): blocking data, the blocking errors and events in any order;
   or a failure carrying one of the program's exceptions *)
Definition agree_bs (p : prog) (o : obs) : bool :=
  match bs_prog p, o_core o with
  | (Some v0, l), OData v' es =>
      let '(v, extra) := fix_val (o_bad o) [] v0 in
      val_eqb v v' && perm_eqb (errs_of l ++ extra) es && perm_eqb (events_of l) (o_events o)
  | (None, _), OFail x => mem_N x (exn_tags_fs (prog_fields p))
  | _, _ => false
  end.

(* the program with the observed eager completions written into its defer annotations *)
Definition count_eager (eager : list tid) (p : path) (n : nat) : nat :=
  (fix go (l fuel : nat) : nat :=
     match fuel with
     | O => O
     | S f => if mem_tid (p, l) eager then S (go (S l) f) else O
     end) O (S n).
Fixpoint ann_fld (eager : list tid) (p : path) (f : fld) : fld :=
  match f with
  | Fld k dfr nn b =>
      let p' := p ++ [k] in
      Fld k (match dfr with Some (n, _) => Some (n, count_eager eager p' n) | None => None end) nn
          (ann_body eager p' b)
  end
with ann_body (eager : list tid) (p : path) (b : body) : body :=
  match b with
  | BObj fs => BObj (ann_flds eager p fs)
  | BList inn its => BList inn (ann_items eager p 0%N its)
  | _ => b
  end
with ann_flds (eager : list tid) (p : path) (fs : flds) : flds :=
  match fs with FNil => FNil | FCons f r => FCons (ann_fld eager p f) (ann_flds eager p r) end
with ann_items (eager : list tid) (p : path) (i : N) (its : items) : items :=
  match its with
  | INil => INil
  | ICons it r =>
      ICons (match it with ItObj fs => ItObj (ann_flds eager (p ++ [i]) fs) | _ => it end)
            (ann_items eager p (N.succ i) r)
  end.
Definition annotate (eager : list tid) (p : prog) : prog :=
  match eager with
  | [] => p
  | _ => match p with Prog m fs => Prog m (ann_flds eager [] fs) end
  end.

(* outcome of the machine under the observed completion order *)
Definition agree_run (p0 : prog) (o : obs) : bool :=
  let p := annotate (o_eager o) p0 in
  match run (o_sched o) p with
  | Some s =>
      match pending (ms s), orphans (ms s) with
      | [], [] =>
          match term s, o_core o with
          | Val v0, OData v' es =>
              let '(v, extra) := fix_val (o_bad o) [] v0 in
              val_eqb v v' && perm_eqb (errs_of (log (ms s)) ++ extra) es
              && perm_eqb (events_of (log (ms s))) (o_events o)
          | Exn _, OFail x => mem_N x (raised (ms s))
          | _, _ => false
          end
      | _, _ => false
      end
  | None => false
  end.

Definition agree_obs (c : config) (p : prog) (o : obs) : bool :=
  clean o &&
  match c with
  | CBlockingExec | CBlockingRt =>
      match o_sched o with [] => agree_bs p o && agree_run p o | _ => false end
  | CPool => agree_run p o
  | CAsyncio =>
      if has_imm_exn_fs (prog_fields p)
      then match fst (bs_prog p) with
           | None => agree_bs p o
           | Some _ => agree_run p o
           end
      else agree_run p o
  | CThreads => agree_bs p o
  end.

(* ---- running a combinator script on the layer-1 machine ---- *)
Definition the_fn (f : fn) (v : value) : fres :=
  match f with
  | 0%N => RVal v
  | 1%N => RVal (VBase 7)
  | 2%N => RExn (EUser 1 true)
  | 3%N => RExn (EUser 2 false)
  | _ => RVal (VSeq [v])
  end.
Definition the_handler (f : fn) (e : exn) : value :=
  match e with EUser n _ => VBase (100 + f + n) | EInvalidState => VBase 0 end.

Definition comb_fuel : nat := 200.

(* externals are futures 0 .. k-1; results of ops so far as values *)
Definition arg_value (res : list value) (a : carg) : value :=
  match a with
  | APlain n => VBase n
  | AExt i => VFut i
  | ARes j => nth j res (VBase 0)
  end.

Fixpoint alloc_ext (k : nat) (h : heap) : heap :=
  match k with O => h | S k' => alloc_ext k' (snd (new_future h)) end.

Fixpoint run_ops (ops : list cop) (res : list value) (raisedl : list (option exn)) (h : heap)
  : list value * list (option exn) * heap :=
  match ops with
  | [] => (res, raisedl, h)
  | op :: r =>
      let '(rt, h') :=
        match op with
        | OpGather args => gather the_fn the_handler comb_fuel h (map (arg_value res) args)
        | OpChain a t e => chain the_fn the_handler comb_fuel h (arg_value res a) t e
        | OpUnwrap a => let '(v, h1) := unwrap the_fn the_handler comb_fuel h (arg_value res a) in (Ret v, h1)
        end in
      match rt with
      | Ret v => run_ops r (res ++ [v]) (raisedl ++ [None]) h'
      | Raise e => run_ops r (res ++ [VBase 0]) (raisedl ++ [Some e]) h'
      end
  end.

Fixpoint norm_value (v : value) : value :=
  match v with
  | VFut _ => VFut 0
  | VSeq l => VSeq (map norm_value l)
  | _ => v
  end.
Definition norm_res (r : fres) : fres := match r with RVal v => RVal (norm_value v) | e => e end.

Definition snapshot (h : heap) (res : list value) (raisedl : list (option exn)) : list ostate :=
  map (fun vr => match vr with
                 | (_, Some e) => OsRaised e
                 | (VFut f, None) => match futs h f with Pending _ => OsPending | Done r => OsDone (norm_res r) end
                 | (v, None) => OsPlain (norm_value v)
                 end) (combine res raisedl).

Definition result_value (res : list value) (c : cresult) : fres :=
  match c with CrVal a => RVal (arg_value res a) | CrExn n hd => RExn (EUser n hd) end.

Fixpoint run_sigma (sigma : list nat) (results : list cresult) (res : list value)
         (raisedl : list (option exn)) (h : heap) : list (list ostate) * heap :=
  match sigma with
  | [] => ([], h)
  | i :: r =>
      let h' := complete the_fn the_handler comb_fuel h i
                         (result_value res (nth i results (CrVal (APlain 0)))) in
      let '(snaps, hf) := run_sigma r results res raisedl h' in
      (snapshot h' res raisedl :: snaps, hf)
  end.

Definition run_script (sc : cscript) : list (list ostate) * heap :=
  let h00 := alloc_ext (sc_ext sc) empty_heap in
  let h0 := fold_left (fun h i => complete the_fn the_handler comb_fuel h i
                                    (result_value [] (nth i (sc_results sc) (CrVal (APlain 0)))))
                      (sc_pre sc) h00 in
  let '(res, raisedl, h1) := run_ops (sc_ops sc) [] [] h0 in
  let '(snaps, hf) := run_sigma (sc_sigma sc) (sc_results sc) res raisedl h1 in
  (snapshot h1 res raisedl :: snaps, hf).

Fixpoint value_eqb (a b : value) {struct a} : bool :=
  match a, b with
  | VBase x, VBase y => N.eqb x y
  | VFut _, VFut _ => true
  | VSeq l, VSeq m =>
      (fix go l m := match l, m with
                     | [], [] => true
                     | x :: l', y :: m' => value_eqb x y && go l' m'
                     | _, _ => false
                     end) l m
  | _, _ => false
  end.
Definition exn_eqb (a b : exn) : bool :=
  match a, b with
  | EUser n h, EUser m k => N.eqb n m && Bool.eqb h k
  | EInvalidState, EInvalidState => true
  | _, _ => false
  end.
Definition fres_eqb (a b : fres) : bool :=
  match a, b with
  | RVal v, RVal w => value_eqb v w
  | RExn e, RExn f => exn_eqb e f
  | _, _ => false
  end.
Definition ostate_eqb (a b : ostate) : bool :=
  match a, b with
  | OsPending, OsPending => true
  | OsDone r, OsDone q => fres_eqb r q
  | OsRaised e, OsRaised f => exn_eqb e f
  | OsPlain v, OsPlain w => value_eqb v w
  | _, _ => false
  end.
Fixpoint list_eqb {A} (e : A -> A -> bool) (a b : list A) : bool :=
  match a, b with
  | [], [] => true
  | x :: a', y :: b' => e x y && list_eqb e a' b'
  | _, _ => false
  end.

Definition agree_comb (sc : cscript) (snaps : list (list ostate)) (sw : N) : bool :=
  let '(msnaps, hf) := run_script sc in
  list_eqb (list_eqb ostate_eqb) msnaps snaps
  && N.eqb (N.of_nat (length (swallowed hf))) sw
  && negb (blocked hf) && negb (out_of_fuel hf).

Definition agree_C08 (c : case_C08) : bool :=
  match c with
  | CaseProg cfg p os => match os with [] => false | _ => forallb (agree_obs cfg p) os end
  | CaseComb sc snaps sw => agree_comb sc snaps sw
  end.

(* diagnostics *)
Definition model_C08 (c : case_C08) :=
  match c with
  | CaseProg cfg p os => (bs_prog p, map (fun o => run (o_sched o) (annotate (o_eager o) p)) os, [], [])
  | CaseComb sc _ _ => ((None, []), [], fst (run_script sc), swallowed (snd (run_script sc)))
  end.
