(* Model entry point + oracle for the C18 correspondence. *)
From PyGql Require Import Run.Driver Lang.VisitorModel Lang.VisitorEq.

(* The recording visitor of the harness decides by (class, loc) of the node
   it is given; everything not in its table is kept. *)
Definition rule := (kind * loc * action)%type.
Fixpoint lookup_rule (k : kind) (l : loc) (t : list rule) : action :=
  match t with
  | [] => Keep
  | (k', l', a) :: t' => if kind_eqb k k' && loc_eqb l l' then a else lookup_rule k l t'
  end.
Definition mk_visitor (p : bool * list rule) : visitor :=
  Visitor (fst p) (fun n => lookup_rule (kind_of n) (loc_of n) (snd p)).

Inductive in18 :=
| CVisit (vs : list (bool * list rule)) (root : node)   (* .visit(root) with a chain of recording visitors *)
| CVisitPos (vs : list (bool * list rule)) (insts : list nat) (root : node)
    (* a chain given position by position; [insts] maps each position to the visitor *instance*
       standing there (one instance may occupy several positions); the log names instances *)
| CVisitHist (steps : list (list (bool * list rule) * list nat)) (root : node)
    (* one ChainedVisitor object used for several visits of (a fresh parse of) the same document, its
       public [visitors] attribute re-assigned / extended / truncated / reordered between the visits:
       a chain is a function of the CURRENT visitors tuple, so each visit must be the visit by the
       chain standing in [visitors] at that moment (given position by position as in CVisitPos) *)
| CTransform (which : N) (d : document)                  (* 0 aliases, 1 camel->snake, 2 snake->camel *)
| CDispatch (k : kind)                                   (* class tables *)
| CCase (which : N) (name : str).                        (* 1 camel->snake, 2 snake->camel on a name *)

Inductive obs18 :=
| OVisit (tr : trace) (res : option node)
| OTree (res : option node)
| OHist (rs : list (trace * option node))   (* one (log, result) per visit of the history *)
| OCrash
| OIllFormed            (* a required attribute of some node is None after the visit *)
| ODispatch (visit_ok definition_ok enter_ok leave_ok : bool)
| OStr (r : option str).

Definition case_C18 : Type := in18 * obs18.

Definition fuel18 : nat := N.to_nat 5000.

Definition transform_visitor (which : N) : visitor :=
  Visitor true (match which with
                | 0%N => act_remove_aliases
                | 1%N => act_camel_to_snake
                | _ => fun n => match act_snake_to_camel n with Some a => a | None => Keep end
                end).

Definition rename_insts (insts : list nat) (tr : trace) : trace :=
  map (fun e : event => match e with (i, en, k, l) => (nth i insts i, en, k, l) end) tr.

Fixpoint model_hist (steps : list (list (bool * list rule) * list nat)) (root : node)
  : outcome (list (trace * option node)) :=
  match steps with
  | [] => Ok []
  | (vs, insts) :: rest =>
      do p <- visit_top fuel18 (map mk_visitor vs) root;
      do q <- model_hist rest root;
      Ok ((rename_insts insts (fst p), snd p) :: q)
  end.

Definition model_C18 (i : in18) : outcome obs18 :=
  match i with
  | CVisitHist steps root => do rs <- model_hist steps root; Ok (OHist rs)
  | CVisit vs root =>
      do p <- visit_top fuel18 (map mk_visitor vs) root; Ok (OVisit (fst p) (snd p))
  | CVisitPos vs insts root =>
      do p <- visit_top fuel18 (map mk_visitor vs) root;
      Ok (OVisit (map (fun e : event => match e with (i, en, k, l) => (nth i insts i, en, k, l) end) (fst p))
                 (snd p))
  | CTransform which d =>
      do p <- visit_top fuel18 [transform_visitor which] (NDoc d); Ok (OTree (snd p))
  | CDispatch k =>
      Ok (ODispatch (in_table k visit_table) (in_table k definition_table)
                    (in_table k dispatch_enter_table) (in_table k dispatch_leave_table))
  | CCase which nm =>
      Ok (OStr (match which with 1%N => Some (camel_to_snake nm) | _ => snake_to_camel nm end))
  end.

Definition visit_eqb (a b : trace * option node) : bool :=
  leqb event_eqb (fst a) (fst b) && oeqb node_eqb (snd a) (snd b).

Definition obs_eqb (a b : obs18) : bool :=
  match a, b with
  | OVisit t r, OVisit t' r' => leqb event_eqb t t' && oeqb node_eqb r r'
  | OTree r, OTree r' => oeqb node_eqb r r'
  | OHist a, OHist b => leqb visit_eqb a b
  | ODispatch a1 a2 a3 a4, ODispatch b1 b2 b3 b4 =>
      Bool.eqb a1 b1 && Bool.eqb a2 b2 && Bool.eqb a3 b3 && Bool.eqb a4 b4
  | OStr r, OStr r' => oeqb str_eqb r r'
  | _, _ => false
  end.

Definition agree_C18 (c : case_C18) : bool :=
  match model_C18 (fst c), snd c with
  | Ok o, o' => obs_eqb o o'
  | Crash 3, OCrash => true            (* TypeError from a class table *)
  | Crash 2, OIllFormed => true
  | _, _ => false
  end.
