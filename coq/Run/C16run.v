(* C16 -- correspondence entry points: the implementation's recorded traces
   are checked for membership in the specified set (trace_ok), and their stage
   word is compared with the model's. *)
From PyGql Require Import Run.Driver Spec.TraceSpec Exec.TraceModel Exec.RuntimeMachine Exec.TraceDeferred Exec.TraceLift Exec.TraceRequest Exec.TraceListModel.

(* what ApolloTracer.payload() exposes, as far as it depends on the hooks *)
Record tracer_obs := mkTracer {
  tr_paths : list path;      (* execution.resolvers[*].path, in order *)
  tr_all_ended : bool;       (* every resolver entry has a duration (on_field_end seen) *)
  tr_parsing : bool;         (* payload.parsing is not null, with a duration *)
  tr_validation : bool;      (* payload.validation is not null, with a duration *)
  tr_end : bool              (* endTime / duration present (on_query_end seen) *)
}.

(* one run of the implementation under one schedule *)
Record run_obs := mkRun {
  r_trace : list event;
  r_has_data : bool;               (* response has non-null data *)
  r_tracer : option tracer_obs;
  r_sched : list tid               (* the completion order that was driven (deferred runtimes) *)
}.

Record req := mkReq {
  q_k : nat; q_n : nat; q_text : bool; q_class : oclass; q_mw_awaits : bool;
  q_fields : list ftree;
  q_prog : option prog;            (* the operation as a program of the C08/C09 executor machine
                                      (deferred runtimes; a field whose argument coercion fails is
                                      a synchronous resolver failure there) *)
  q_argerr : list TraceSpec.path;  (* ... and is marked here *)
  q_drop_invoke : bool;            (* asyncio: the coroutine body starts before its completion;
                                      compare without the Invoke events *)
  q_lprog : option lfields         (* the operation for the completion model Exec/TraceListModel.v
                                      (requests with list fields) *)
}.
Definition case_C16 : Type := req * list run_obs.

Definition cfg_of (q : req) : config :=
  mkConfig (q_k q) (q_n q) (q_text q) (q_class q) (q_mw_awaits q) (expected_roots (q_fields q)).

(* the model's whole trace for a sequential executor (resolver identities do
   not influence the events) *)
Definition model_C16 (q : req) : list event :=
  request_blocking (q_k q) (q_n q) (fun _ => O) (q_text q) (q_class q) (q_fields q).

Definition is_fstart0 (e : event) : bool := match e with FieldStart O _ => true | _ => false end.
Definition paths_eqb (a b : list path) : bool := if list_eq_dec path_eq_dec a b then true else false.

(* the tracer sits on the stack after recorder 0: it must have seen the same
   fields in the same order, all ended, and the same stages *)
Definition tracer_ok (q : req) (t : list event) (o : tracer_obs) : bool :=
  paths_eqb (tr_paths o) (flat_map (fun e => match ev_path e with Some p => [p] | None => [] end)
                                   (filter is_fstart0 t))
  && tr_all_ended o
  && Bool.eqb (tr_parsing o) (q_text q)
  && Bool.eqb (tr_validation o) (reaches_validation (q_class q))
  && tr_end o.

(* the composed model (Exec/TraceRequest.v): the executor machine run under the
   recorded schedule, its log decorated with the field hooks, argument errors
   erased, lifted to k instrumentations and n middlewares -- must predict the
   implementation's field-level events exactly *)
Definition marked_of (l : list TraceSpec.path) : TraceSpec.path -> bool :=
  fun p => existsb (fun q => if path_eq_dec q p then true else false) l.
Definition is_core (drop_inv : bool) (e : event) : bool :=
  is_field e && match e with Invoke _ => negb drop_inv | _ => true end.
Definition machine_ok (q : req) (r : run_obs) : bool :=
  match q_prog q with
  | None => true
  | Some pr =>
      match run (r_sched r) pr with
      | Some st =>
          (match pending (ms st) with [] => true | _ => false end)
          && (if word_eq_dec (filter (is_core (q_drop_invoke q)) (r_trace r))
                             (filter (is_core (q_drop_invoke q))
                                     (deferred_fields (q_k q) (q_n q) (q_mw_awaits q) (marked_of (q_argerr q)) pr st))
              then true else false)
      | None => false
      end
  end.

Definition checks (q : req) (r : run_obs) : list bool :=
  let c := cfg_of q in
  [ trace_ok c (r_trace r);
    (if word_eq_dec (filter is_stage (r_trace r)) (filter is_stage (model_C16 q)) then true else false);
    Bool.eqb (r_has_data r) (is_exec (q_class q));
    match r_tracer r with Some o => tracer_ok q (r_trace r) o | None => true end ].

Definition agree_C16 (c : case_C16) : bool :=
  forallb (fun r => forallb (fun b => b) (checks (fst c) r)) (snd c).

(* the completion model (Exec/TraceListModel.v) must start exactly the fields the
   harness expects to be resolved (which trace_ok compares with the implementation) *)
Definition list_model_ok (q : req) : bool :=
  match q_lprog q with
  | None => true
  | Some fs =>
      if list_eq_dec path_eq_dec (map fst (c_started (operation (fun _ => O) fs)))
                                 (map nd_path (expected_roots (q_fields q)))
      then true else false
  end.

(* Agreement of the executor machine + decoration with the implementation, run
   by run. Exact equality with a model is stricter than the property (a
   refactoring may move a hook within what trace_spec allows), so this is not
   part of agree_C16: mismatches are reported in the evidence as
   model disagreement / oracle freedom (DESIGN.md 4.5), not as violations. *)
Definition machine_agree_C16 (c : case_C16) : bool := forallb (machine_ok (fst c)) (snd c) && list_model_ok (fst c).

(* diagnostics: per run, which parts fail (1 stage word, 2 nesting in execution,
   3 unknown field path, 4 per-field word, 5 parent order, 6 stage word vs model,
   7 data presence, 8 tracer, 9 composed deferred model under the same schedule) *)
Local Open Scope N_scope.
Definition diag_run (q : req) (r : run_obs) : list N :=
  let c := cfg_of q in let t := r_trace r in
  (if word_eq_dec (filter is_stage t) (stage_word c) then [] else [1]) ++
  (if nest_scan (c_k c) O O t then [] else [2]) ++
  (if forallb (fun x => negb (is_field x) || existsb (fun nd => about (nd_path nd) x) (nodes_of c)) t then [] else [3]) ++
  (if forallb (fun nd => word_okb c nd (filter (about (nd_path nd)) t)) (nodes_of c) then [] else [4]) ++
  (if forallb (parent_okb t) (nodes_of c) then [] else [5]) ++
  (if word_eq_dec (filter is_stage t) (filter is_stage (model_C16 q)) then [] else [6]) ++
  (if Bool.eqb (r_has_data r) (is_exec (q_class q)) then [] else [7]) ++
  (match r_tracer r with Some o => if tracer_ok q t o then [] else [8] | None => [] end) ++
  (if machine_ok q r then [] else [9]).
Definition diag_C16 (c : case_C16) : list (list N) := map (diag_run (fst c)) (snd c).
