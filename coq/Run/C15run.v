(* C15 -- correspondence entry point: one case is a dumped schema plus the
   observations made on it (data trees of the implementation's responses). *)
From PyGql Require Import Run.Driver Schema.IntrospectModel Spec.IntrospectSpec.

Inductive obs15 :=
| OIntro (fl : iflags) (data : pv)                 (* introspection_query(), includeDeprecated := flag *)
| OIntroDisabled (data : pv)                       (* the same under disable_introspection *)
| OType (fl : iflags) (n : str) (data : pv)        (* { __type(name: n) { ...FullType } } *)
| OProbe (disabled mutation : bool) (root : pv) (sels : list psel) (data : pv)
(* a reported defaultValue text and what the implementation's parse_value
   makes of it (None: syntax error): ties the Spec's reader [parse_lit] to
   the real parser on the texts introspection emits *)
| OParse (text : str) (parsed : option lit)
(* a declared default at a position of type t, and whether the implementation's
   reported defaultValue parsed back to it (parse_value + value_from_ast):
   wherever the guard of C15_exact_partial accepts, it must have *)
| OGuard (t : iref) (v : pv) (parsed_back : bool)
(* an in-place edit of the Schema object happened here (history cases): the
   following observations belong to the next segment's dump; nothing to compare *)
| OEdit.

Fixpoint lit_eqb (a b : lit) : bool :=
  match a, b with
  | LNull, LNull => true
  | LBool x, LBool y => Bool.eqb x y
  | LInt x, LInt y => Z.eqb x y
  | LFloat x, LFloat y => str_eqb x y
  | LStr x, LStr y => str_eqb x y
  | LEnum x, LEnum y => str_eqb x y
  | LList x, LList y =>
      (fix go (x y : list lit) : bool :=
         match x, y with
         | [], [] => true
         | u :: x', v :: y' => lit_eqb u v && go x' y'
         | _, _ => false
         end) x y
  | LObj x, LObj y =>
      (fix go (x y : list (str * lit)) : bool :=
         match x, y with
         | [], [] => true
         | (k, u) :: x', (k', v) :: y' => str_eqb k k' && lit_eqb u v && go x' y'
         | _, _ => false
         end) x y
  | _, _ => false
  end.

(* a case is a history on ONE Schema object: segments (dump of the schema as
   it is now, observations made in that state), separated by in-place edits *)
Definition case_C15 : Type := list (ischema pv * list obs15).

Definition opt_pv_eqb (m : option pv) (d : pv) : bool :=
  match m with Some v => pv_eqb v d | None => false end.

Definition model_obs (sc : ischema pv) (o : obs15) : option pv :=
  match o with
  | OIntro fl _ => Some (introspect_model sc fl)
  | OIntroDisabled _ => Some (PDict [])
  | OType fl n _ => Some (type_query_model sc fl n)
  | OProbe dis mut root sels _ => probe_model big_fuel dis mut sc root sels
  | OParse _ _ => None
  | OGuard _ _ _ => None
  | OEdit => None
  end.

Definition obs_data (o : obs15) : pv :=
  match o with
  | OIntro _ d => d | OIntroDisabled d => d | OType _ _ d => d | OProbe _ _ _ _ d => d
  | OParse _ _ => PNone
  | OGuard _ _ _ => PNone
  | OEdit => PNone
  end.

Definition agree_obs (sc : ischema pv) (o : obs15) : bool :=
  match o with
  | OParse text parsed =>
      match parse_lit text, parsed with
      | Some a, Some b => lit_eqb a b
      | None, None => true
      | _, _ => false
      end
  | OGuard t v ok => implb (default_okb (s_types sc) t v) ok
  | OEdit => true
  | _ => opt_pv_eqb (model_obs sc o) (obs_data o)
  end.

Definition agree_C15 (c : case_C15) : bool :=
  forallb (fun seg => forallb (agree_obs (fst seg)) (snd seg)) c.

(* indices of the disagreeing observations of one case (diagnostics) *)
Definition bad_obs (c : case_C15) : list N :=
  bad_indices (fun p => agree_obs (fst p) (snd p))
              (flat_map (fun seg => map (pair (fst seg)) (snd seg)) c).
