(* C15 -- correspondence entry point: one case is a dumped schema plus the
   observations made on it (data trees of the implementation's responses). *)
From PyGql Require Import Run.Driver Schema.IntrospectModel.

Inductive obs15 :=
| OIntro (fl : iflags) (data : pv)                 (* introspection_query(), includeDeprecated := flag *)
| OIntroDisabled (data : pv)                       (* the same under disable_introspection *)
| OType (fl : iflags) (n : str) (data : pv)        (* { __type(name: n) { ...FullType } } *)
| OProbe (disabled mutation : bool) (root : pv) (sels : list psel) (data : pv).

Definition case_C15 : Type := ischema pv * list obs15.

Definition opt_pv_eqb (m : option pv) (d : pv) : bool :=
  match m with Some v => pv_eqb v d | None => false end.

Definition model_obs (sc : ischema pv) (o : obs15) : option pv :=
  match o with
  | OIntro fl _ => Some (introspect_model sc fl)
  | OIntroDisabled _ => Some (PDict [])
  | OType fl n _ => Some (type_query_model sc fl n)
  | OProbe dis mut root sels _ => probe_model big_fuel dis mut sc root sels
  end.

Definition obs_data (o : obs15) : pv :=
  match o with
  | OIntro _ d => d | OIntroDisabled d => d | OType _ _ d => d | OProbe _ _ _ _ d => d
  end.

Definition agree_obs (sc : ischema pv) (o : obs15) : bool := opt_pv_eqb (model_obs sc o) (obs_data o).

Definition agree_C15 (c : case_C15) : bool := forallb (agree_obs (fst c)) (snd c).

(* indices of the disagreeing observations of one case (diagnostics) *)
Definition bad_obs (c : case_C15) : list N := bad_indices (agree_obs (fst c)) (snd c).
