(* Correspondence entry point for C04: concrete worlds (tables keyed by
   response path), a concrete reading of argument coercion for the argument
   shapes the generator produces, and the comparison with the observables of
   the implementation. *)
From PyGql Require Import Run.Driver Exec.ExecModel.

(* ------------------------------------------------------------ equality *)
Fixpoint list_eqb {A} (e : A -> A -> bool) (a b : list A) : bool :=
  match a, b with
  | [], [] => true
  | x :: a', y :: b' => e x y && list_eqb e a' b'
  | _, _ => false
  end.

(* exact structural equality of response values (ordered dicts) *)
Fixpoint pv_eqb (a b : pv) {struct a} : bool :=
  match a, b with
  | PNone, PNone => true
  | PBool x, PBool y => Bool.eqb x y
  | PInt x, PInt y => Z.eqb x y
  | PFloat x, PFloat y => str_eqb x y
  | PStr x, PStr y => str_eqb x y
  | PList x, PList y =>
      (fix go (x y : list pv) : bool :=
         match x, y with
         | [], [] => true
         | u :: x', v :: y' => pv_eqb u v && go x' y'
         | _, _ => false
         end) x y
  | PDict x, PDict y =>
      (fix go (x y : list (str * pv)) : bool :=
         match x, y with
         | [], [] => true
         | (k, u) :: x', (k', v) :: y' => str_eqb k k' && pv_eqb u v && go x' y'
         | _, _ => false
         end) x y
  | _, _ => false
  end.

Definition loc_eqb (a b : loc) : bool :=
  match a, b with
  | None, None => true
  | Some (x, y), Some (x', y') => Nat.eqb x x' && Nat.eqb y y'
  | _, _ => false
  end.

Definition kind_eqb (a b : err_kind) : bool :=
  match a, b with
  | EResolver m x, EResolver m' x' => str_eqb m m' && pv_eqb x x'
  | ECoercion, ECoercion => true
  | ENonNull, ENonNull => true
  | _, _ => false
  end.

Definition error_eqb (a b : error) : bool :=
  path_eqb (e_path a) (e_path b) && list_eqb loc_eqb (e_locs a) (e_locs b)
  && kind_eqb (e_kind a) (e_kind b).

(* ------------------------------------------------------------- worlds *)
Inductive wentry :=
| WVal (v : pv)
| WEcho (arg : str)                 (* returns the coerced argument of that (python) name, None if absent *)
| WEchoAll                          (* returns dict(kwargs): every coerced argument it received, in order *)
| WErr (msg : str) (ext : pv)
| WExn
| WDefault.                         (* behaves as default_resolver *)

Fixpoint wlookup (p : path) (t : list (path * wentry)) : option wentry :=
  match t with
  | [] => None
  | (q, e) :: t' => if path_eqb p q then Some e else wlookup p t'
  end.

Definition world_of_table (t : list (path * wentry)) : world_t :=
  fun p _parent _tname _fname args =>
    match wlookup p t with
    | None | Some WDefault => RDefault
    | Some (WVal v) => RVal v
    | Some (WEcho a) => RVal (match alookup a args with Some v => v | None => PNone end)
    | Some WEchoAll => RVal (PDict args)
    | Some (WErr m x) => RErr m x
    | Some WExn => RExn
    end.

(* custom resolve_type callbacks of the generated schemas: lambda v, *_: v.get(key) *)
Definition tyres_of_table (t : list (str * str)) : str -> option (pv -> tyname_res) :=
  fun abstract =>
    match alookup abstract t with
    | None => None
    | Some key =>
        Some (fun v => match v with
                       | PDict kvs =>
                           match alookup key kvs with
                           | None | Some PNone => TRNone
                           | Some (PStr n) => TRName n
                           | Some _ => TRBad
                           end
                       | _ => TRBad      (* AttributeError would be a crash; generator returns dicts *)
                       end)
    end.

(* custom scalar serialisers of the generated schemas *)
Definition ser_identity (v : pv) : option pv := Some v.
(* a serialiser given by a table: designated values (compared exactly, with
   their Python type) are mapped to a result -- possibly None -- or rejected
   (None = raises ValueError); every other value passes unchanged *)
Fixpoint ser_table (t : list (pv * option pv)) (v : pv) : option pv :=
  match t with
  | [] => Some v
  | (k, r) :: t' => if pv_eqb k v then r else ser_table t' v
  end.

Definition ser_int_to_str (v : pv) : option pv :=
  match v with PInt z => Some (PStr (Z_text z)) | _ => None end.

(* ------------------------------------------- argument coercion (reading) *)
(* coerce_argument_values for arguments of type [T] / [T!] with T one of the
   specified scalars or an enum, given literals or variables. Anything else
   is outside what the generator produces. *)
Section Coerce.
  Variable sch : schema.
  Variable vs : vars.

  Definition s_Int := str_of_string "Int"%string.
  Definition s_Boolean := str_of_string "Boolean"%string.
  Definition s_ID := str_of_string "ID"%string.

  Definition literal_named (n : str) (v : value) : outcome pv :=
    match v with
    | VNull _ => Ok PNone
    | _ =>
      match get_type sch n with
      | Some (TScalar SInt) =>
          match v with
          | VInt t _ => match parse_decimal t with
                        | Some z => if in_int_range z then Ok (PInt z) else Rejected REJ_COERCION 0
                        | None => Crash CRASH_UNMODELLED
                        end
          | _ => Rejected REJ_COERCION 0
          end
      | Some (TScalar SString) =>
          match v with VString t _ _ => Ok (PStr t) | _ => Rejected REJ_COERCION 0 end
      | Some (TScalar SBoolean) =>
          match v with VBool b _ => Ok (PBool b) | _ => Rejected REJ_COERCION 0 end
      | Some (TScalar SID) =>
          match v with
          | VString t _ _ => Ok (PStr t)
          | VInt t _ => Ok (PStr t)
          | _ => Rejected REJ_COERCION 0
          end
      | Some (TEnum vals) =>
          match v with
          | VEnum t _ => match alookup t vals with
                         | Some iv => Ok iv
                         | None => Rejected REJ_COERCION 0
                         end
          | _ => Rejected REJ_COERCION 0
          end
      | _ => Crash CRASH_UNMODELLED
      end
    end.

  Definition literal_value (t : tref) (v : value) : outcome pv :=
    match t with
    | RNonNull (RNamed n) =>
        match v with VNull _ => Rejected REJ_COERCION 0 | _ => literal_named n v end
    | RNamed n => literal_named n v
    | _ => Crash CRASH_UNMODELLED
    end.

  Definition is_nonnull (t : tref) : bool := match t with RNonNull _ => true | _ => false end.

  Fixpoint coerce_arg_defs (ads : list adef) (args : list argument) : outcome (list (str * pv)) :=
    match ads with
    | [] => Ok []
    | ad :: ads' =>
        let continue_with (x : option pv) :=
          do rest <- coerce_arg_defs ads' args;
          Ok (match x with Some v => (ad_pyname ad, v) :: rest | None => rest end) in
        let absent :=
          match ad_default ad with
          | Some dv => continue_with (Some dv)
          | None => if is_nonnull (ad_type ad) then Rejected REJ_COERCION 0 else continue_with None
          end in
        match find_arg_last (ad_name ad) args with
        | None => absent
        | Some a =>
            match a_val a with
            | VVar n _ =>
                match alookup (n_val n) vs with
                | Some PNone => if is_nonnull (ad_type ad) then Rejected REJ_COERCION 0
                                else continue_with (Some PNone)
                | Some v => continue_with (Some v)
                | None => absent
                end
            | lit => do v <- literal_value (ad_type ad) lit; continue_with (Some v)
            end
        end
    end.

  Definition coerce_args_c04 (fd : fdef) (node : selection) : outcome (list (str * pv)) :=
    match node with
    | SField _ _ args _ _ _ _ => coerce_arg_defs (f_args fd) args
    | _ => Crash CRASH_BADSCHEMA
    end.
End Coerce.

(* --------------------------------------------------------------- cases *)
Record c04_input := C04In {
  ci_schema : schema;
  ci_doc : document;
  ci_opname : option str;
  ci_vars : vars;                       (* coerced by the library's coerce_variable_values *)
  ci_root : pv;
  ci_world : list (path * wentry);
  ci_tyres : list (str * str) }.

Inductive obs04 :=
| ObsResult (data : pv) (errors : list error)
| ObsRejected                            (* data = None with an ExecutionError *)
| ObsCrash (kind : N).                   (* exception class: 2 resolver's own, 3 RuntimeError, 4 UnknownType, 5 TypeError, 0 other *)

(* the observables: BlockingExecutor, generic Executor on the blocking
   runtime, BlockingExecutor after earlier requests on the same Schema *)
Definition case1_C04 : Type := c04_input * list obs04.

(* one generated case: a single request with its observables, or a stream of
   requests served by one long-lived Schema object -- then one entry per
   distinct request, with its observable on a fresh Schema and every
   different observable it produced anywhere in the stream *)
Definition case_C04 : Type := list case1_C04.

Definition model_C04 (i : c04_input) : result :=
  execute (ci_schema i) (coerce_args_c04 (ci_schema i)) (world_of_table (ci_world i))
          (tyres_of_table (ci_tyres i)) big_fuel 64
          (ci_doc i) (ci_opname i) (ci_vars i) (ci_root i).

Definition obs_agrees (m : result) (o : obs04) : bool :=
  match m, o with
  | Ok (d, es), ObsResult d' es' => pv_eqb d d' && list_eqb error_eqb es es'
  | Rejected _ _, ObsRejected => true
  | Crash k, ObsCrash k' => negb (Nat.eqb k CRASH_UNMODELLED) && N.eqb (N.of_nat k) k'
  | _, _ => false
  end.

Definition agree1_C04 (c : case1_C04) : bool :=
  let m := model_C04 (fst c) in
  match snd c with
  | [] => false
  | os => forallb (obs_agrees m) os
  end.

Definition agree_C04 (c : case_C04) : bool :=
  match c with
  | [] => false
  | _ => forallb agree1_C04 c
  end.
