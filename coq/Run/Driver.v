(* Helpers for generated Cases_*.v files (correspondence runs). *)
From PyGql Require Export Base.Str Base.Pv Lang.Ast.

Definition s (x : string) : str := str_of_string x.
Definition L (a b : N) : loc := Some (N.to_nat a, N.to_nat b).
Definition NL : loc := None.

(* fuel for model runs on generated (finite, acyclic) inputs *)
Definition big_fuel : nat := N.to_nat 200000.

(* canonical printing of an outcome's class for diagnostics *)
Definition outcome_tag {A} (o : outcome A) : N :=
  match o with Ok _ => 0 | OutOfFuel => 1 | Rejected _ _ => 2 | Crash _ => 3 end.
