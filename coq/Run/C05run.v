From PyGql Require Import Run.Driver.
From PyGql Require Export Valid.ValidShape.

(* observables of the implementation *)
Inductive obs05 :=
| ObsRules (raised : list N) (reported : list N)
    (* each rule class run alone through validators=: rules whose run raised,
       rules whose run returned a non-empty error list *)
| ObsShape (opidx : N) (has_errors : bool) (data : pv).
    (* document with an empty error list executed: index of the operation,
       whether the response carries errors, and the response data *)

Definition case_C05 : Type := (schema * document) * obs05.

Definition memN (x : N) (l : list N) : bool := existsb (N.eqb x) l.

(* the model's verdict per rule: Some true = reports, Some false = silent *)
Definition model_rule (s : schema) (d : document) (r : N) : option bool :=
  match rule_model (if N.eqb r 25 then overlap_fuel s d else O) s d r with
  | Ok [] => Some false
  | Ok _ => Some true
  | _ => None
  end.

Definition model_C05 (i : schema * document) : list (N * option bool) :=
  map (fun r => (r, model_rule (fst i) (snd i) r)) all_rules.

Definition agree_rules (s : schema) (d : document) (raised reported : list N) : bool :=
  match raised with
  | [] => forallb (fun r => match model_rule s d r with
                            | Some b => Bool.eqb b (memN r reported)
                            | None => false
                            end) all_rules
  | _ => false
  end.

Definition agree_C05 (c : case_C05) : bool :=
  let '((s, d), o) := c in
  match o with
  | ObsRules raised reported => agree_rules s d raised reported
  | ObsShape opidx he data => shape_ok big_fuel s d (N.to_nat opidx) he data
  end.
