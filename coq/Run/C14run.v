(* C14 correspondence: histories of operations over one source schema, run on
   the store model and compared with the implementation's observe dumps. *)
From PyGql Require Import Run.Driver Schema.StoreModel Schema.StoreExtend.
Local Open Scope N_scope.

Inductive stepc :=
| SSkip
| SClone (on : N)
| SVis (on : N) (inplace : bool) (types : list str) (fields infields : list (str * str))
       (args evs dirs : list str)                     (* the hidden elements *)
| SCamel (on : N) (inplace : bool)
| SSdir (on : N) (inplace : bool)
| SExtend (on : N) (doc : extdoc)                       (* extend_schema(target, document) *)
| SReplace (on : N) (rebuild same : list str)
| SSwap (on : N) (names : list str).                   (* schema.types[n] = rebuilt; fix_type_references *)

Inductive status := StOk | StInvalid | StRejected | StCrash | StSkipped.

Record store := MkStore { st_mem : mem; st_schemas : list (option schema) }.

Definition get_schema (st : store) (k : N) : option schema :=
  match nth_error (st_schemas st) (N.to_nat k) with Some (Some s) => Some s | _ => None end.
Fixpoint set_nth {A} (n : nat) (x : A) (l : list A) : list A :=
  match n, l with
  | O, _ :: l' => x :: l'
  | S n', y :: l' => y :: set_nth n' x l'
  | _, [] => []
  end.
Definition set_schema (st : store) (k : N) (s : schema) : store :=
  MkStore (st_mem st) (set_nth (N.to_nat k) (Some s) (st_schemas st)).

Definition pair_mem (p : str * str) (l : list (str * str)) : bool :=
  existsb (fun q => str_eqb (fst p) (fst q) && str_eqb (snd p) (snd q)) l.

Definition preds_of (types : list str) (fields infields : list (str * str)) (args evs dirs : list str)
  : vis_preds :=
  MkVis (fun n => negb (mem_str n types)) (fun n => negb (mem_str n dirs))
        (fun t f => negb (pair_mem (t, f) fields)) (fun t f => negb (pair_mem (t, f) infields))
        (fun n => negb (mem_str n args)) (fun n => negb (mem_str n evs)).

Definition camel_of (tbl : list (str * str)) : str -> str :=
  fun n => match alookup n tbl with Some c => c | None => n end.

(* the two schema directives of the harness: @rename(to:) builds a renamed
   member of the same kind, @remove returns None *)
Definition sd_run : sdimpl := fun dn arg m o =>
  if str_eqb dn (s "remove") then (m, None)
  else match arg, mget m o with
       | Some to, Some (OField _ py ty args d dp r sb ds) =>
           let (m1, o') := alloc m (OField to py ty args d dp r sb ds) in (m1, Some o')
       | Some to, Some (OInput a _ py ty df d ds) =>
           let (m1, o') := alloc m (OInput a to py ty df d ds) in (m1, Some o')
       | Some to, Some (OEnumV _ v d dp ds) =>
           let (m1, o') := alloc m (OEnumV to v d dp ds) in (m1, Some o')
       | _, _ => (m, Some o)
       end.
Definition sd_names : list str := [s "rename"; s "remove"].

(* _rebuilt of the harness: a new type object sharing the member objects *)
Fixpoint rebuild_entries (m : mem) (tm : list (str * oid)) (names : list str) : mem * updates :=
  match names with
  | [] => (m, [])
  | n :: rest =>
      match alookup n tm with
      | Some o => match mget m o with
                  | Some v => let (m1, o') := alloc m v in
                              let (m2, ups) := rebuild_entries m1 tm rest in
                              (m2, (n, Some o') :: ups)
                  | None => rebuild_entries m tm rest
                  end
      | None => rebuild_entries m tm rest
      end
  end.
Definition same_entries (tm : list (str * oid)) (names : list str) : updates :=
  flat_map (fun n => match alookup n tm with Some o => [(n, Some o)] | None => [] end) names.
(* a Python dict literal: a later entry for the same key overwrites the value, keeping the position *)
Fixpoint dict_of (ups : updates) (acc : updates) : updates :=
  match ups with
  | [] => acc
  | (n, v) :: rest => dict_of rest (aset n v acc)
  end.

Definition fuel14 : nat := 400.

(* result of one step: the new memory, the (possibly mutated) target, the new schema *)
Definition run_op (camel : str -> str) (m : mem) (target : schema) (c : stepc)
  : outcome (mem * option schema * option schema) :=
  let fresh (r : outcome (mem * schema)) := do x <- r; Ok (fst x, None, Some (snd x)) in
  let inpl (r : outcome (mem * schema)) := do x <- r; Ok (fst x, Some (snd x), None) in
  match c with
  | SSkip => Crash 9
  | SClone _ => fresh (clone fuel14 m target)
  | SVis _ ip types fields infields args evs dirs =>
      let v := vis_visitor (preds_of types fields infields args evs dirs) in
      if ip then inpl (on_schema fuel14 v m target) else fresh (transform fuel14 v m target)
  | SCamel _ ip =>
      let v := camel_visitor camel in
      if ip then inpl (on_schema fuel14 v m target) else fresh (transform fuel14 v m target)
  | SSdir _ ip =>
      if ip then inpl (apply_schema_directives fuel14 sd_names sd_run m target)
      else fresh (do c <- clone fuel14 m target;
                  apply_schema_directives fuel14 sd_names sd_run (fst c) (snd c))
  | SExtend _ doc => fresh (extend fuel14 m target doc)
  | SReplace _ rebuild same =>
      fresh (do c <- clone fuel14 m target;
             let (m1, ups) := rebuild_entries (fst c) (s_types (snd c)) rebuild in
             replace_and_heal fuel14 m1 (snd c)
               (dict_of (ups ++ same_entries (s_types (snd c)) same) []) [])
  | SSwap _ names =>
      fresh (do c <- clone fuel14 m target;
             let (m1, ups) := rebuild_entries (fst c) (s_types (snd c)) names in
             let sc := touch_poss (fst c) (snd c) in
             let tm := fold_left (fun tm u => match snd u with Some o => aset (fst u) o tm | None => tm end)
                                 ups (s_types sc) in
             fix_type_references fuel14 m1
               (MkSchema tm (s_dirs sc) (s_query sc) (s_mut sc) (s_sub sc) (s_impls sc) (s_poss sc)))
  end.

Definition step_on (c : stepc) : N :=
  match c with
  | SSkip => 0
  | SClone on | SVis on _ _ _ _ _ _ _ | SCamel on _ | SSdir on _ | SExtend on _ | SReplace on _ _
  | SSwap on _ => on
  end.

(* observe schema k (touching its possible-types cache, as dumping it in
   Python does) and compare with the implementation's dump *)
Definition check_dumps (st : store) (extra : option (N * schema)) (dumps : list (N * sx))
  : store * option schema * bool :=
  fold_left (fun acc d =>
               let '(st, extra_s, ok) := acc in
               let k := fst d in
               match extra, extra_s with
               | Some (ke, _), Some se =>
                   if N.eqb k ke then
                     let se' := touch_poss (st_mem st) se in
                     (st, Some se', ok && sx_eqb (observe (st_mem st) se') (snd d))
                   else match get_schema st k with
                        | Some sk => let sk' := touch_poss (st_mem st) sk in
                                     (set_schema st k sk', extra_s, ok && sx_eqb (observe (st_mem st) sk') (snd d))
                        | None => (st, extra_s, false)
                        end
               | _, _ =>
                   match get_schema st k with
                   | Some sk => let sk' := touch_poss (st_mem st) sk in
                                (set_schema st k sk', extra_s, ok && sx_eqb (observe (st_mem st) sk') (snd d))
                   | None => (st, extra_s, false)
                   end
               end)
            dumps (st, match extra with Some (_, e) => Some e | None => None end, true).

Definition push (st : store) (r : option schema) : store :=
  MkStore (st_mem st) (st_schemas st ++ [r]).

(* one step of the history; the implementation's status decides what the
   model cannot: whether transform_schema's final validate() accepts the
   result (StInvalid: the result is compared, then discarded) *)
Definition step (camel : str -> str) (acc : store * bool) (x : stepc * status * list (N * sx)) : store * bool :=
  let '(st, ok) := acc in
  let '(c, status, dumps) := x in
  let idx := N.of_nat (length (st_schemas st)) in
  match status with
  | StSkipped => (push st None, ok && match c with SSkip => true | _ => false end)
  | StCrash => (push st None, false)
  | _ =>
      match get_schema st (step_on c) with
      | None => (push st None, false)
      | Some target =>
          match run_op camel (st_mem st) target c with
          | Ok (m', target', res) =>
              let st1 := MkStore m' (st_schemas st) in
              let st2 := match target' with Some t => set_schema st1 (step_on c) t | None => st1 end in
              match status with
              | StRejected => (push st None, false)
              | _ =>
                  let '(st3, res', good) :=
                    check_dumps st2 (match res with Some r => Some (idx, r) | None => None end) dumps in
                  let kept := match status with StOk => res' | _ => None end in
                  (push st3 kept, ok && good)
              end
          | Rejected _ _ =>
              let '(st3, _, good) := check_dumps st None dumps in
              (push st3 None, ok && good && match status, c with
                                            | StRejected, _ => true
                                            | StInvalid, SExtend _ _ => true   (* both refuse; validate() is not modelled *)
                                            | _, _ => false
                                            end)
          | _ => (push st None, false)
          end
      end
  end.

Definition case_C14 : Type :=
  heap * schema * list (str * str) * sx * list (stepc * status * list (N * sx)).

Definition init_store (h : heap) (sc : schema) : store :=
  MkStore (MkMem (h ++ builtin_heap) (fold_left (fun acc e => N.max acc (N.succ (fst e))) h 10)) [Some sc].

Definition model_C14 (c : case_C14) : store * bool :=
  let '(h, sc, camel, dump0, steps) := c in
  let st0 := init_store h sc in
  let '(st1, _, ok0) := check_dumps st0 None [(0, dump0)] in
  fold_left (step (camel_of camel)) steps (st1, ok0).

Definition agree_C14 (c : case_C14) : bool := snd (model_C14 c).

(* diagnostics: per step, per compared schema: does the model's dump agree *)
Definition show_C14 (c : case_C14) : list (list (N * bool)) * list sx :=
  let '(h, sc, camel, dump0, steps) := c in
  let st0 := init_store h sc in
  let '(st1, _, ok0) := check_dumps st0 None [(0, dump0)] in
  let r := fold_left (fun acc x =>
                        let '(st, out, bad) := acc in
                        let '(c1, status, dumps) := x in
                        let per := map (fun d => (fst d, snd (step (camel_of camel) (st, true) (c1, status, [d])))) dumps in
                        let st' := fst (step (camel_of camel) (st, true) x) in
                        let bad' := match bad with
                                    | [] => flat_map (fun d =>
                                              if snd (step (camel_of camel) (st, true) (c1, status, [d])) then []
                                              else match get_schema (fst (step (camel_of camel) (st, true) (c1, status, [d]))) (fst d) with
                                                   | Some sk => [observe (st_mem (fst (step (camel_of camel) (st, true) (c1, status, [d])))) sk]
                                                   | None => [SA 404]
                                                   end) dumps
                                    | _ => bad
                                    end in
                        (st', out ++ [per], bad')) steps (st1, [[(0, ok0)]], []) in
  (snd (fst r), snd r).
