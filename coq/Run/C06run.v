From PyGql Require Import Run.Driver.
From PyGql Require Export Run.C05run.

(* C06 compares the set of rule labels that report (each rule class run
   alone) with the model's, for base documents, labelled violators and their
   metamorphic variants. *)
Definition case_C06 : Type := (schema * document) * list N.

Definition model_C06 (i : schema * document) : list N :=
  filter (fun r => match model_rule (fst i) (snd i) r with Some true => true | _ => false end) all_rules.

Definition agree_C06 (c : case_C06) : bool :=
  let '((s, d), reported) := c in agree_rules s d [] reported.
