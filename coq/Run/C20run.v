(* Correspondence entry point for C20: the model of diff_schema (including the
   two validate() calls through the C13 validator model) and the two safe
   type-change predicates. *)
From PyGql Require Import Run.Driver Schema.SchemaFull Schema.DifferModel Schema.SchemaValidateModel.

Inductive obs20 :=
| ObsChanges (l : list change)   (* diff_schema yielded these changes *)
| ObsInvalid                     (* SchemaValidationError from old/new .validate() *)
| ObsOther.                      (* any other exception *)

Inductive case_C20 :=
| CaseDiff (o n : schema) (obs : obs20)
| CasePred (o n : ty) (safe_in_obs safe_out_obs : bool).

Definition model_C20 (o n : schema) : outcome (list change) :=
  if schema_valid o && schema_valid n then Ok (diff_model o n) else Rejected 0 0.

Definition agree_C20 (c : case_C20) : bool :=
  match c with
  | CaseDiff o n obs =>
      match model_C20 o n, obs with
      | Ok l, ObsChanges l' => multiset_eqb change_eqb l l'
      | Rejected _ _, ObsInvalid => true
      | _, _ => false
      end
  | CasePred o n si so => Bool.eqb (safe_in o n) si && Bool.eqb (safe_out o n) so
  end.
