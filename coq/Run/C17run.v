(* Correspondence entry point for C17.
     CStream   a subscription over n events: per event the data and errors
               obtained by executing the same selection as a plain query with
               that event as root value on a fresh executor (the oracle for
               [run]; None = that execution raised a non-field exception),
               the observed per-event responses (None = __anext__ raised and
               the consumer went on reading), the observed trace of the
               source and the consumer, whether the stream ended, and the
               source's consumption counter at the end
     CRefusal  a request that must be refused: the facts about it (by
               construction of the case), the class of the exception raised,
               whether the subscription resolver was called, the counter *)
From PyGql Require Import Run.Driver Exec.ResponseModel Spec.ResponseSpec Exec.SubscribeModel
  Spec.SubscribeSpec Run.C10run.

Inductive obs_class := OExecutionError | ORuntimeError | OVariablesCoercionError | OCoercionError | OOther | ONoException.

Inductive case_C17 :=
| CStream (fresh : list (option json * list json)) (observed : list (option json))
          (trace : list trace_ev) (ended : bool) (consumed : N)
| CHistory (fresh : list (option json * list json)) (j : N)
           (answers : list (option (option json)))   (* per __anext__ call: None = StopAsyncIteration,
                                                        Some None = another exception, Some (Some r) = a result *)
           (consumed : N)                            (* source items delivered after those j calls *)
| CRefusal (q : sub_request) (cls : obs_class) (resolver_called : bool) (consumed : N).

(* the model instantiated: events are indices into the oracle table, the
   executor's caches carry nothing observable *)
Definition run_table (fresh : list (option json * list json)) (c : unit) (k : nat)
  : unit * option json * list json :=
  match nth_error fresh k with
  | Some (d, es) => (c, d, es)
  | None => (c, None, [])
  end.

(* GraphQLResult(data, errors).response(), or the exception *)
Definition resp_of (r : option json * list json) : option json :=
  match fst r with
  | Some d => Some (JObj ((match snd r with [] => [] | es => [(k_errors, JArr es)] end) ++ [(k_data, d)]))
  | None => None
  end.

Fixpoint jsons_eqb (a b : list (option json)) : bool :=
  match a, b with
  | [], [] => true
  | Some x :: a', Some y :: b' => json_eqb (erase_messages x) (erase_messages y) && jsons_eqb a' b'
  | None :: a', None :: b' => jsons_eqb a' b'
  | _, _ => false
  end.

Definition trace_ev_eqb (a b : trace_ev) : bool :=
  match a, b with
  | Pulled x, Pulled y | Emitted x, Emitted y => x =? y
  | Ended, Ended => true
  | _, _ => false
  end.

Fixpoint trace_eqb (a b : list trace_ev) : bool :=
  match a, b with
  | [], [] => true
  | x :: a', y :: b' => trace_ev_eqb x y && trace_eqb a' b'
  | _, _ => false
  end.

Definition all_ok : sub_request := SubRequest true true true true true 1 true true.

Definition class_matches (c : exn_class) (o : obs_class) : bool :=
  match c, o with
  | ExecutionErrorC, OExecutionError => true
  | RuntimeErrorC, ORuntimeError => true
  | VariablesCoercionErrorC, OVariablesCoercionError => true
  | CoercionErrorC, OCoercionError => true
  | _, _ => false
  end.

Definition model_stream (fresh : list (option json * list json)) :=
  match subscribe unit nat json tt all_ok (seq 0 (length fresh)) with
  | (Started s0, true, O) => Some (drain unit nat (option json) json (run_table fresh) s0)
  | _ => None
  end.

Fixpoint answers_eqb (model : list (option (option json * list json))) (obs : list (option (option json))) : bool :=
  match model, obs with
  | [], [] => true
  | None :: m', None :: o' => answers_eqb m' o'
  | Some r :: m', Some x :: o' =>
      match resp_of r, x with
      | Some a, Some b => json_eqb (erase_messages a) (erase_messages b)
      | None, None => true
      | _, _ => false
      end && answers_eqb m' o'
  | _, _ => false
  end.

Definition model_history (fresh : list (option json * list json)) (j : nat) :=
  match subscribe unit nat json tt all_ok (seq 0 (length fresh)) with
  | (Started s0, true, O) => Some (pulls unit nat (option json) json (run_table fresh) j s0)
  | _ => None
  end.

Definition agree_C17 (c : case_C17) : bool :=
  match c with
  | CHistory fresh j answers consumed =>
      match model_history fresh (N.to_nat j) with
      | Some (s', rs) => answers_eqb rs answers && (ss_consumed s' =? N.to_nat consumed)
      | None => false
      end
  | CStream fresh observed trace ended consumed =>
      match model_stream fresh with
      | Some (s_end, rs) =>
          jsons_eqb (map resp_of rs) observed &&
          trace_eqb (ss_trace s_end) trace && ended &&
          (ss_consumed s_end =? N.to_nat consumed)
      | None => false
      end
  | CRefusal q cls called consumed =>
      match subscribe unit nat json tt q [] with
      | (Refused r, called', consumed') =>
          class_matches (refusal_class r) cls && Bool.eqb called called' &&
          (N.to_nat consumed =? consumed')
      | (Started _, _, _) => match cls with ONoException => true | _ => false end
      end
  end.
