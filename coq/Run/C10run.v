(* Correspondence entry point for C10.  Four kinds of cases:
     CResp   a request through an entry point: the stage verdicts observed
             through the library's stage functions, the obligated null
             positions (by the harness's own type tables + the resolvers'
             log), and what the entry point returned
     CLoc    index_to_loc on a text and position
     CLocInv loc_to_index on a text and (line, column)
     CFloat  coerce_float on a value whose float() is given *)
From PyGql Require Import Run.Driver Lang.LocModel Exec.ResponseModel Spec.ResponseSpec
  Exec.ResponseCheck.

Inductive obs10 :=
| ObsResponse (r : json) (strict_roundtrip : bool)
    (* response() after json.dumps(allow_nan=False) and json.loads; the flag
       says the parsed-back value equals response() (nothing was coerced) *)
| ObsNotJson                      (* json.dumps(allow_nan=False) refused *)
| ObsRaised (cls : str).          (* the entry point or response() raised *)

Inductive loc_obs := LocOk (l c : N) | LocIndexError | LocOther.
Inductive idx_obs := IdxOk (i : N) | IdxIndexError | IdxOther.

Inductive case_C10 :=
| CResp (doc : str) (st : stages) (obligated : list path) (o : obs10)
| CLoc (body : str) (p : N) (o : loc_obs)
| CLocInv (body : str) (l c : N) (o : idx_obs)
| CFloat (fx : jnum) (accepted : bool).

(* message texts are never compared *)
Definition erase_msg_err (j : json) : json :=
  match j with
  | JObj kvs => JObj (map (fun kv => if str_eqb (fst kv) k_message
                                      then (fst kv, match snd kv with JStr _ => JStr [] | v => v end)
                                      else kv) kvs)
  | _ => j
  end.

Definition erase_messages (r : json) : json :=
  match r with
  | JObj kvs =>
      JObj (map (fun kv => if str_eqb (fst kv) k_errors
                           then (fst kv, match snd kv with JArr es => JArr (map erase_msg_err es) | v => v end)
                           else kv) kvs)
  | _ => r
  end.

Definition is_syntax_stage (st : stages) : bool :=
  match st_parse st with Some _ => true | None => false end.

(* strict version: the specification as is *)
Definition agree_resp_strict (doc : str) (st : stages) (obligated : list path) (o : obs10) : bool :=
  stages_wf_b doc st &&
  match pipeline_model doc st, o with
  | Ok m, ObsResponse r rt =>
      rt && wf_response_b doc r && data_presence_b (failed_early st) r &&
      null_error_match_b obligated r && json_eqb (erase_messages r) (erase_messages m)
  | Crash k, ObsRaised cls => (k =? crash_RuntimeError) && str_eqb cls (s "RuntimeError")
  | _, _ => false
  end.

(* the version the check uses: identical, except that at the syntax-error
   stage the recorded finding (key "columne" for "column") is read through
   [rename_columne]; harness/props/c10.py reports that finding separately *)
Definition agree_resp (doc : str) (st : stages) (obligated : list path) (o : obs10) : bool :=
  stages_wf_b doc st &&
  match pipeline_model doc st, o with
  | Ok m, ObsResponse r rt =>
      let view := fun x => if is_syntax_stage st then rename_columne x else x in
      rt && wf_response_b doc (view r) && data_presence_b (failed_early st) r &&
      null_error_match_b obligated r &&
      json_eqb (erase_messages (view r)) (erase_messages (view m))
  | Crash k, ObsRaised cls => (k =? crash_RuntimeError) && str_eqb cls (s "RuntimeError")
  | _, _ => false
  end.

Definition agree_C10 (c : case_C10) : bool :=
  match c with
  | CResp doc st obligated o => agree_resp doc st obligated o
  | CLoc body p o =>
      match index_to_loc body (N.to_nat p), o with
      | Ok (l, c), LocOk l' c' => (l =? N.to_nat l') && (c =? N.to_nat c')
      | Crash _, LocIndexError => true
      | _, _ => false
      end
  | CLocInv body l c o =>
      match loc_to_index body (N.to_nat l, N.to_nat c), o with
      | Ok i, IdxOk i' => i =? N.to_nat i'
      | Crash _, IdxIndexError => true
      | _, _ => false
      end
  | CFloat fx accepted =>
      Bool.eqb (match coerce_float (fun x => x) fx with Ok _ => true | _ => false end) accepted
  end.

Definition model_C10 (c : case_C10) : outcome json :=
  match c with
  | CResp doc st _ _ => pipeline_model doc st
  | _ => Crash 0
  end.

(* diagnostics for replay files: which component of [agree_resp] fails
   (stage outcomes well-formed, strict round trip, wf_response, data presence,
   null/error match, equality with the model's response) and the model's answer *)
Definition diagnose_C10 (c : case_C10) : list bool * outcome json :=
  match c with
  | CResp doc st obligated o =>
      let m := pipeline_model doc st in
      let view := fun x => if is_syntax_stage st then rename_columne x else x in
      match o with
      | ObsResponse r rt =>
          ([stages_wf_b doc st; rt; wf_response_b doc (view r); data_presence_b (failed_early st) r;
            null_error_match_b obligated r;
            match m with Ok mr => json_eqb (erase_messages (view r)) (erase_messages (view mr)) | _ => false end], m)
      | _ => ([stages_wf_b doc st], m)
      end
  | _ => ([agree_C10 c], Crash 0)
  end.
