(* Correspondence entry point for C13: the validator model on whole schemas,
   register/validate histories, is_subtype on type pairs, and the resolver
   signature check. *)
From PyGql Require Import Run.Driver Schema.SchemaFull Schema.SchemaValidateModel Spec.SchemaValidSpec.

Inductive obs13 :=
| ObsAccept                     (* validate_schema returned True *)
| ObsErrors (l : list verr)     (* SchemaValidationError.errors, mapped to labels *)
| ObsCrash.                     (* any other exception *)

Inductive case_C13 :=
| CaseSchema (s : schema) (o : obs13)      (* validate_schema(s) *)
             (o_structural : obs13)        (* validate_schema(s, enable_resolver_validation=False) *)
| CaseHistory (s : schema) (ops : list op) (rs : list step_result)
| CaseSubtype (ts : list type_def) (t u : ty) (b : bool)
| CaseSig (sg : rsig) (args : list arg_def) (errs : list verr)
          (calls : list (list str * bool)).  (* keywords passed, bound without TypeError *)

Definition label_code (l : vlabel) : N :=
  match l with
  | LMustProvideQuery => 0 | LQueryNotObject => 1 | LMutationNotObject => 2
  | LSubscriptionNotObject => 3 | LInvalidTypeName => 4 | LInvalidName => 5
  | LNoFields => 6 | LDuplicateField => 7 | LFieldNotOutput => 8 | LDuplicateArg => 9
  | LArgNotInput => 10 | LDirDuplicateArg => 11 | LDirArgNotInput => 12
  | LResMissing => 13 | LResPosOnly => 14 | LResNeedsDefault => 15 | LResPositional => 16
  | LResExtraRequired => 17 | LInterfaceTwice => 18 | LNotInterface => 19
  | LIfaceFieldMissing => 20 | LIfaceFieldType => 21 | LIfaceArgMissing => 22
  | LIfaceArgType => 23 | LIfaceExtraRequiredArg => 24 | LUnionEmpty => 25
  | LUnionMemberNotObject => 26 | LUnionMemberTwice => 27 | LEnumEmpty => 28
  | LInputFieldNotInput => 29
  end%N.

Fixpoint strs_eqb (a b : list str) : bool :=
  match a, b with
  | [], [] => true
  | x :: a', y :: b' => str_eqb x y && strs_eqb a' b'
  | _, _ => false
  end.

Definition verr_eqb (a b : verr) : bool :=
  N.eqb (label_code (v_label a)) (label_code (v_label b)) && strs_eqb (v_subject a) (v_subject b).

Definition result_eqb (a b : step_result) : bool :=
  match a, b with
  | RAccepted, RAccepted | RDone, RDone | RValueError, RValueError
  | RUnknownType, RUnknownType | RSchemaError, RSchemaError => true
  | RInvalid x, RInvalid y => multiset_eqb verr_eqb x y
  | _, _ => false
  end.

Fixpoint results_eqb (a b : list step_result) : bool :=
  match a, b with
  | [], [] => true
  | x :: a', y :: b' => result_eqb x y && results_eqb a' b'
  | _, _ => false
  end.

Definition model_C13 (s : schema) : list verr := validate_model s.

Definition agree_C13 (c : case_C13) : bool :=
  match c with
  | CaseSchema s o o2 =>
      let agree l o :=
        match l, o with
        | [], ObsAccept => true
        | (_ :: _) as l, ObsErrors l' => multiset_eqb verr_eqb l l'
        | _, _ => false
        end in
      agree (model_C13 s) o && agree (validate_structural s) o2
  | CaseHistory s ops rs => results_eqb (run (initial s) ops) rs
  | CaseSubtype ts t u b => Bool.eqb (is_subtype_model ts t u) b
  | CaseSig sg args errs calls =>
      multiset_eqb verr_eqb
        (resolver_errors [str_of_string "Query"; str_of_string "f"]%string sg args) errs
      (* the Spec's model of Python's binding agrees with the calls really made *)
      && forallb (fun c => Bool.eqb (binds sg (fst c)) (snd c)) calls
  end.
