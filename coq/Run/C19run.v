From PyGql Require Import Run.Driver Exec.Depth.

Inductive obs19 :=
| ObsFlagged (l : list (N * Z))   (* (index of the operation in doc.definitions, reported depth) *)
| ObsCoercionError                (* library error from directive arguments *)
| ObsOther.                       (* any other exception *)

Definition pair_eqb (a b : N * Z) : bool := N.eqb (fst a) (fst b) && Z.eqb (snd a) (snd b).
Fixpoint list_eqb {A} (e : A -> A -> bool) (a b : list A) : bool :=
  match a, b with
  | [], [] => true
  | x :: a', y :: b' => e x y && list_eqb e a' b'
  | _, _ => false
  end.

(* one call of a rule instance *)
Definition call_C19 : Type := (document * vars * Z * option str) * obs19.
(* a case is a history of calls on ONE rule instance and ONE parsed document object:
   the model is a pure function of each call's own arguments, so every call must agree *)
Definition case_C19 : Type := list call_C19.

Definition model_C19 (i : document * vars * Z * option str) : outcome (list (N * Z)) :=
  let '(d, vs, limit, filter) := i in max_depth_rule big_fuel limit filter d vs.

Definition agree_call_C19 (c : call_C19) : bool :=
  match model_C19 (fst c), snd c with
  | Ok l, ObsFlagged l' => list_eqb pair_eqb l l'
  | Rejected _ _, ObsCoercionError => true
  | _, _ => false
  end.

Definition agree_C19 (c : case_C19) : bool := forallb agree_call_C19 c.
