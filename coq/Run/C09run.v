(* Correspondence entry point for C09: the cases are those of C08 (program,
   configuration, observations of all explored completion orders); on top of
   C08's comparison the *observed* event list and data must satisfy the
   executable forms of the C09 specification (Spec/SchedSpec.v). *)
From Coq Require Import List NArith ZArith Bool Arith.
Import ListNotations.
From PyGql Require Import Exec.RuntimeMachine Spec.SchedSpec Run.C08run.

Definition case_C09 : Type := case_C08.

(* entry_top, index_of, key_index, serialb: Spec/SchedSpec.v (serialb_sound: serialb = true -> serial_trace) *)

(* each Finish is preceded by its Invoke *)
Fixpoint causalb (seen : list tid) (l : list entry) : bool :=
  match l with
  | [] => true
  | LInvoke t :: r => negb (mem_tid t seen) && causalb (t :: seen) r
  | LFinish t :: r => mem_tid t seen && causalb seen r
  | LErr _ _ :: r => causalb seen r
  end.

Definition data_keys (v : val) : list N := match v with VObj kvs => map fst kvs | _ => [] end.
Fixpoint list_N_eqb (a b : list N) : bool :=
  match a, b with
  | [], [] => true
  | x :: a', y :: b' => N.eqb x y && list_N_eqb a' b'
  | _, _ => false
  end.

Definition invoked (k : N) (l : list entry) : bool :=
  existsb (fun e => match e with LInvoke t => tid_eqb t ([k], O) | _ => false end) l.

Definition agree_obs09 (c : config) (p : prog) (o : obs) : bool :=
  let ks := keys_of (prog_fields p) in
  agree_obs c p o
  && causalb [] (o_events o)
  && (if prog_mut p then serialb ks (o_events o) else true)
  && match o_core o with
     | OData v _ => list_N_eqb (data_keys v) ks && forallb (fun k => invoked k (o_events o)) ks
     | _ => true
     end.

Definition agree_C09 (c : case_C09) : bool :=
  match c with
  | CaseProg cfg p os => match os with [] => false | _ => forallb (agree_obs09 cfg p) os end
  | CaseComb _ _ _ => false
  end.

Definition model_C09 (c : case_C09) := model_C08 c.
