(* Model entry point + oracle for the C03 correspondence: the printed text must
   be equal character for character. *)
From PyGql Require Import Run.Driver Lang.PrinterModel.

Inductive in03 :=
| CDoc (d : document) (ind : str) (incl : bool)      (* ASTPrinter(indent, include_descriptions)(document) *)
| CVal (v : value) (ind : str)                       (* ASTPrinter(indent)(value node) *)
| CHist (calls : list (document * str * bool)).
    (* a sequence of print_ast(doc, indent, include_descriptions) / ASTPrinter(...)(doc) calls made
       one after the other in one process: printing is a pure function of its three arguments,
       so every call of the history must give the model's text whatever was printed before *)

Inductive obs03 :=
| OText (t : str)
| ORaised
| OTexts (ts : list (option str)).                   (* one entry per call; None = the call raised *)

Definition case_C03 : Type := in03 * obs03.

Definition model_C03 (i : in03) : str :=
  match i with
  | CDoc d ind incl => print_ast ind incl d
  | CVal v ind => pr_value (Cfg ind true) v
  | CHist _ => []
  end.

Definition model_hist (calls : list (document * str * bool)) : list str :=
  map (fun c => match c with (d, ind, incl) => print_ast ind incl d end) calls.

Fixpoint texts_agree (ms : list str) (ts : list (option str)) : bool :=
  match ms, ts with
  | [], [] => true
  | m :: ms', Some t :: ts' => str_eqb m t && texts_agree ms' ts'
  | _, _ => false
  end.

Definition agree_C03 (c : case_C03) : bool :=
  match fst c, snd c with
  | CHist calls, OTexts ts => texts_agree (model_hist calls) ts
  | CHist _, _ => false
  | i, OText t => str_eqb (model_C03 i) t
  | _, _ => false
  end.
