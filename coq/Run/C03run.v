(* Model entry point + oracle for the C03 correspondence: the printed text must
   be equal character for character. *)
From PyGql Require Import Run.Driver Lang.PrinterModel.

Inductive in03 :=
| CDoc (d : document) (ind : str) (incl : bool)      (* ASTPrinter(indent, include_descriptions)(document) *)
| CVal (v : value) (ind : str).                      (* ASTPrinter(indent)(value node) *)

Inductive obs03 := OText (t : str) | ORaised.

Definition case_C03 : Type := in03 * obs03.

Definition model_C03 (i : in03) : str :=
  match i with
  | CDoc d ind incl => print_ast ind incl d
  | CVal v ind => pr_value (Cfg ind true) v
  end.

Definition agree_C03 (c : case_C03) : bool :=
  match snd c with
  | OText t => str_eqb (model_C03 (fst c)) t
  | ORaised => false
  end.
