(* C07 -- model entry points and comparison for the correspondence run. *)
From PyGql Require Import Run.Driver Exec.CoerceModel Proofs.CoerceCheck Proofs.CoerceAgreeCheck.
From Coq Require Import ZArith.

(* what the implementation did: a value, a documented rejection family
   (1 CoercionError, 2 InvalidValue, 3 VariablesCoercionError), or any other
   exception *)
Inductive obs07 :=
| OOk (v : pv)
| ORej (k : N)
| OCrash.

Inductive case_C07 :=
(* coerce_value(json, type) *)
| CaseVal (s : schema) (t : ity) (j : json) (o : obs07)
(* value_from_ast(literal, type, variables) *)
| CaseLit (s : schema) (t : ity) (l : value) (vs : vars) (o : obs07)
(* a request  query (vds) { f(call) }  with raw variables against a field f
   with arguments defs: coerce_variable_values, then (when that succeeded)
   coerce_argument_values on its result, and the keyword arguments the
   resolver of f really received when the request was executed *)
| CaseExec (s : schema) (defs : list ifield) (vds : list var_def) (call : list argument)
           (raw : list (str * json)) (ovars : obs07) (oargs : option obs07) (oexec : obs07)
(* a request selecting ONE field node  g(call)  on an interface / union
   position: the node is resolved once per returned object, against the field
   definition of that object's concrete type (own defaults, extra optional
   arguments, own python names). [items]: for each returned object, in order,
   the argument definitions of its concrete type and what its resolver received *)
| CaseAbs (s : schema) (vds : list var_def) (call : list argument) (raw : list (str * json))
          (ovars : obs07) (items : list (list ifield * obs07))
(* directive arguments: a request  query (vds) { f @dirs  other }  where dirs
   may hold @skip / @include and a custom directive @custom(cdefs).
   [oskip]: OOk (PBool b) = field f was left out (b = true) or resolved, ORej 1 =
   the request died with a CoercionError from _skip_selection.
   [ocustom]: what info.get_directive_arguments("custom") gave inside f's
   resolver (OOk PNone = directive absent; ORej 1 = CoercionError reported for
   the field); None when f was not resolved *)
| CaseDir (s : schema) (cdefs : list ifield) (vds : list var_def) (dirs : list directive)
          (raw : list (str * json)) (ovars : obs07) (oskip : option obs07) (ocustom : option obs07)
          (* the same @custom application written in SDL on a type and applied
             as a schema directive (build_schema: coerce_argument_values
             without variables); None when not applicable *)
          (osdl : option obs07)
(* the two serialisations of ONE real py_gql schema whose Query.f takes the
   arguments defs: this property's (s, defs) and the validation model's
   (harness/ser_valid.py): the premises schema_agreeb / field_args_agreeb of
   C07_validated_request_sound_checked, evaluated *)
| CaseAgree (s : schema) (defs : list ifield) (s' : PyGql.Valid.ValidSchema.schema).

Fixpoint pv_eqb (a b : pv) {struct a} : bool :=
  match a, b with
  | PNone, PNone => true
  | PBool x, PBool y => Bool.eqb x y
  | PInt x, PInt y => Z.eqb x y
  | PFloat x, PFloat y => str_eqb x y
  | PStr x, PStr y => str_eqb x y
  | PList x, PList y =>
      (fix go (x y : list pv) : bool :=
         match x, y with
         | [], [] => true
         | u :: x', v :: y' => pv_eqb u v && go x' y'
         | _, _ => false
         end) x y
  | PDict x, PDict y =>
      (fix go (x y : list (str * pv)) : bool :=
         match x, y with
         | [], [] => true
         | (k, u) :: x', (k', v) :: y' => str_eqb k k' && pv_eqb u v && go x' y'
         | _, _ => false
         end) x y
  | _, _ => false
  end.

Definition same {A} (f : A -> pv) (m : outcome A) (o : obs07) : bool :=
  match m, o with
  | Ok v, OOk v' => pv_eqb (f v) v'
  | Rejected k _, ORej k' => N.eqb (N.of_nat k) k'
  | Crash _, OCrash => true
  | _, _ => false
  end.

Definition model_val (s : schema) (t : ity) (j : json) : outcome pv := coerce_value s j t.
Definition model_lit (s : schema) (t : ity) (l : value) (vs : vars) : outcome pv :=
  value_from_ast s vs l t.

(* ---- Spec-level oracle (Proofs/CoerceCheck.v, proved sound): the generated
   schema / argument definitions satisfy the hypotheses of the theorems, and
   what the IMPLEMENTATION handed out conforms to the declared types ---- *)
Definition obs_conforms (s : schema) (t : ity) (o : obs07) : bool :=
  match o with OOk v => conformsb s t v | _ => true end.

Definition kwargs_okb (s : schema) (defs : list ifield) (kw : list (str * pv)) : bool :=
  nodupb (map fst kw)
  && forallb (fun kv => match find_py (fst kv) defs with
                        | Some d => conformsb s (f_ty d) (snd kv)
                        | None => false
                        end) kw
  && forallb (fun d => negb (has_default d || ity_nn (f_ty d)) || mem_str (f_py d) (map fst kw)) defs.

Definition obs_kwargs_ok (s : schema) (defs : list ifield) (o : obs07) : bool :=
  match o with
  | OOk (PDict kw) => kwargs_okb s defs kw
  | OOk PNone => true
  | OOk _ => false
  | _ => true
  end.

Definition spec_check_C07 (c : case_C07) : bool :=
  match c with
  | CaseVal s t j o => schema_okb s && boundb s t && input_tyb s t && obs_conforms s t o
  | CaseLit s t l vs o =>
      schema_okb s && boundb s t && input_tyb s t
      && match vs with [] => obs_conforms s t o | _ => true end
  | CaseExec s defs _ _ _ _ oargs oexec =>
      schema_okb s && args_okb s defs && obs_kwargs_ok s defs oexec
      && match oargs with Some oa => obs_kwargs_ok s defs oa | None => true end
  | CaseAbs s _ _ _ _ items =>
      schema_okb s
      && forallb (fun it => args_okb s (fst it) && obs_kwargs_ok s (fst it) (snd it)) items
  | CaseAgree s defs s' =>
      schema_okb s && args_okb s defs && schema_agreeb s s'
      && field_args_agreeb s' (str_of_string "Query"%string) (str_of_string "f"%string) defs
  | CaseDir s cdefs _ _ _ _ _ ocustom osdl =>
      schema_okb s && args_okb s cdefs
      && match ocustom with Some o => obs_kwargs_ok s cdefs o | None => true end
      && match osdl with Some o => obs_kwargs_ok s cdefs o | None => true end
  end.

Definition agree_model_C07 (c : case_C07) : bool :=
  match c with
  | CaseAgree _ _ _ => true
  | CaseVal s t j o => same (fun v => v) (model_val s t j) o
  | CaseLit s t l vs o => same (fun v => v) (model_lit s t l vs) o
  | CaseExec s defs vds call raw ovars oargs oexec =>
      let mv := coerce_variable_values s vds raw in
      same PDict mv ovars
      && match mv, oargs with
         | Ok vs, Some oa => same PDict (coerce_argument_values s defs call vs) oa
         | Ok _, None => false
         | _, Some _ => false
         | _, None => true
         end
      && same PDict (exec_kwargs s defs vds call raw) oexec
  | CaseAbs s vds call raw ovars items =>
      let mv := coerce_variable_values s vds raw in
      same PDict mv ovars
      && match mv with
         | Ok vs => forallb (fun it => same PDict (coerce_argument_values s (fst it) call vs) (snd it)) items
         | _ => match items with [] => true | _ => false end
         end
  | CaseDir s cdefs vds dirs raw ovars oskip ocustom osdl =>
      let mv := coerce_variable_values s vds raw in
      same PDict mv ovars
      && match osdl with
         | Some o => same (fun o => match o with Some kw => PDict kw | None => PNone end)
                          (directive_arguments s cdefs (str_of_string "custom"%string) dirs []) o
         | None => true
         end
      && match mv with
         | Ok vs =>
             let sk := skip_selection_args s dirs vs in
             match oskip with
             | Some os => same PBool sk os
             | None => false
             end
             && match sk with
                | Ok false =>
                    match ocustom with
                    | Some oc =>
                        same (fun o => match o with Some kw => PDict kw | None => PNone end)
                             (exec_directive_args s cdefs vds (str_of_string "custom"%string) dirs raw) oc
                    | None => false
                    end
                | _ => match ocustom with None => true | Some _ => false end
                end
         | _ => match oskip, ocustom with None, None => true | _, _ => false end
         end
  end.

Definition agree_C07 (c : case_C07) : bool := agree_model_C07 c && spec_check_C07 c.

(* diagnostics *)
Definition model_C07 (c : case_C07) :=
  match c with
  | CaseAgree _ _ _ => (Ok PNone, None, None)
  | CaseVal s t j _ => (model_val s t j, None, None)
  | CaseLit s t l vs _ => (model_lit s t l vs, None, None)
  | CaseExec s defs vds call raw _ _ _ =>
      let mv := coerce_variable_values s vds raw in
      (match mv with Ok d => Ok (PDict d) | Rejected k p => Rejected k p
                | OutOfFuel => OutOfFuel | Crash c => Crash c end,
       Some (match mv with Ok vs => Some (coerce_argument_values s defs call vs) | _ => None end),
       Some (exec_kwargs s defs vds call raw))
  | CaseAbs s vds call raw _ items =>
      let mv := coerce_variable_values s vds raw in
      (match mv with Ok d => Ok (PDict d) | Rejected k p => Rejected k p
                | OutOfFuel => OutOfFuel | Crash c => Crash c end,
       None,
       match mv, items with
       | Ok vs, it :: _ => Some (coerce_argument_values s (fst it) call vs)
       | _, _ => None
       end)
  | CaseDir s cdefs vds dirs raw _ _ _ _ =>
      let mv := coerce_variable_values s vds raw in
      (match mv with Ok d => Ok (PDict d) | Rejected k p => Rejected k p
                | OutOfFuel => OutOfFuel | Crash c => Crash c end,
       match mv with
       | Ok vs => Some (Some (match skip_selection_args s dirs vs with
                              | Ok b => Ok [(str_if, PBool b)]
                              | Rejected k p => Rejected k p
                              | OutOfFuel => OutOfFuel | Crash c => Crash c end))
       | _ => None
       end,
       match mv with
       | Ok vs => Some (match directive_arguments s cdefs (str_of_string "custom"%string) dirs vs with
                        | Ok (Some kw) => Ok kw
                        | Ok None => Ok []
                        | Rejected k p => Rejected k p
                        | OutOfFuel => OutOfFuel | Crash c => Crash c end)
       | _ => None
       end)
  end.

(* per-object answers of the model for a CaseAbs, for diagnostics *)
Definition model_C07_items (c : case_C07) :=
  match c with
  | CaseAbs s vds call raw _ items =>
      match coerce_variable_values s vds raw with
      | Ok vs => map (fun it => coerce_argument_values s (fst it) call vs) items
      | _ => []
      end
  | _ => []
  end.
