(* Python values seen by resolvers, variables and responses. Dicts are
   ordered association lists (key order is observable). Floats are kept as
   the canonical decimal text the harness produces, never as doubles. *)
From PyGql Require Export Base.Str.
From Coq Require Export ZArith.

Inductive pv :=
| PNone
| PBool (b : bool)
| PInt (z : Z)
| PFloat (repr : str)
| PStr (s : str)
| PList (l : list pv)
| PDict (kvs : list (str * pv)).

(* Python truthiness *)
Definition truthy (v : pv) : bool :=
  match v with
  | PNone => false
  | PBool b => b
  | PInt z => negb (Z.eqb z 0)
  | PFloat r => negb (str_eqb r (str_of_string "0.0"%string) || str_eqb r (str_of_string "-0.0"%string))
  | PStr s => match s with [] => false | _ => true end
  | PList l => match l with [] => false | _ => true end
  | PDict k => match k with [] => false | _ => true end
  end.

Definition vars := list (str * pv).
