(* Text as lists of code points. Python [str] is a sequence of code points;
   no byte-level model. *)
From Coq Require Export String Ascii.
From Coq Require Export List NArith Bool Arith Lia.
Export ListNotations.

Definition char := N.
Definition str := list char.

Fixpoint str_eqb (a b : str) : bool :=
  match a, b with
  | [], [] => true
  | x :: a', y :: b' => N.eqb x y && str_eqb a' b'
  | _, _ => false
  end.

Lemma str_eqb_spec a b : reflect (a = b) (str_eqb a b).
Proof.
  revert b; induction a as [|x a IH]; intros [|y b]; simpl; try (constructor; congruence).
  destruct (N.eqb_spec x y) as [->|Hn]; simpl.
  - destruct (IH b) as [->|Hn]; constructor; congruence.
  - constructor; congruence.
Qed.

Lemma str_eqb_eq a b : str_eqb a b = true <-> a = b.
Proof. destruct (str_eqb_spec a b); split; congruence. Qed.

Lemma str_eqb_refl a : str_eqb a a = true.
Proof. apply str_eqb_eq; reflexivity. Qed.

Lemma str_eqb_neq a b : str_eqb a b = false <-> a <> b.
Proof. destruct (str_eqb_spec a b); split; congruence. Qed.

Definition str_eq_dec (a b : str) : {a = b} + {a <> b}.
Proof. destruct (str_eqb_spec a b); [left|right]; assumption. Defined.

(* Literals: [s"on"] style via Coq strings (ASCII only). *)
Fixpoint str_of_string (s : string) : str :=
  match s with
  | EmptyString => []
  | String c s' => N_of_ascii c :: str_of_string s'
  end.

Definition mem_str (x : str) (l : list str) : bool := existsb (str_eqb x) l.

Lemma mem_str_In x l : mem_str x l = true <-> In x l.
Proof.
  unfold mem_str; rewrite existsb_exists; split.
  - intros [y [Hy He]]; apply str_eqb_eq in He; subst; assumption.
  - intros H; exists x; split; [assumption|apply str_eqb_refl].
Qed.

(* Association lists keyed by strings, insertion ordered (Python dict). *)
Fixpoint alookup {A} (k : str) (l : list (str * A)) : option A :=
  match l with
  | [] => None
  | (k', v) :: l' => if str_eqb k k' then Some v else alookup k l'
  end.

Lemma alookup_In {A} k (l : list (str * A)) v : alookup k l = Some v -> In (k, v) l.
Proof.
  induction l as [|[k' v'] l IH]; simpl; [discriminate|].
  destruct (str_eqb_spec k k') as [->|Hn]; intros H.
  - inversion H; subst; left; reflexivity.
  - right; auto.
Qed.

(* Outcome of a model function: a value, exhausted fuel (stands for
   unbounded recursion in the code), a documented rejection, or a crash
   (any other exception). *)
Inductive outcome (A : Type) :=
| Ok (a : A)
| OutOfFuel
| Rejected (kind : nat) (pos : nat)
| Crash (kind : nat).
Arguments Ok {A} a.
Arguments OutOfFuel {A}.
Arguments Rejected {A} kind pos.
Arguments Crash {A} kind.

Definition obind {A B} (x : outcome A) (f : A -> outcome B) : outcome B :=
  match x with
  | Ok a => f a
  | OutOfFuel => OutOfFuel
  | Rejected k p => Rejected k p
  | Crash k => Crash k
  end.

Notation "'do' x <- e ; f" := (obind e (fun x => f))
  (at level 200, x pattern, e at level 100, f at level 200, right associativity).

(* indices of failing cases, for the correspondence driver *)
Fixpoint bad_indices_from {A} (i : N) (ok : A -> bool) (l : list A) : list N :=
  match l with
  | [] => []
  | x :: l' => if ok x then bad_indices_from (N.succ i) ok l'
               else i :: bad_indices_from (N.succ i) ok l'
  end.
Definition bad_indices {A} (ok : A -> bool) (l : list A) : list N :=
  bad_indices_from 0%N ok l.

Goal length [1%N; 2%N] = 2. Proof. reflexivity. Qed.
