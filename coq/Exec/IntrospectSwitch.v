(* C15 -- the disable_introspection switch on top of the C04 executor model.

   Exec/ExecModel.v models ResolutionContext.field_definition with
   introspection enabled.  This file adds the switch of
   execution/wrappers.py (`if name in ("__schema", "__type", "__typename"):
   if self._disable_introspection: return None`) and ties the knot of
   execute_fields again with it; everything else -- collect_fields,
   resolve_field, complete_value, resolve_type, the error list -- is the C04
   model's own definition, used as is. *)
From PyGql Require Export Exec.ExecModel.

Definition is_meta_field (name : str) : bool :=
  str_eqb name s_typename || str_eqb name s_schema || str_eqb name s_type.

Section Switch.
  Variable sch : schema.
  Variable frags : frag_table.
  Variable vs : vars.
  Variable coerce_args : fdef -> selection -> outcome (list (str * pv)).
  Variable world : world_t.
  Variable tyres : str -> option (pv -> tyname_res).
  Variable cfuel : nat.
  Variable disabled : bool.

  (* ResolutionContext.field_definition with the switch *)
  Definition field_definition_sw (tname name : str) : outcome (option (fkind * fdef)) :=
    if disabled && is_meta_field name then Ok None else field_definition sch tname name.

  Section Level.
    Variable sub_exec : str -> pv -> path -> list selection -> result.

    (* _iterate_fields + execute_fields, as ExecModel.exec_groups *)
    Fixpoint exec_groups_sw (tname : str) (parent : pv) (p : path) (g : groups)
      : outcome (list (str * pv) * list error) :=
      match g with
      | [] => Ok ([], [])
      | (key, nodes) :: g' =>
          match nodes with
          | [] => Crash CRASH_BADSCHEMA
          | node :: _ =>
              do fdo <- field_definition_sw tname (sel_name node);
              match fdo with
              | None => exec_groups_sw tname parent p g'
              | Some (k, fd) =>
                  do r <- resolve_field sch coerce_args world tyres sub_exec tname parent k fd nodes
                                        (p ++ [PKey key]);
                  do rest <- exec_groups_sw tname parent p g';
                  Ok ((key, fst r) :: fst rest, snd r ++ snd rest)
              end
          end
      end.
  End Level.

  Fixpoint exec_sel_sw (fuel : nat) (tname : str) (v : pv) (p : path) (sels : list selection) : result :=
    match fuel with
    | O => OutOfFuel
    | S fuel' =>
        do g <- collect_for sch frags vs cfuel tname sels;
        do r <- exec_groups_sw (exec_sel_sw fuel') tname v p g;
        Ok (PDict (fst r), snd r)
    end.
End Switch.

(* the groups the executor sees once the meta-fields are refused (a group
   without nodes cannot occur; it is kept so that nothing is hidden) *)
Definition drop_meta_groups (g : groups) : groups :=
  filter (fun kv => match snd kv with node :: _ => negb (is_meta_field (sel_name node)) | [] => true end) g.
