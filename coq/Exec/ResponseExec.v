(* The C10 response pipeline composed with the C04 executor model
   (Exec/ExecModel.v, read-only): conversions from the executor's values and
   error records to the response model's, the composed pipeline, and the
   positions that oblige an error ("null in a non-nullable position or at a
   failed field"), defined from the schema types the executor completes each
   position against -- not from the error list.

   What C04's model does not carry and is therefore fixed here:
     * message texts of coercion / non-null errors: opaque, the empty string
     * has_source of error nodes: true (the parser attaches the request text)
     * extensions of a ResolverError: the resolver's value when it is a dict,
       none otherwise (None; a non-mapping value is a resolver bug: dict(x)
       raises in to_dict)
     * floats: C04's [pv] has no non-finite floats (PFloat is a decimal text),
       so executor data is strict JSON by construction; finiteness itself is
       C10_finite (+ the correspondence) *)
From PyGql Require Import Exec.ResponseModel Spec.ResponseSpec Exec.ResponseCheck.
From PyGql Require Import Exec.ExecModel.
(* from here on PKey, PIdx, path, path_eqb, EResolver are ExecModel's; the
   response model's are written qualified *)

Fixpoint pv_to_json (v : pv) : json :=
  match v with
  | PNone => JNull
  | PBool b => JBool b
  | PInt z => JInt z
  | PFloat r => JNum (NFinite r)
  | PStr x => JStr x
  | PList l => JArr (map pv_to_json l)
  | PDict kvs => JObj (map (fun kv => (fst kv, pv_to_json (snd kv))) kvs)
  end.

Definition conv_pelem (e : pelem) : ResponseModel.pseg :=
  match e with
  | PKey k => ResponseModel.PKey k
  | PIdx i => ResponseModel.PIdx (N.to_nat i)
  end.

Definition conv_path (p : path) : ResponseModel.path := map conv_pelem p.

Definition conv_ext (x : pv) : option (list (str * json)) :=
  match x with
  | PDict kvs => Some (map (fun kv => (fst kv, pv_to_json (snd kv))) kvs)
  | _ => None
  end.

Definition conv_node (l : loc) : node_ref := NodeRef l true.

(* one entry of ResolutionContext._errors as the exception object to_dict sees *)
Definition conv_err (e : error) : gql_error :=
  let nodes := map conv_node (e_locs e) in
  let pth := Some (conv_path (e_path e)) in
  match e_kind e with
  | EResolver m x => ResponseModel.EResolver m nodes pth (conv_ext x)
  | ECoercion => ELocated [] nodes pth                   (* CoercionError *)
  | ENonNull => ResponseModel.EResolver [] nodes pth None (* ResolverError('... is not nullable') *)
  end.

(* ---- the composed pipeline: front stages as inputs (parser, validator and
   variable coercion are other properties'), execution = ExecModel.execute *)
Record front := Front {
  fr_parse : option (str * nat);
  fr_validation : list gql_error;
  fr_varcoercion : list gql_error }.

Definition front_early (fr : front) : bool :=
  match fr_parse fr, fr_validation fr with
  | Some _, _ => true
  | None, _ :: _ => true
  | None, [] => false
  end.

Definition no_exec : json * list gql_error := (JNull, []).

(* ExecModel.execute is [Rejected REJ_OPERATION] for InvalidOperationError and
   [Rejected REJ_COERCION] when collect_fields rejects @skip/@include
   arguments.  The latter is rendered as the root-collection abort (data:
   null + the CoercionError); C04's model carries no node for it.  A
   rejection inside a sub-selection is an error of the enclosing field in
   C04's model (complete_field), as in the code. *)
Definition directive_coercion_error : gql_error := ELocated [] [] None.

Definition pipeline_exec (doc : str) (fr : front) (ex : result) : outcome json :=
  if front_early fr then
    pipeline_model doc (Stages (fr_parse fr) (fr_validation fr) None [] [] [] no_exec)
  else
    match ex with
    | Rejected k _ =>
        if k =? REJ_OPERATION
        then pipeline_model doc (Stages None [] (Some []) [] [] [] no_exec)
        else match fr_varcoercion fr with
             | _ :: _ => pipeline_model doc (Stages None [] None (fr_varcoercion fr) [] [] no_exec)
             | [] => pipeline_model doc (Stages None [] None [] [directive_coercion_error] [] no_exec)
             end
    | _ =>
        match fr_varcoercion fr with
        | _ :: _ => pipeline_model doc (Stages None [] None (fr_varcoercion fr) [] [] no_exec)
        | [] =>
            match ex with
            | Ok (d, es) =>
                pipeline_model doc (Stages None [] None [] [] [] (pv_to_json d, map conv_err es))
            | Crash k => Crash k           (* unexpected exception / RuntimeError escapes *)
            | OutOfFuel => OutOfFuel
            | Rejected k p => Rejected k p
            end
        end
    end.

(* ---- locations of the document's nodes lie in the text (what the parser
   guarantees: C02) *)
Definition loc_ok (len : nat) (l : loc) : bool :=
  match l with Some (st, _) => st <=? len | None => true end.

Fixpoint sel_ok (len : nat) (x : selection) : bool :=
  match x with
  | SField _ _ _ _ _ sub l => loc_ok len l && forallb (sel_ok len) sub
  | SSpread _ _ l => loc_ok len l
  | SInline _ _ _ sub l => loc_ok len l && forallb (sel_ok len) sub
  end.

Definition sels_ok (len : nat) (ss : list selection) : bool := forallb (sel_ok len) ss.

Definition frags_ok (len : nat) (frags : frag_table) : bool :=
  forallb (fun kv => sels_ok len (snd (snd kv))) frags.

Definition doc_in_text (len : nat) (d : document) : Prop :=
  frags_ok len (frag_table_of (doc_defs d)) = true /\
  forall k n sels, In (k, n, sels) (operations_of (doc_defs d)) -> sels_ok len sels = true.

(* ---- obligated positions: where the executor completes a NonNull type to
   null, where a resolver raised the library's error, where argument coercion
   failed, where the completion of a field was aborted by invalid directive
   arguments in its sub-selection.  Mirrors the traversal of ExecModel (same calls, same order);
   reads types, resolver outcomes and completed values, never the errors. *)
Section Obligations.
  Variable sch : schema.
  Variable frags : frag_table.
  Variable vs : vars.
  Variable coerce_args : fdef -> selection -> outcome (list (str * pv)).
  Variable world : world_t.
  Variable tyres : str -> option (pv -> tyname_res).
  Variable cfuel : nat.

  Section Level.
    Variable sub_exec : str -> pv -> path -> list selection -> result.
    Variable sub_obl : str -> pv -> path -> list selection -> list path.

    Fixpoint obl_items (f : path -> pv -> list path) (p : path) (i : N) (items : list pv) : list path :=
      match items with
      | [] => []
      | x :: items' => f (p ++ [PIdx i]) x ++ obl_items f p (N.succ i) items'
      end.

    Definition obl_named (nodes : list selection) (n : str) (p : path) (v : pv) : list path :=
      match get_type sch n with
      | Some (TObject _ _) => sub_obl n v p (children_of nodes)
      | Some (TInterface _) | Some (TUnion _) =>
          match resolve_type sch tyres n v with
          | Ok rt => sub_obl rt v p (children_of nodes)
          | _ => []
          end
      | _ => []
      end.

    Fixpoint obl_value (nodes : list selection) (t : tref) (p : path) (v : pv) {struct t} : list path :=
      match t with
      | RNonNull t' =>
          obl_value nodes t' p v ++
          match complete_value sch tyres sub_exec nodes t' p v with
          | Ok (PNone, _) => [p]          (* a null in a non-nullable position *)
          | _ => []
          end
      | RList t' =>
          match v with
          | PNone => []
          | _ => match iter_items v with
                 | None => []
                 | Some items => obl_items (obl_value nodes t') p 0%N items
                 end
          end
      | RNamed n =>
          match v with
          | PNone => []
          | _ => obl_named nodes n p v
          end
      end.

    (* the field's completion was aborted by invalid @skip / @include arguments
       in a sub-selection (CoercionError caught by the enclosing resolve_field):
       the field itself is a failed field; positions already obligated by list
       items completed before the abort keep their errors (they end up below
       the nulled field) *)
    Fixpoint obl_items_partial (f : path -> pv -> result) (fo fp : path -> pv -> list path)
             (p : path) (i : N) (items : list pv) : list path :=
      match items with
      | [] => []
      | x :: items' =>
          match f (p ++ [PIdx i]) x with
          | Ok _ => fo (p ++ [PIdx i]) x ++ obl_items_partial f fo fp p (N.succ i) items'
          | _ => fp (p ++ [PIdx i]) x
          end
      end.

    Fixpoint obl_value_partial (nodes : list selection) (t : tref) (p : path) (v : pv) {struct t} : list path :=
      match t with
      | RNonNull t' => obl_value_partial nodes t' p v
      | RList t' =>
          match v with
          | PNone => []
          | _ => match iter_items v with
                 | None => []
                 | Some items =>
                     obl_items_partial (complete_value sch tyres sub_exec nodes t')
                                       (obl_value nodes t') (obl_value_partial nodes t') p 0%N items
                 end
          end
      | RNamed _ => []
      end.

    Definition obl_cfield (nodes : list selection) (t : tref) (p : path) (v : pv) : list path :=
      match complete_value sch tyres sub_exec nodes t p v with
      | Rejected k _ =>
          if Nat.eqb k REJ_COERCION then obl_value_partial nodes t p v ++ [p] else []
      | _ => obl_value nodes t p v
      end.

    Definition obl_field (tname : str) (parent : pv) (k : fkind) (fd : fdef)
               (nodes : list selection) (p : path) : list path :=
      match nodes with
      | [] => []
      | node :: _ =>
          match coerce_args fd node with
          | Rejected _ _ => [p]            (* failed field: argument coercion *)
          | Ok args =>
              match k with
              | FIntrospection => []
              | FTypename => obl_cfield nodes (f_type fd) p (PStr tname)
              | FUser =>
                  match world p parent tname (f_name fd) args with
                  | RVal v => obl_cfield nodes (f_type fd) p v
                  | RDefault => obl_cfield nodes (f_type fd) p (default_resolve parent (f_pyname fd))
                  | RErr _ _ => [p]        (* failed field: the resolver raised ResolverError *)
                  | RExn => []
                  end
              end
          | _ => []
          end
      end.

    Fixpoint obl_groups (tname : str) (parent : pv) (p : path) (g : groups) : list path :=
      match g with
      | [] => []
      | (key, nodes) :: g' =>
          match nodes with
          | [] => []
          | node :: _ =>
              match field_definition sch tname (sel_name node) with
              | Ok (Some (k, fd)) =>
                  obl_field tname parent k fd nodes (p ++ [PKey key]) ++ obl_groups tname parent p g'
              | Ok None => obl_groups tname parent p g'
              | _ => []
              end
          end
      end.
  End Level.

  Fixpoint obl_sel (fuel : nat) (tname : str) (v : pv) (p : path) (sels : list selection) : list path :=
    match fuel with
    | O => []
    | S fuel' =>
        match collect_for sch frags vs cfuel tname sels with
        | Ok g => obl_groups (exec_sel sch frags vs coerce_args world tyres cfuel fuel')
                             (obl_sel fuel') tname v p g
        | _ => []
        end
    end.
End Obligations.

(* obligated positions of a whole request *)
Definition obligations (sch : schema) (coerce_args : vars -> fdef -> selection -> outcome (list (str * pv)))
           (world : world_t) (tyres : str -> option (pv -> tyname_res)) (cfuel fuel : nat)
           (d : document) (opname : option str) (vs : vars) (root : pv) : list path :=
  match get_operation d opname with
  | Ok (k, sels) =>
      match (match k with OpQuery => s_query sch | OpMutation => s_mutation sch
                     | OpSubscription => s_subscription sch end), k with
      | Some rt, OpQuery | Some rt, OpMutation =>
          obl_sel sch (frag_table_of (doc_defs d)) vs (coerce_args vs) world tyres cfuel fuel rt root [] sels
      | _, _ => []
      end
  | _ => []
  end.
