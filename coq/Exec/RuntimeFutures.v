(* Layer 1 of the C08 model: src/py_gql/execution/runtime/threadpool.py at
   callback level -- a heap of concurrent.futures.Future objects

       Pending (callbacks, in registration order) | Done (value | exception)

   with add_done_callback, set_result / set_exception (InvalidStateError when
   the future is not pending; an exception escaping a callback is logged and
   swallowed by Future._invoke_callbacks), and the three combinators chain,
   gather_futures (its [done] counter, slot list, target_count and [outer]
   future) and unwrap_future, written as the code writes them with the
   closures (on_finish, cb, handle_cancel) defunctionalised.

   A callback body is atomic. set_result runs the callbacks synchronously and
   depth-first, as Future.set_result does: [exec] keeps the pending callback
   invocations on a stack. Cancellation is not modelled (handle_cancel is a
   no-op, CancelledError never arises). [.result()] on a pending future would
   block the calling thread for ever: the model records it in [blocked].
   User functions (chain's [then] and the [else_] handler) are symbols
   interpreted by Section variables. Proofs: Proofs/RuntimeFuturesProofs.v. *)
From Coq Require Import List NArith Bool Arith.
Import ListNotations.

Definition fid := nat.

Inductive value := VBase (n : N) | VFut (f : fid) | VSeq (l : list value).
(* an exception object: tag, and whether isinstance(err, exc_type) holds for
   the else_ clause in use (ResolverError in executor.py) *)
Inductive exn := EUser (n : N) (handled : bool) | EInvalidState.
Inductive fres := RVal (v : value) | RExn (e : exn).

Definition fn := N.   (* function symbols *)

Inductive cb :=
| CbChain (target : fid) (then_ : fn) (else_ : option fn)   (* chain.on_finish *)
| CbGather (g : nat)                                        (* gather_futures.on_finish *)
| CbUnwrap (outer : fid)                                    (* unwrap_future.cb *)
| CbCancelWatch (g : nat).                                  (* gather_futures.handle_cancel *)

Inductive fstate := Pending (cbs : list cb) | Done (r : fres).

Record gstate := MkG {
  g_done : nat;
  g_target : nat;
  g_slots : list value;     (* [result]: non-futures and VFut f in source order *)
  g_outer : fid
}.

Record heap := MkHeap {
  futs : fid -> fstate;
  next_fid : fid;
  gathers : nat -> gstate;
  next_g : nat;
  swallowed : list exn;     (* exceptions that escaped a callback (logged by the callback runner) *)
  blocked : bool;           (* some callback waited on a pending future *)
  out_of_fuel : bool
}.

Definition upd {A} (m : nat -> A) (k : nat) (v : A) : nat -> A :=
  fun j => if Nat.eqb j k then v else m j.

Definition set_fut (h : heap) (f : fid) (s : fstate) : heap :=
  MkHeap (upd (futs h) f s) (next_fid h) (gathers h) (next_g h) (swallowed h) (blocked h) (out_of_fuel h).
Definition set_gather (h : heap) (g : nat) (s : gstate) : heap :=
  MkHeap (futs h) (next_fid h) (upd (gathers h) g s) (next_g h) (swallowed h) (blocked h) (out_of_fuel h).
Definition swallow (h : heap) (e : exn) : heap :=
  MkHeap (futs h) (next_fid h) (gathers h) (next_g h) (swallowed h ++ [e]) (blocked h) (out_of_fuel h).
Definition set_blocked (h : heap) : heap :=
  MkHeap (futs h) (next_fid h) (gathers h) (next_g h) (swallowed h) true (out_of_fuel h).
Definition set_oof (h : heap) : heap :=
  MkHeap (futs h) (next_fid h) (gathers h) (next_g h) (swallowed h) (blocked h) true.

Definition new_future (h : heap) : fid * heap :=
  (next_fid h,
   MkHeap (upd (futs h) (next_fid h) (Pending [])) (S (next_fid h)) (gathers h) (next_g h)
          (swallowed h) (blocked h) (out_of_fuel h)).
Definition new_gather (h : heap) (s : gstate) : nat * heap :=
  (next_g h,
   MkHeap (futs h) (next_fid h) (upd (gathers h) (next_g h) s) (S (next_g h))
          (swallowed h) (blocked h) (out_of_fuel h)).

Definition empty_heap : heap :=
  MkHeap (fun _ => Pending []) 0 (fun _ => MkG 0 0 [] 0) 0 [] false false.

(* a callback invocation waiting on the stack: callback c called with future src *)
Inductive work := WCall (c : cb) (src : fid).

Definition is_fut (v : value) : bool := match v with VFut _ => true | _ => false end.

(* [v.result() if future else v for v in result]; None + flag: raised / blocked *)
Inductive collected := CollOk (vs : list value) | CollRaise (e : exn) | CollBlock.
Fixpoint collect (h : heap) (slots : list value) : collected :=
  match slots with
  | [] => CollOk []
  | VFut f :: r =>
      match futs h f with
      | Pending _ => CollBlock
      | Done (RExn e) => CollRaise e
      | Done (RVal v) => match collect h r with CollOk vs => CollOk (v :: vs) | c => c end
      end
  | v :: r => match collect h r with CollOk vs => CollOk (v :: vs) | c => c end
  end.

Section Interp.
  Variable apply_fn : fn -> value -> fres.     (* then(v): returns or raises *)
  Variable apply_handler : fn -> exn -> value. (* else_ callback: cb(err) *)

  (* Future.set_result / set_exception called from inside a callback: on a
     finished future InvalidStateError escapes the callback and is swallowed;
     otherwise the future's callbacks are invoked before anything else *)
  Definition settle (h : heap) (f : fid) (r : fres) (stack : list work) : heap * list work :=
    match futs h f with
    | Pending cbs => (set_fut h f (Done r), map (fun c => WCall c f) cbs ++ stack)
    | Done _ => (swallow h EInvalidState, stack)
    end.

  (* Future.add_done_callback *)
  Definition add_cb (h : heap) (f : fid) (c : cb) (stack : list work) : heap * list work :=
    match futs h f with
    | Pending cbs => (set_fut h f (Pending (cbs ++ [c])), stack)
    | Done _ => (h, WCall c f :: stack)
    end.

  (* body of one callback; src is done when a callback is invoked *)
  Definition run_cb (h : heap) (c : cb) (src : fid) (stack : list work) : heap * list work :=
    match futs h src with
    | Pending _ => (set_blocked h, stack)      (* f.result() would block: never happens *)
    | Done r =>
      match c with
      | CbChain target then_ else_ =>
          let outcome := match r with RVal v => apply_fn then_ v | RExn e => RExn e end in
          match outcome with
          | RVal res => settle h target (RVal res) stack
          | RExn e =>
              match else_, e with
              | Some hd, EUser _ true => settle h target (RVal (apply_handler hd e)) stack
              | _, _ => settle h target (RExn e) stack
              end
          end
      | CbUnwrap outer =>
          match r with
          | RExn e => settle h outer (RExn e) stack
          | RVal (VFut inner) => add_cb h inner (CbUnwrap outer) stack
          | RVal v => settle h outer (RVal v) stack
          end
      | CbGather g =>
          let gs := gathers h g in
          let gs' := MkG (S (g_done gs)) (g_target gs) (g_slots gs) (g_outer gs) in
          let h1 := set_gather h g gs' in
          match r with
          | RExn e => settle h1 (g_outer gs) (RExn e) stack
          | RVal _ =>
              if Nat.eqb (g_done gs') (g_target gs') then
                match collect h1 (g_slots gs') with
                | CollOk vs => settle h1 (g_outer gs) (RVal (VSeq vs)) stack
                | CollRaise e => (swallow h1 e, stack)
                | CollBlock => (set_blocked h1, stack)
                end
              else (h1, stack)
          end
      | CbCancelWatch _ => (h, stack)            (* d.cancelled() is false *)
      end
    end.

  Fixpoint exec (fuel : nat) (stack : list work) (h : heap) : heap :=
    match stack with
    | [] => h
    | WCall c src :: rest =>
        match fuel with
        | O => set_oof h
        | S fuel' => let '(h', stack') := run_cb h c src rest in exec fuel' stack' h'
        end
    end.

  (* a worker thread delivers the result of a submitted call: Future.set_result
     / set_exception from outside any callback *)
  Definition complete (fuel : nat) (h : heap) (f : fid) (r : fres) : heap :=
    match futs h f with
    | Pending cbs => exec fuel (map (fun c => WCall c f) cbs) (set_fut h f (Done r))
    | Done _ => h       (* InvalidStateError in the worker; does not occur: each call completes once *)
    end.

  (* ---- the combinators ---- *)
  Inductive ret := Ret (v : value) | Raise (e : exn).

  Definition chain (fuel : nat) (h : heap) (source : value) (then_ : fn) (else_ : option fn) : ret * heap :=
    match source with
    | VFut s =>
        let '(target, h1) := new_future h in
        let '(h2, stack) := add_cb h1 s (CbChain target then_ else_) [] in
        (Ret (VFut target), exec fuel stack h2)
    | v =>
        match apply_fn then_ v with
        | RVal res => (Ret res, h)
        | RExn e =>
            match else_, e with
            | Some hd, EUser _ true => (Ret (apply_handler hd e), h)
            | _, _ => (Raise e, h)
            end
        end
    end.

  (* `for f in pending: f.add_done_callback(on_finish)`: on a finished future
     the callback (and everything it triggers) runs before the next one is added *)
  Fixpoint add_all (fuel : nat) (h : heap) (fs : list fid) (c : cb) : heap :=
    match fs with
    | [] => h
    | f :: r => let '(h1, st) := add_cb h f c [] in add_all fuel (exec fuel st h1) r c
    end.

  Definition fids_of (l : list value) : list fid :=
    flat_map (fun v => match v with VFut f => [f] | _ => [] end) l.
  Definition count_plain (l : list value) : nat := length (filter (fun v => negb (is_fut v)) l).

  Definition gather (fuel : nat) (h : heap) (source : list value) : ret * heap :=
    match source with
    | [] => (Ret (VSeq []), h)                         (* target_count == 0 *)
    | _ =>
      match fids_of source with
      | [] => (Ret (VSeq source), h)                   (* not pending: the plain list *)
      | pend =>
          let '(outer, h1) := new_future h in
          let '(g, h2) := new_gather h1 (MkG (count_plain source) (length source) source outer) in
          let '(h3, _) := add_cb h2 outer (CbCancelWatch g) [] in
          (Ret (VFut outer), add_all fuel h3 pend (CbGather g))
      end
    end.

  Definition unwrap (fuel : nat) (h : heap) (v : value) : value * heap :=
    match v with
    | VFut f =>
        let '(outer, h1) := new_future h in
        let '(h2, st) := add_cb h1 f (CbUnwrap outer) [] in
        (VFut outer, exec fuel st h2)
    | _ => (v, h)
    end.
End Interp.
