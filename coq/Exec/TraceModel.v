(* C16 -- executable model of the hook / middleware machinery of py-gql
   (after the repair fixes/C16-01: on_parsing_end before on_query_end).

   Stands for
     execution/instrumentation.py   Instrumentation, MultiInstrumentation   -> [inst], [fire_start], [fire_end]
     _graphql.py                    process_graphql_query (_abort, _on_end,
                                    try/except/finally around parse)         -> [process]
     execution/execute.py           on_execution_start / _on_finish          -> inside [process]
     _utils.py                      apply_middlewares                        -> [apply_middlewares]
     execution/executor.py          Executor.field_resolver (_resolver_cache)-> [field_resolver]
     execution/blocking_executor.py BlockingExecutor.resolve_field (finally),
                                    execute_fields                           -> [exec_field_b]
     execution/executor.py          Executor.resolve_field (fail / complete)
                                    under BlockingRuntime.map_value          -> [exec_field_g]
   No proofs here. *)
From Coq Require Import List NArith Arith Bool.
Import ListNotations.
From PyGql Require Import Spec.TraceSpec.

(* ---------------------------------------------------------------- (d) *)
(* An instrumentation object: a recording leaf (number i) or a
   MultiInstrumentation of instrumentation objects (which may nest). *)
Inductive inst := ILeaf (i : nat) | IMulti (l : list inst).

(* on_*_start:  for i in self.instrumentations: i.on_*_start() *)
Fixpoint fire_start (mk : nat -> event) (x : inst) : list event :=
  match x with
  | ILeaf i => [mk i]
  | IMulti l => flat_map (fire_start mk) l
  end.
(* on_*_end:  for i in self.instrumentations[::-1]: i.on_*_end()
   (fold_right visits the last element first) *)
Fixpoint fire_end (mk : nat -> event) (x : inst) : list event :=
  match x with
  | ILeaf i => [mk i]
  | IMulti l => fold_right (fun y acc => acc ++ fire_end mk y) [] l
  end.

(* the recording leaves in flattening order *)
Fixpoint inst_ids (x : inst) : list nat :=
  match x with
  | ILeaf i => [i]
  | IMulti l => flat_map inst_ids l
  end.

Definition stack (k : nat) : inst := IMulti (map ILeaf (seq 0 k)).

(* ---------------------------------------------------------------- (a) *)
Section Pipeline.
  Variable I : inst.

  Definition hook_start (s : stage) : list event := fire_start (StageStart s) I.
  Definition hook_end (s : stage) : list event := fire_end (StageEnd s) I.

  (* _on_end(result): instrumentation.on_query_end(); return result *)
  Definition on_end : list event := hook_end SQ.
  (* _abort(..) = runtime.ensure_wrapped(_on_end(GraphQLResult(..))) *)
  Definition abort : list event := on_end.

  (* validation onwards; [fields] = the events emitted while the executor runs *)
  Definition from_validation (oc : oclass) (fields : list event) : list event :=
    hook_start SV ++ (* validate_ast *) hook_end SV ++
    match oc with
    | OCSyntax                      (* not reachable: the document was parsed *)
    | OCValidation => abort         (* if not validation_result: return _abort(..) *)
    | OCUnknownOp                   (* execute(): get_operation_with_type raises InvalidOperationError
                                       before on_execution_start -> except ExecutionError -> _abort *)
    | OCVarError => abort           (* coerce_variable_values raises -> except VariablesCoercionError *)
    | OCDirective => abort          (* executor.collect_fields(root selections) raises CoercionError before
                                       on_execution_start -> except CoercionError -> _abort *)
    | OCSuccess | OCPartial =>
        hook_start SE ++ fields ++
        hook_end SE ++              (* execute._on_finish *)
        on_end                      (* runtime.map_value(execute(..), _on_end) *)
    end.

  (* process_graphql_query, repaired: the syntax error is remembered, the
     finally clause closes the parsing stage, then the request is aborted *)
  Definition process (text : bool) (oc : oclass) (fields : list event) : list event :=
    hook_start SQ ++
    (if text then
       hook_start SP ++
       hook_end SP ++               (* finally: on_parsing_end *)
       match oc with
       | OCSyntax => abort
       | _ => from_validation oc fields
       end
     else from_validation oc fields).

  (* the code before the repair: `return _abort(..)` inside the except clause
     runs on_query_end before the finally clause runs on_parsing_end *)
  Definition process_unrepaired (text : bool) (oc : oclass) (fields : list event) : list event :=
    hook_start SQ ++
    (if text then
       hook_start SP ++
       match oc with
       | OCSyntax => abort ++ hook_end SP
       | _ => hook_end SP ++ from_validation oc fields
       end
     else from_validation oc fields).
End Pipeline.

(* ---------------------------------------------------------------- (b) *)
(* What calling a resolver-like callable emits, for the field at path p whose
   externally determined outcome is o. *)
Definition callable := fout -> path -> list event.

(* the user's resolver body *)
Definition resolver_body : callable := fun o p =>
  match o with
  | OVal | ONull => [Invoke p; Return p]
  | OErr => [Invoke p; Raise p]
  | OArgErr => []
  end.

(* recording middleware number j:  log enter; try: return next(..) finally: log exit *)
Definition rec_mw (j : nat) (next : callable) : callable :=
  fun o p => MwEnter j p :: next o p ++ [MwExit j p].

(* tail = func; for mw in middlewares: tail = functools.partial(mw, tail); return tail *)
Definition apply_middlewares (f : callable) (ms : list (callable -> callable)) : callable :=
  fold_left (fun tail mw => mw tail) ms f.

Definition rec_mws (n : nat) : list (callable -> callable) := map rec_mw (seq 0 n).

(* Executor.field_resolver: the wrapped resolver is memoised per base resolver
   (identified here by a number) in ResolutionContext._resolver_cache *)
Definition rid := nat.
Definition cache := list (rid * callable).
Fixpoint cache_get (c : cache) (r : rid) : option callable :=
  match c with
  | [] => None
  | (r', w) :: c' => if Nat.eqb r' r then Some w else cache_get c' r
  end.

Section Resolvers.
  Variable base : rid -> callable.                   (* the registered functions *)
  Variable ms : list (callable -> callable).         (* middlewares=[..] *)

  Definition field_resolver (c : cache) (r : rid) : callable * cache :=
    match cache_get c r with
    | Some w => (w, c)                               (* return self._resolver_cache[base] *)
    | None =>
        let wrapped := base r in                     (* BlockingRuntime.wrap_callable = identity *)
        let wrapped := match ms with [] => wrapped | _ => apply_middlewares wrapped ms end in
        (wrapped, (r, wrapped) :: c)
    end.
End Resolvers.

(* ---------------------------------------------------------------- (c) *)
(* `for key, field_def, nodes in ...: result[key] = self.resolve_field(..)`:
   fields one after the other, in document order, sharing the executor state *)
Definition seq_fields (ef : cache -> ftree -> list event * cache) :=
  fix go (c : cache) (l : list ftree) {struct l} : list event * cache :=
    match l with
    | [] => ([], c)
    | k :: l' =>
        let (e1, c1) := ef c k in
        let (e2, c2) := go c1 l' in (e1 ++ e2, c2)
    end.

Section Executor.
  Variable I : inst.
  Variable n : nat.                                  (* recording middlewares 0..n-1 *)
  Variable rid_of : path -> rid.                     (* which base resolver serves which field *)

  Definition fr := field_resolver (fun _ => resolver_body) (rec_mws n).
  Definition field_start (p : path) := fire_start (fun i => FieldStart i p) I.
  Definition field_end (p : path) := fire_end (fun i => FieldEnd i p) I.

  (* BlockingExecutor.resolve_field + execute_fields (+ complete_value on objects/lists) *)
  Fixpoint exec_field_b (c : cache) (pre : path) (t : ftree) {struct t} : list event * cache :=
    match t with
    | FNode rel o _ kids =>
        let p := pre ++ rel in
        let (resolver, c1) := fr c (rid_of p) in
        let s := field_start p in
        match o with
        | OArgErr =>                       (* argument_values raises CoercionError: except + finally *)
            (s ++ field_end p, c1)
        | OErr | ONull =>                  (* except ResolverError / complete_value(None); finally *)
            (s ++ resolver o p ++ field_end p, c1)
        | OVal =>
            let (evs, c2) :=
              seq_fields (fun c k => exec_field_b c p k) c1 kids in
            (s ++ resolver o p ++ field_end p ++ evs, c2)
        end
    end.

  (* Executor.resolve_field under BlockingRuntime: map_value(v, complete,
     else_=(ResolverError, fail)) calls complete(v) or fail(err) at once *)
  Fixpoint exec_field_g (c : cache) (pre : path) (t : ftree) {struct t} : list event * cache :=
    match t with
    | FNode rel o _ kids =>
        let p := pre ++ rel in
        let (resolver, c1) := fr c (rid_of p) in
        let s := field_start p in
        let fail := field_end p in                         (* add_error; on_field_end; None *)
        match o with
        | OArgErr => (s ++ fail, c1)                       (* except CoercionError: return fail(err) *)
        | OErr => (s ++ resolver o p ++ fail, c1)          (* except ResolverError: return fail(err) *)
        | ONull => (s ++ resolver o p ++ field_end p, c1)  (* complete: on_field_end; complete_value(None) *)
        | OVal =>
            let (evs, c2) :=
              seq_fields (fun c k => exec_field_g c p k) c1 kids in
            (s ++ resolver o p ++ (field_end p ++ evs), c2)   (* complete: on_field_end; complete_value *)
        end
    end.

  Definition exec_roots (ef : cache -> path -> ftree -> list event * cache)
             (c : cache) (ts : list ftree) : list event * cache :=
    seq_fields (fun c t => ef c [] t) c ts.
End Executor.

(* the whole blocking request: k stacked recording instrumentations, n
   recording middlewares, a fresh executor (empty resolver cache) *)
Definition request_blocking (k n : nat) (rid_of : path -> rid) (text : bool) (oc : oclass)
           (ts : list ftree) : list event :=
  process (stack k) text oc (fst (exec_roots (exec_field_b (stack k) n rid_of) [] ts)).
Definition request_generic (k n : nat) (rid_of : path -> rid) (text : bool) (oc : oclass)
           (ts : list ftree) : list event :=
  process (stack k) text oc (fst (exec_roots (exec_field_g (stack k) n rid_of) [] ts)).
