(* C16 -- model of tracers.TimingTracer / ApolloTracer as far as the payload's
   `execution.resolvers` list depends on the hooks: an insertion-ordered dict
   path -> (start, end) filled by on_field_start / on_field_end of the tracer's
   own position i in the instrumentation stack. No proofs here. *)
From Coq Require Import List NArith Arith Bool.
Import ListNotations.
From PyGql Require Import Spec.TraceSpec.

(* self.fields : path -> end time set? (insertion ordered) *)
Definition tfields := list (path * bool).

(* self.fields[tuple(info.path)] = FieldTiming(info): a new key goes last, an
   existing key keeps its place and gets a fresh timing (end = None) *)
Fixpoint upsert (p : path) (l : tfields) : tfields :=
  match l with
  | [] => [(p, false)]
  | (q, b) :: r => if path_eq_dec q p then (q, false) :: r else (q, b) :: upsert p r
  end.
(* self.fields[tuple(info.path)].end = utcnow(): KeyError when never started *)
Fixpoint set_end (p : path) (l : tfields) : option tfields :=
  match l with
  | [] => None
  | (q, b) :: r =>
      if path_eq_dec q p then Some ((q, true) :: r)
      else match set_end p r with Some r' => Some ((q, b) :: r') | None => None end
  end.

Definition tracer_step (i : nat) (st : option tfields) (e : event) : option tfields :=
  match st with
  | None => None
  | Some l =>
      match e with
      | FieldStart j p => if Nat.eqb j i then Some (upsert p l) else Some l
      | FieldEnd j p => if Nat.eqb j i then set_end p l else Some l
      | _ => Some l
      end
  end.
Definition tracer_fields (i : nat) (t : list event) : option tfields :=
  fold_left (tracer_step i) t (Some []).

(* payload()["execution"]["resolvers"]: one entry per key, in insertion order;
   "duration" is null unless the end time is set *)
Definition resolvers_payload (l : tfields) : list (path * bool) := l.

(* the paths on which instrumentation i saw on_field_start, in order *)
Definition start_paths (i : nat) (t : list event) : list path :=
  flat_map (fun e => match e with FieldStart j p => if Nat.eqb j i then [p] else [] | _ => [] end) t.
