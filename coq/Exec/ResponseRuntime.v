(* process_graphql_query over a runtime: the same stage machine as
   Exec/ResponseModel.v [process], with the Runtime calls of _graphql.py and
   execute.py written out.

     _abort(...)            = runtime.ensure_wrapped(_on_end(GraphQLResult(...)))
     success                = runtime.map_value(execute(...), _on_end)
     execute(...)           = a wrapped value that will be the executor's
                              GraphQLResult, or fail with the exception that
                              escaped a resolver / a serializer
     graphql_blocking       : the wrapped value is the value itself
     graphql (asyncio)      : an awaitable, the caller awaits it
     ThreadPoolRuntime      : a Future, the caller calls .result()

   A runtime is any implementation of the three operations whose observable
   ([run]: identity / await / .result()) obeys the wrapper laws below; the
   scheduling inside the executor (gather, chain, ...) is C08's subject, here
   the executor's outcome is an input as in [process]. *)
From PyGql Require Import Base.Str Lang.LocModel Exec.ResponseModel.

Record runtime := Runtime {
  wrapped : Type;
  (* Runtime.ensure_wrapped on a plain GraphQLResult *)
  ensure_wrapped : gql_result -> wrapped;
  (* the wrapped value execute() hands back: it completes with, or fails as, the given outcome *)
  deferred : outcome gql_result -> wrapped;
  (* Runtime.map_value(value, then) with a [then] that does not raise (_on_end) *)
  map_value : wrapped -> (gql_result -> gql_result) -> wrapped;
  (* what the caller of the entry point gets: the value / await value / value.result() *)
  run : wrapped -> outcome gql_result;
  run_ensure_wrapped : forall r, run (ensure_wrapped r) = Ok r;
  run_deferred : forall o, run (deferred o) = o;
  run_map_value : forall w f,
    run (map_value w f) = match run w with
                          | Ok r => Ok (f r)
                          | OutOfFuel => OutOfFuel
                          | Rejected k p => Rejected k p
                          | Crash k => Crash k
                          end }.

(* _on_end: instrumentation.on_query_end(); return result *)
Definition on_end (r : gql_result) : gql_result := r.

Definition abort (rt : runtime) (data : option json) (errors : list gql_error) : wrapped rt :=
  ensure_wrapped rt (on_end (Result data errors)).

(* the executor's deferred outcome at the execution stage *)
Definition exec_outcome (st : stages) : outcome gql_result :=
  if forallb (fun f => match coerce_float (fun x => x) f with Ok _ => true | _ => false end)
             (st_float_returns st)
  then Ok (Result (Some (fst (st_exec st))) (snd (st_exec st)))
  else Crash crash_RuntimeError.

Definition process_rt (rt : runtime) (st : stages) : wrapped rt :=
  match st_parse st with
  | Some (msg, pos) => abort rt None [ESyntax msg pos]
  | None =>
  match st_validation st with
  | _ :: _ => abort rt None (st_validation st)
  | [] =>
  (* try: return runtime.map_value(execute(...), _on_end) -- the three except
     clauses catch what execute() raises before it returns its wrapped value *)
  match st_opselect st with
  | Some msg => abort rt (Some JNull) [EExecution msg]
  | None =>
  match st_varcoercion st with
  | _ :: _ => abort rt (Some JNull) (st_varcoercion st)
  | [] =>
  match st_rootcoercion st with
  | _ :: _ => abort rt (Some JNull) (st_rootcoercion st)
  | [] => map_value rt (deferred rt (exec_outcome st)) on_end
  end end end end end.

(* the entry point as its caller sees it, and the response of its result *)
Definition entry_point (rt : runtime) (st : stages) : outcome gql_result := run rt (process_rt rt st).

Definition pipeline_rt (rt : runtime) (doc : str) (st : stages) : outcome json :=
  do r <- entry_point rt st; response doc r.

(* ---- the library's runtimes, as instances *)
(* BlockingRuntime: values are returned as they are, exceptions propagate at once *)
Definition blocking_runtime : runtime.
Proof.
  refine (Runtime (outcome gql_result) (fun r => Ok r) (fun o => o)
                  (fun w f => match w with Ok r => Ok (f r) | OutOfFuel => OutOfFuel
                                        | Rejected k p => Rejected k p | Crash k => Crash k end)
                  (fun w => w) _ _ _); reflexivity.
Defined.

(* AsyncIORuntime / ThreadPoolRuntime: an awaitable / a Future that yields the
   outcome when the caller awaits it / asks for its result *)
Definition future_runtime : runtime.
Proof.
  refine (Runtime (unit -> outcome gql_result) (fun r _ => Ok r) (fun o _ => o)
                  (fun w f _ => match w tt with Ok r => Ok (f r) | OutOfFuel => OutOfFuel
                                          | Rejected k p => Rejected k p | Crash k => Crash k end)
                  (fun w => w tt) _ _ _); reflexivity.
Defined.
