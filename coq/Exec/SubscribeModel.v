(* Model of py_gql/execution/subscribe.py (subscribe, create_source_event_stream,
   execute_subscription_event), execution/runtime/asyncio.py (AsyncMap,
   AsyncIORuntime.map_stream) and the error list of
   execution/wrappers.py ResolutionContext (add_error / errors / clear_errors).

   External behaviour enters as Section variables:
     run        the execution proper of the operation's selection with an event
                as root value (Executor.execute_fields on the root type), reading
                and extending the executor's caches; returns the new caches, the
                data and the errors it registered, in registration order.
                An execution that is aborted by a non-field exception (a value
                its scalar cannot serialise, an unexpected resolver exception)
                is a [run] whose data says so (the [data] type is arbitrary:
                e.g. [option tree]) and whose error list holds what had been
                registered before the abort; no GraphQLResult is built then,
                the exception leaves AsyncMap.__anext__, the stream object
                stays usable and the next __anext__ pulls the next event (see
                [observe] in Spec/SubscribeSpec.v)
     c_created  the caches as create_source_event_stream leaves them
   The source event stream is a finite list with a consumption counter. *)
From PyGql Require Import Base.Str.

Section SubscribeModel.
  Variables (cache event data err : Type).
  Variable run : cache -> event -> cache * data * list err.

  (* the one Executor instance shared by all events *)
  Record exec_state := ExecState { es_cache : cache; es_errors : list err }.

  (* GraphQLResult(data=data, errors=executor.errors) *)
  Definition result : Type := (data * list err)%type.

  (* ResolutionContext.clear_errors: self._errors[:] = [] *)
  Definition clear_errors (s : exec_state) : exec_state := ExecState (es_cache s) [].

  (* execute_fields on the shared executor, then the lambda that builds the
     result: add_error appends to the shared list, executor.errors copies the
     whole list *)
  Definition exec_event (s : exec_state) (e : event) : exec_state * result :=
    let '(c', d, new) := run (es_cache s) e in
    let s' := ExecState c' (es_errors s ++ new) in
    (s', (d, es_errors s')).

  (* execute_subscription_event *)
  Definition on_event (s : exec_state) (e : event) : exec_state * result :=
    exec_event (clear_errors s) e.

  (* the same without the clearing step (for the example showing it matters) *)
  Definition on_event_noclear (s : exec_state) (e : event) : exec_state * result :=
    exec_event s e.

  (* a variant that hands the errors over and clears the list only when the
     event completes (in the completion callback) instead of when it starts:
     [completed] says whether the event's execution completed; when it aborts
     (a non-field exception leaves execute_fields) the callback never runs *)
  Definition on_event_clear_at_end (completed : data -> bool) (s : exec_state) (e : event)
    : exec_state * result :=
    let '(s', r) := exec_event s e in
    if completed (fst r) then (clear_errors s', r) else (s', r).

  (* ---- AsyncMap over the source *)
  Inductive trace_ev :=
  | Pulled (k : nat)      (* the k-th source item was requested and delivered *)
  | Emitted (k : nat)     (* the k-th result was produced *)
  | Ended.                (* the source raised StopAsyncIteration; so does the stream *)

  Record sub_state := SubState {
    ss_exec : exec_state;
    ss_source : list event;        (* events not yet consumed *)
    ss_consumed : nat;             (* consumption counter of the source *)
    ss_trace : list trace_ev }.    (* chronological *)

  (* AsyncMap.__anext__:  return await self.map_value(await source.__anext__()) *)
  Definition anext (s : sub_state) : sub_state * option result :=
    match ss_source s with
    | [] => (SubState (ss_exec s) [] (ss_consumed s) (ss_trace s ++ [Ended]), None)
    | e :: rest =>
        let k := ss_consumed s in
        let '(x', r) := on_event (ss_exec s) e in
        (SubState x' rest (S k) (ss_trace s ++ [Pulled k; Emitted k]), Some r)
    end.

  (* a sequential consumer (async for): __anext__ until the stream ends *)
  Fixpoint drain_src (x : exec_state) (src : list event) (k : nat) (tr : list trace_ev)
    : sub_state * list result :=
    match src with
    | [] => (SubState x [] k (tr ++ [Ended]), [])
    | e :: rest =>
        let '(x', r) := on_event x e in
        let '(s', rs) := drain_src x' rest (S k) (tr ++ [Pulled k; Emitted k]) in
        (s', r :: rs)
    end.

  Definition drain (s : sub_state) : sub_state * list result :=
    drain_src (ss_exec s) (ss_source s) (ss_consumed s) (ss_trace s).

  (* any history of a sequential consumer: j calls of __anext__ (it may stop
     early, or go on calling after the stream has ended) *)
  Fixpoint pulls (j : nat) (s : sub_state) : sub_state * list (option result) :=
    match j with
    | O => (s, [])
    | S j' =>
        let '(s1, r) := anext s in
        let '(s2, rs) := pulls j' s1 in
        (s2, r :: rs)
    end.

  (* ---- subscribe(): the checks made before the source is touched, in the
     order of the code *)
  Inductive refusal :=
  | RefInvalidOperation     (* get_operation_with_type: InvalidOperationError *)
  | RefVariables            (* coerce_variable_values: VariablesCoercionError *)
  | RefNotSubscription      (* operation.operation != "subscription" *)
  | RefRuntime              (* not isinstance(runtime, SubscriptionRuntime) *)
  | RefDirectiveArguments   (* collect_fields on the root selection set raises CoercionError
                               (invalid @skip / @include arguments, e.g. a null variable) *)
  | RefFieldCount           (* len(fields) != 1 *)
  | RefNoFieldDef           (* field_def is None *)
  | RefNoResolver.          (* field_def.subscription_resolver is None *)

  Inductive exn_class := ExecutionErrorC | RuntimeErrorC | VariablesCoercionErrorC | CoercionErrorC.

  (* InvalidOperationError is a subclass of ExecutionError *)
  Definition refusal_class (r : refusal) : exn_class :=
    match r with
    | RefInvalidOperation | RefFieldCount => ExecutionErrorC
    | RefVariables => VariablesCoercionErrorC
    | RefDirectiveArguments => CoercionErrorC
    | RefNotSubscription | RefRuntime | RefNoFieldDef | RefNoResolver => RuntimeErrorC
    end.

  Record sub_request := SubRequest {
    sq_operation_found : bool;       (* an operation is selected and the schema has its root type *)
    sq_variables_ok : bool;
    sq_is_subscription : bool;
    sq_runtime_streams : bool;       (* runtime is a SubscriptionRuntime *)
    sq_root_collect_ok : bool;       (* collect_fields on the root selection set does not raise *)
    sq_root_fields : nat;            (* number of response keys collected at the root *)
    sq_field_defined : bool;
    sq_has_subscription_resolver : bool }.

  Inductive sub_outcome :=
  | Refused (r : refusal)
  | Started (s : sub_state).

  Variable c_created : cache.

  (* result, whether the subscription resolver was called, source items consumed *)
  Definition subscribe (q : sub_request) (events : list event) : sub_outcome * bool * nat :=
    if negb (sq_operation_found q) then (Refused RefInvalidOperation, false, 0)
    else if negb (sq_variables_ok q) then (Refused RefVariables, false, 0)
    else if negb (sq_is_subscription q) then (Refused RefNotSubscription, false, 0)
    else if negb (sq_runtime_streams q) then (Refused RefRuntime, false, 0)
    else if negb (sq_root_collect_ok q) then (Refused RefDirectiveArguments, false, 0)
    else if negb (sq_root_fields q =? 1) then (Refused RefFieldCount, false, 0)
    else if negb (sq_field_defined q) then (Refused RefNoFieldDef, false, 0)
    else if negb (sq_has_subscription_resolver q) then (Refused RefNoResolver, false, 0)
    else (Started (SubState (ExecState c_created []) events 0 []), true, 0).
End SubscribeModel.

Arguments ExecState {cache err}.
Arguments es_cache {cache err}.
Arguments es_errors {cache err}.
Arguments SubState {cache event err}.
Arguments ss_exec {cache event err}.
Arguments ss_source {cache event err}.
Arguments ss_consumed {cache event err}.
Arguments ss_trace {cache event err}.
Arguments Refused {cache event err}.
Arguments Started {cache event err}.
