(* Model of py_gql/utilities/max_depth.py (MaxDepthValidationRule), after the
   repair: depth is measured with collect_fields_untyped at every level. *)
From PyGql Require Export Exec.Collect.

Definition frag_table := list (str * (ty * list selection)).

(* Document.fragments (dict comprehension: the last definition of a name wins) *)
Fixpoint frag_table_of (ds : list definition) : frag_table :=
  match ds with
  | [] => []
  | DFragment n _ tc _ _ sels _ :: ds' =>
      let rest := frag_table_of ds' in
      match alookup (n_val n) rest with
      | Some _ => rest
      | None => (n_val n, (tc, sels)) :: rest
      end
  | _ :: ds' => frag_table_of ds'
  end.

Definition collect_untyped (frags : frag_table) (vs : vars) :=
  collect (fun _ => true) frags vs false.

(* [child for field in fields if field.selection_set is not None
          for child in field.selection_set.selections] *)
Definition children_of (fields : list selection) : list selection :=
  flat_map (fun f => match f with
                     | SField _ _ _ _ (Some _) sub _ => sub
                     | _ => []
                     end) fields.

(* _selection_depth *)
Fixpoint sel_depth (fuel : nat) (frags : frag_table) (vs : vars) (ss : list selection)
  : outcome nat :=
  match fuel with
  | O => OutOfFuel
  | S fuel' =>
      do g <- collect_untyped frags vs fuel' ss;
      fold_left (fun acc kv =>
                   do a <- acc;
                   do d <- sel_depth fuel' frags vs (children_of (snd kv));
                   Ok (Nat.max a (S d)))
                g (Ok 0)
  end.

(* MaxDepthValidationRule(max_depth, operation_name)(schema, doc, variables):
   the flagged operations as (index in doc.definitions, reported depth). *)
Definition name_matches (filter : option str) (n : option name) : bool :=
  match filter with
  | None => true
  | Some [] => true                      (* empty string is falsy: no filter *)
  | Some f => match n with Some nm => str_eqb (n_val nm) f | None => false end
  end.

Fixpoint rule_from (fuel : nat) (limit : Z) (filter : option str) (frags : frag_table)
         (vs : vars) (i : N) (ds : list definition) : outcome (list (N * Z)) :=
  match ds with
  | [] => Ok []
  | DOperation _ n _ _ _ sels _ :: ds' =>
      if name_matches filter n then
        do d <- sel_depth fuel frags vs sels;
        do rest <- rule_from fuel limit filter frags vs (N.succ i) ds';
        let depth := (Z.of_nat d - 1)%Z in
        Ok (if (limit <? depth)%Z then (i, depth) :: rest else rest)
      else rule_from fuel limit filter frags vs (N.succ i) ds'
  | _ :: ds' => rule_from fuel limit filter frags vs (N.succ i) ds'
  end.

Definition max_depth_rule (fuel : nat) (limit : Z) (filter : option str)
           (d : document) (vs : vars) : outcome (list (N * Z)) :=
  rule_from fuel limit filter (frag_table_of (doc_defs d)) vs 0%N (doc_defs d).
