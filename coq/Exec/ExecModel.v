(* Model of the blocking executor of py-gql:
     execution/executor.py + blocking_executor.py
        (_iterate_fields, execute_fields, resolve_field, complete_value,
         complete_list_value, complete_non_nullable_value,
         _handle_non_nullable_value, resolve_type, field_resolver),
     execution/wrappers.py (ResolutionContext.field_definition, add_error /
        _errors as the returned error list; the memo tables are in
        Exec/ExecCache.v),
     execution/default_resolver.py (on pv dicts),
     execution/get_operation.py, execution/execute.py (root dispatch),
     utilities/collect_fields.py through Exec/Collect.v,
     Schema.get_type_from_literal / is_possible_type (cache-free reading).

   External behaviour enters as arguments:
     world       : resolvers, by response path
     tyres       : custom resolve_type callbacks of abstract types
     coerce_args : utilities.coerce_argument_values (modelled elsewhere, C07)

   Every function returns [outcome (value * errors)]: the errors are the
   ones appended to [_errors] during that call, in order. [Crash] is an
   exception that escapes [execute]. *)
From PyGql Require Export Schema.SchemaModel Lang.Ast Exec.Collect Exec.Depth.

(* ------------------------------------------------------------- data *)
Inductive pelem := PKey (k : str) | PIdx (i : N).
Definition path := list pelem.           (* root first, as ResponsePath *)

Inductive err_kind :=
| EResolver (msg : str) (ext : pv)       (* ResolverError raised by a resolver *)
| ECoercion                              (* CoercionError from argument coercion *)
| ENonNull.                              (* 'Field "..." is not nullable' *)

(* one entry of ResolutionContext._errors: path, locations of err.nodes *)
Record error := Err { e_path : path; e_locs : list loc; e_kind : err_kind }.

(* what a resolver call does *)
Inductive rres :=
| RVal (v : pv)                          (* returns v *)
| RDefault                               (* no resolver registered: default_resolver *)
| RErr (msg : str) (ext : pv)            (* raises ResolverError(msg, extensions=ext) *)
| RExn.                                  (* raises any other exception *)

(* what a resolve_type callback returns *)
Inductive tyname_res :=
| TRNone                                 (* None *)
| TRName (n : str)                       (* a type name, or the type object registered under it *)
| TRBad.                                 (* something that is neither *)

Definition world_t := path -> pv -> str -> str -> list (str * pv) -> rres.
                    (* path, parent value, parent type, field name, coerced args *)

Definition result := outcome (pv * list error).

Definition CRASH_RESOLVER : nat := 2.     (* unexpected exception from a resolver *)
Definition CRASH_RUNTIME : nat := 3.      (* RuntimeError raised by complete_value / execute *)
Definition CRASH_UNKNOWN_TYPE : nat := 4. (* UnknownType from schema.get_type in resolve_type *)
Definition CRASH_TYPEERROR : nat := 5.    (* TypeError: invalid field type *)
Definition CRASH_BADSCHEMA : nat := 7.    (* dangling type name / empty node list: not representable in Python *)
Definition CRASH_UNMODELLED : nat := 9.   (* outside the modelled domain (__schema/__type, exotic str()/int()) *)
Definition REJ_OPERATION : nat := 2.      (* InvalidOperationError *)

Definition pelem_eqb (a b : pelem) : bool :=
  match a, b with
  | PKey x, PKey y => str_eqb x y
  | PIdx x, PIdx y => N.eqb x y
  | _, _ => false
  end.

Fixpoint path_eqb (a b : path) : bool :=
  match a, b with
  | [], [] => true
  | x :: a', y :: b' => pelem_eqb x y && path_eqb a' b'
  | _, _ => false
  end.

(* [prefixb q p]: q is a prefix of p (p is at or below q) *)
Fixpoint prefixb (q p : path) : bool :=
  match q, p with
  | [], _ => true
  | x :: q', y :: p' => pelem_eqb x y && prefixb q' p'
  | _ :: _, [] => false
  end.

Definition sel_loc (f : selection) : loc :=
  match f with
  | SField _ _ _ _ _ _ l => l
  | SSpread _ _ l => l
  | SInline _ _ _ _ l => l
  end.

Definition sel_name (f : selection) : str :=
  match f with
  | SField _ n _ _ _ _ _ => n_val n
  | SSpread n _ _ => n_val n
  | SInline _ _ _ _ _ => []
  end.

Definition s_typename := str_of_string "__typename"%string.
Definition s_schema := str_of_string "__schema"%string.
Definition s_type := str_of_string "__type"%string.
Definition s_typename_key := str_of_string "__typename__"%string.
Definition s_String := str_of_string "String"%string.

(* TYPE_NAME_INTROSPECTION_FIELD *)
Definition typename_fdef : fdef := MkField s_typename s_typename (RNonNull (RNamed s_String)) [].

Inductive fkind := FUser | FTypename | FIntrospection.

(* iter(value) for the list case of complete_value; None = not iterable
   (or a string) *)
Definition iter_items (v : pv) : option (list pv) :=
  match v with
  | PList l => Some l
  | PDict kvs => Some (map (fun kv => PStr (fst kv)) kvs)
  | _ => None
  end.

(* type(value).__name__ *)
Definition py_type_name (v : pv) : str :=
  str_of_string (match v with
                 | PNone => "NoneType" | PBool _ => "bool" | PInt _ => "int"
                 | PFloat _ => "float" | PStr _ => "str" | PList _ => "list"
                 | PDict _ => "dict" end)%string.

(* value.get("__typename__") / getattr(value, "__typename__", None) *)
Definition default_typename (v : pv) : tyname_res :=
  match v with
  | PDict kvs =>
      match alookup s_typename_key kvs with
      | None | Some PNone => TRNone
      | Some (PStr n) => TRName n
      | Some _ => TRBad
      end
  | _ => TRNone
  end.

(* default_resolver on dicts; other Python values are assumed to have no
   attribute named like a field *)
Definition default_resolve (parent : pv) (pyname : str) : pv :=
  match parent with
  | PDict kvs => match alookup pyname kvs with Some v => v | None => PNone end
  | _ => PNone
  end.

(* Schema.get_type_from_literal restricted to what a type condition can be *)
Definition named_of_ty (t : ty) : option str :=
  match t with TNamed n _ => Some (n_val n) | _ => None end.

Section Exec.
  Variable sch : schema.
  Variable frags : frag_table.
  Variable vs : vars.                      (* coerced variable values *)
  Variable coerce_args : fdef -> selection -> outcome (list (str * pv)).
  Variable world : world_t.
  Variable tyres : str -> option (pv -> tyname_res).
  Variable cfuel : nat.                    (* fuel of one collect_fields call *)

  (* _fragment_type_applies(schema, object_type = tname, fragment).
     An unknown type in a condition (UnknownType in the code; rejected by
     validation) is read as "does not apply". *)
  Definition applies (tname : str) (tc : option ty) : bool :=
    match tc with
    | None => true
    | Some t =>
        match named_of_ty t with
        | None => false
        | Some n =>
            match get_type sch n with
            | None => false
            | Some _ =>
                str_eqb n tname ||
                match possible_types sch n with
                | Some ps => is_object sch tname && mem_str tname ps
                | None => false
                end
            end
        end
    end.

  (* ResolutionContext.collect_fields (without the memo table) *)
  Definition collect_for (tname : str) (sels : list selection) : outcome groups :=
    collect (applies tname) frags vs true cfuel sels.

  (* ResolutionContext.field_definition (introspection enabled) *)
  Definition field_definition (tname : str) (name : str) : outcome (option (fkind * fdef)) :=
    if str_eqb name s_typename then Ok (Some (FTypename, typename_fdef))
    else if str_eqb name s_schema || str_eqb name s_type then
      (* SCHEMA/TYPE_INTROSPECTION_FIELD on the query type (introspection is
         not modelled here); UnboundLocalError on any other type *)
      Crash CRASH_UNMODELLED
    else
      match get_type sch tname with
      | Some (TObject fs _) => Ok (option_map (fun f => (FUser, f)) (find_field name fs))
      | _ => Crash CRASH_BADSCHEMA
      end.

  (* Executor.resolve_type + the two checks of complete_value *)
  Definition resolve_type (abstract : str) (v : pv) : outcome str :=
    let maybe := match tyres abstract with
                 | Some f => f v
                 | None => default_typename v
                 end in
    let named := match maybe with
                 | TRNone => Some (py_type_name v)
                 | TRName n => Some n
                 | TRBad => None
                 end in
    match named with
    | None => Crash CRASH_RUNTIME
    | Some n =>
        match get_type sch n with
        | None => Crash CRASH_UNKNOWN_TYPE
        | Some (TObject _ _) =>
            match possible_types sch abstract with
            | Some ps => if mem_str n ps then Ok n else Crash CRASH_RUNTIME
            | None => Crash CRASH_TYPEERROR
            end
        | Some _ => Crash CRASH_RUNTIME
        end
    end.

  Definition of_ser (r : ser_result) : result :=
    match r with
    | SerOk v => Ok (v, [])
    | SerError => Crash CRASH_RUNTIME
    | SerUnmodelled => Crash CRASH_UNMODELLED
    end.

  Section Level.
    (* execute_fields(runtime_type, value, path, collect_fields(runtime_type,
       selections)) one level down *)
    Variable sub_exec : str -> pv -> path -> list selection -> result.

    (* complete_list_value: [complete(path + [index], entry) for index, entry in enumerate(value)] *)
    Fixpoint complete_items (f : path -> pv -> result) (p : path) (i : N) (items : list pv)
      : outcome (list pv * list error) :=
      match items with
      | [] => Ok ([], [])
      | x :: items' =>
          do r <- f (p ++ [PIdx i]) x;
          do rest <- complete_items f p (N.succ i) items';
          Ok (fst r :: fst rest, snd r ++ snd rest)
      end.

    Definition complete_named (nodes : list selection) (n : str) (p : path) (v : pv) : result :=
      match get_type sch n with
      | None => Crash CRASH_BADSCHEMA
      | Some (TScalar k) => of_ser (serialize_scalar k v)
      | Some (TEnum vals) =>
          (* _reverse_values[value]: an unhashable value raises TypeError, not UnknownEnumValue *)
          if hashable v then of_ser (enum_get_name vals v) else Crash CRASH_TYPEERROR
      | Some (TObject _ _) => sub_exec n v p (children_of nodes)
      | Some (TInterface _) | Some (TUnion _) =>
          do rt <- resolve_type n v;
          sub_exec rt v p (children_of nodes)
      | Some TInputObject => Crash CRASH_TYPEERROR
      end.

    (* complete_value / complete_non_nullable_value + _handle_non_nullable_value *)
    Fixpoint complete_value (nodes : list selection) (t : tref) (p : path) (v : pv) {struct t} : result :=
      match t with
      | RNonNull t' =>
          do r <- complete_value nodes t' p v;
          match fst r with
          | PNone => Ok (PNone, snd r ++ [Err p (map sel_loc nodes) ENonNull])
          | _ => Ok r
          end
      | RList t' =>
          match v with
          | PNone => Ok (PNone, [])
          | _ =>
              match iter_items v with
              | None => Crash CRASH_RUNTIME
              | Some items =>
                  do r <- complete_items (complete_value nodes t') p 0%N items;
                  Ok (PList (fst r), snd r)
              end
          end
      | RNamed n =>
          match v with
          | PNone => Ok (PNone, [])
          | _ => complete_named nodes n p v
          end
      end.

    (* When collecting the sub-selection of an object fails (invalid @skip /
       @include arguments: CoercionError), the exception leaves complete_value
       and is caught by the resolve_field of the enclosing field: the field is
       null, with one error at the field's path. Errors that completed list
       items recorded before stay in _errors: [complete_value_partial]. The
       error's node is the directive; its location is not tracked by
       Exec/Collect.v, the model leaves the location list empty. *)
    Fixpoint items_partial (f : path -> pv -> result) (fe : path -> pv -> list error)
             (p : path) (i : N) (items : list pv) : list error :=
      match items with
      | [] => []
      | x :: items' =>
          match f (p ++ [PIdx i]) x with
          | Ok r => snd r ++ items_partial f fe p (N.succ i) items'
          | _ => fe (p ++ [PIdx i]) x
          end
      end.

    Fixpoint complete_value_partial (nodes : list selection) (t : tref) (p : path) (v : pv) {struct t}
      : list error :=
      match t with
      | RNonNull t' => complete_value_partial nodes t' p v
      | RList t' =>
          match v with
          | PNone => []
          | _ =>
              match iter_items v with
              | None => []
              | Some items =>
                  items_partial (complete_value nodes t') (complete_value_partial nodes t') p 0%N items
              end
          end
      | RNamed _ => []
      end.

    (* try: complete_value(...) except (CoercionError, ResolverError) in resolve_field *)
    Definition complete_field (nodes : list selection) (t : tref) (p : path) (v : pv) : result :=
      match complete_value nodes t p v with
      | Rejected k q =>
          if Nat.eqb k REJ_COERCION
          then Ok (PNone, complete_value_partial nodes t p v ++ [Err p [] ECoercion])
          else Rejected k q
      | o => o
      end.

    (* BlockingExecutor.resolve_field *)
    Definition resolve_field (tname : str) (parent : pv) (k : fkind) (fd : fdef)
               (nodes : list selection) (p : path) : result :=
      match nodes with
      | [] => Crash CRASH_BADSCHEMA
      | node :: _ =>
          match coerce_args fd node with
          | Rejected _ _ => Ok (PNone, [Err p [sel_loc node] ECoercion])
          | OutOfFuel => OutOfFuel
          | Crash c => Crash c
          | Ok args =>
              match k with
              | FIntrospection => Crash CRASH_UNMODELLED
              | FTypename => complete_field nodes (f_type fd) p (PStr tname)
              | FUser =>
                  match world p parent tname (f_name fd) args with
                  | RVal v => complete_field nodes (f_type fd) p v
                  | RDefault => complete_field nodes (f_type fd) p (default_resolve parent (f_pyname fd))
                  | RErr m x => Ok (PNone, [Err p [sel_loc node] (EResolver m x)])
                  | RExn => Crash CRASH_RESOLVER
                  end
              end
          end
      end.

    (* _iterate_fields + BlockingExecutor.execute_fields *)
    Fixpoint exec_groups (tname : str) (parent : pv) (p : path) (g : groups)
      : outcome (list (str * pv) * list error) :=
      match g with
      | [] => Ok ([], [])
      | (key, nodes) :: g' =>
          match nodes with
          | [] => Crash CRASH_BADSCHEMA
          | node :: _ =>
              do fdo <- field_definition tname (sel_name node);
              match fdo with
              | None => exec_groups tname parent p g'
              | Some (k, fd) =>
                  do r <- resolve_field tname parent k fd nodes (p ++ [PKey key]);
                  do rest <- exec_groups tname parent p g';
                  Ok ((key, fst r) :: fst rest, snd r ++ snd rest)
              end
          end
      end.
  End Level.

  (* execute_fields(type, value, path, collect_fields(type, selections)) with
     [fuel] levels of nested objects available *)
  Fixpoint exec_sel (fuel : nat) (tname : str) (v : pv) (p : path) (sels : list selection) : result :=
    match fuel with
    | O => OutOfFuel
    | S fuel' =>
        do g <- collect_for tname sels;
        do r <- exec_groups (exec_sel fuel') tname v p g;
        Ok (PDict (fst r), snd r)
    end.
End Exec.

(* ------------------------------------------------ operation selection *)
(* get_operation: (kind, selections) *)
Fixpoint operations_of (ds : list definition) : list (op_kind * option name * list selection) :=
  match ds with
  | [] => []
  | DOperation k n _ _ _ sels _ :: ds' => (k, n, sels) :: operations_of ds'
  | _ :: ds' => operations_of ds'
  end.

Fixpoint find_operation (nm : str) (ops : list (op_kind * option name * list selection))
  : option (op_kind * list selection) :=
  match ops with
  | [] => None
  | (k, Some n, sels) :: ops' =>
      if str_eqb (n_val n) nm then Some (k, sels) else find_operation nm ops'
  | _ :: ops' => find_operation nm ops'
  end.

Definition get_operation (d : document) (opname : option str) : outcome (op_kind * list selection) :=
  let ops := operations_of (doc_defs d) in
  match ops with
  | [] => Rejected REJ_OPERATION 0
  | _ =>
      match opname with
      | None | Some [] =>
          match ops with
          | [(k, _, sels)] => Ok (k, sels)
          | _ => Rejected REJ_OPERATION 0
          end
      | Some nm =>
          match find_operation nm ops with
          | Some r => Ok r
          | None => Rejected REJ_OPERATION 0
          end
      end
  end.

(* execute(schema, document, operation_name, variables (already coerced),
   initial_value) with executor_cls = BlockingExecutor *)
Definition execute (sch : schema) (coerce_args : vars -> fdef -> selection -> outcome (list (str * pv)))
           (world : world_t) (tyres : str -> option (pv -> tyname_res))
           (cfuel fuel : nat)
           (d : document) (opname : option str) (vs : vars) (root : pv) : result :=
  do op <- get_operation d opname;
  let '(k, sels) := op in
  let root_type := match k with
                   | OpQuery => s_query sch
                   | OpMutation => s_mutation sch
                   | OpSubscription => s_subscription sch
                   end in
  match root_type with
  | None => Rejected REJ_OPERATION 0
  | Some rt =>
      match k with
      | OpSubscription => Crash CRASH_RUNTIME
      | _ => exec_sel sch (frag_table_of (doc_defs d)) vs (coerce_args vs) world tyres cfuel fuel rt root [] sels
      end
  end.
