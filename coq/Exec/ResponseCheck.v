(* Executable (boolean) versions of the C10 specification predicates, used by
   the correspondence (Run/C10run.v) on the implementation's real responses,
   and the well-formedness assumption on abstract stage outcomes.  They are
   proved equivalent to Spec/ResponseSpec.v in Proofs/ResponseProofs.v. *)
From PyGql Require Import Base.Str Lang.LocModel Exec.ResponseModel Spec.ResponseSpec.

Definition wf_location_b (doc : str) (j : json) : bool :=
  match j with
  | JObj kvs =>
      (length kvs =? 2) &&
      match alookup k_line kvs, alookup k_column kvs with
      | Some (JInt l), Some (JInt c) =>
          (1 <=? l)%Z && (1 <=? c)%Z && loc_inside_b doc (Z.to_nat l) (Z.to_nat c)
      | _, _ => false
      end
  | _ => false
  end.

Definition wf_pseg_b (j : json) : bool :=
  match j with JStr _ => true | JInt i => (0 <=? i)%Z | _ => false end.

Fixpoint nodup_b (l : list str) : bool :=
  match l with [] => true | x :: r => negb (mem_str x r) && nodup_b r end.

Definition wf_error_b (doc : str) (j : json) : bool :=
  match j with
  | JObj kvs =>
      nodup_b (map fst kvs) &&
      forallb (fun k => mem_str k error_keys) (map fst kvs) &&
      match alookup k_message kvs with Some (JStr _) => true | _ => false end &&
      match alookup k_locations kvs with
      | None => true | Some (JArr ls) => forallb (wf_location_b doc) ls | Some _ => false
      end &&
      match alookup k_path kvs with
      | None => true | Some (JArr ps) => forallb wf_pseg_b ps | Some _ => false
      end &&
      match alookup k_extensions kvs with
      | None => true | Some (JObj _) => true | Some _ => false
      end
  | _ => false
  end.

Definition wf_response_b (doc : str) (r : json) : bool :=
  match r with
  | JObj kvs =>
      nodup_b (map fst kvs) &&
      forallb (fun k => mem_str k response_keys) (map fst kvs) &&
      strict_json r &&
      match alookup k_errors kvs with
      | None => true
      | Some (JArr (e :: es)) => forallb (wf_error_b doc) (e :: es)
      | Some _ => false
      end &&
      match alookup k_data kvs, alookup k_errors kvs with
      | None, None => false
      | _, _ => true
      end
  | _ => false
  end.

Definition data_presence_b (early : bool) (r : json) : bool :=
  match r with
  | JObj kvs => Bool.eqb (match alookup k_data kvs with None => true | Some _ => false end) early
  | _ => false
  end.

Definition null_error_match_b (obligated : list path) (r : json) : bool :=
  forallb (fun p =>
    match response_data r with
    | Some d => match jget d p with
                | Some JNull => count_path p (map error_path (response_errors r)) =? 1
                | _ => true
                end
    | None => true
    end) obligated.

(* ---- the one recorded deviation: GraphQLSyntaxError.to_dict spells the
   column key "columne".  [rename_columne] maps that key to "column" inside
   the location objects of every error of a response; nothing else changes. *)
Definition rename_loc (j : json) : json :=
  match j with
  | JObj kvs => JObj (map (fun kv => if str_eqb (fst kv) k_columne then (k_column, snd kv) else kv) kvs)
  | _ => j
  end.

Definition rename_err (j : json) : json :=
  match j with
  | JObj kvs =>
      JObj (map (fun kv =>
                   if str_eqb (fst kv) k_locations
                   then (fst kv, match snd kv with JArr ls => JArr (map rename_loc ls) | v => v end)
                   else kv) kvs)
  | _ => j
  end.

Definition rename_columne (r : json) : json :=
  match r with
  | JObj kvs =>
      JObj (map (fun kv =>
                   if str_eqb (fst kv) k_errors
                   then (fst kv, match snd kv with JArr es => JArr (map rename_err es) | v => v end)
                   else kv) kvs)
  | _ => r
  end.

(* ---- assumption on the abstract stage outcomes (checked on the real ones
   by the correspondence): nodes the errors refer to start inside the text,
   resolver-supplied extensions and the data tree are strict JSON. *)
Definition nodes_ok_b (doc : str) (nodes : list node_ref) : bool :=
  forallb (fun n => match nr_loc n with Some (st, _) => st <=? length doc | None => true end) nodes.

Definition err_ok_b (doc : str) (e : gql_error) : bool :=
  match e with
  | ESyntax _ _ => true
  | ELocated _ nodes _ => nodes_ok_b doc nodes
  | EResolver _ nodes _ ext =>
      nodes_ok_b doc nodes &&
      match ext with Some kvs => strict_json (JObj kvs) | None => true end
  | EExecution _ => true
  end.

Definition is_syntax (e : gql_error) : bool := match e with ESyntax _ _ => true | _ => false end.

Definition stages_wf_b (doc : str) (st : stages) : bool :=
  forallb (err_ok_b doc) (st_validation st) && forallb (fun e => negb (is_syntax e)) (st_validation st) &&
  forallb (err_ok_b doc) (st_varcoercion st) && forallb (fun e => negb (is_syntax e)) (st_varcoercion st) &&
  forallb (err_ok_b doc) (st_rootcoercion st) && forallb (fun e => negb (is_syntax e)) (st_rootcoercion st) &&
  forallb (err_ok_b doc) (snd (st_exec st)) && forallb (fun e => negb (is_syntax e)) (snd (st_exec st)) &&
  strict_json (fst (st_exec st)).
