(* Model of py_gql/utilities/collect_fields.py: _skip_selection,
   collect_fields and collect_fields_untyped (one function, parameterised by
   the fragment-type test), including the [_seen_fragments or set()] quirk. *)
From PyGql Require Export Base.Str Base.Pv Lang.Ast.

Definition s_skip := str_of_string "skip"%string.
Definition s_include := str_of_string "include"%string.
Definition s_if := str_of_string "if"%string.

Definition REJ_COERCION : nat := 1.

(* find_one(node.directives, name == dname) *)
Fixpoint find_dir (dname : str) (ds : list directive) : option directive :=
  match ds with
  | [] => None
  | d :: ds' => if str_eqb (n_val (d_name d)) dname then Some d else find_dir dname ds'
  end.

(* values = {a.name.value: a for a in node.arguments}: the last one wins *)
Fixpoint find_arg_last (aname : str) (args : list argument) : option argument :=
  match args with
  | [] => None
  | a :: args' =>
      match find_arg_last aname args' with
      | Some a' => Some a'
      | None => if str_eqb (n_val (a_name a)) aname then Some a else None
      end
  end.

(* directive_arguments(Skip/Include, node, variables)["if"], with the single
   argument [if: Boolean!]: [Ok None] when the directive is absent. *)
Definition dir_if (dname : str) (ds : list directive) (vs : vars) : outcome (option pv) :=
  match find_dir dname ds with
  | None => Ok None
  | Some d =>
      match find_arg_last s_if (d_args d) with
      | None => Rejected REJ_COERCION 0
      | Some a =>
          match a_val a with
          | VVar n _ =>
              match alookup (n_val n) vs with
              | Some PNone => Rejected REJ_COERCION 0   (* null for the non-null `if` (since fix C07-03) *)
              | Some v => Ok (Some v)
              | None => Rejected REJ_COERCION 0
              end
          | VBool b _ => Ok (Some (PBool b))
          | _ => Rejected REJ_COERCION 0
          end
      end
  end.

Definition skip_selection (ds : list directive) (vs : vars) : outcome bool :=
  do sk <- dir_if s_skip ds vs;
  do inc <- dir_if s_include ds vs;
  let skipped := match sk with Some v => truthy v | None => false end in
  let included := match inc with Some v => truthy v | None => true end in
  Ok (skipped || negb included).

(* ordered groups: response key -> field nodes, keys in first-insertion order *)
Definition groups := list (str * list selection).

Fixpoint add_group (k : str) (fs : list selection) (g : groups) : groups :=
  match g with
  | [] => [(k, fs)]
  | (k', fs') :: g' =>
      if str_eqb k k' then (k', fs' ++ fs) :: g' else (k', fs') :: add_group k fs g'
  end.

(* _merge(groups, into=...) *)
Definition merge_groups (src into : groups) : groups :=
  fold_left (fun acc kv => add_group (fst kv) (snd kv) acc) src into.

Section Collect.
  (* _fragment_type_applies for the current object type; always true for the
     untyped variant *)
  Variable applies : option ty -> bool.
  Variable frags : list (str * (ty * list selection)).   (* name -> type condition, selections *)
  Variable vs : vars.
  (* behaviour on a spread whose fragment is missing: the typed variant raises
     KeyError (a crash), the untyped one skips it *)
  Variable missing_crashes : bool.

  Definition CRASH_KEYERROR : nat := 1.

  (* [collect_into fuel ss g local] is the body of the [for selection in
     selections] loop with accumulator [g] (grouped_fields) and the local
     seen set; [collect] is a whole call. Both return the groups and the seen
     set as the *caller* observes it afterwards. [seen] is the set the caller
     passed (None is passed as []).
     Python: [_seen_fragments = _seen_fragments or set()] -- an empty set is
     replaced by a fresh one, so additions are only visible to the caller when
     the set it passed was non-empty.
     Fuel is consumed by every loop iteration and every nested call; running
     out of it stands for unbounded recursion (cyclic fragments). *)
  Definition caller_view (seen local' : list str) : list str :=
    match seen with [] => [] | _ => local' end.

  Fixpoint collect_into (fuel : nat) (ss : list selection) (g : groups) (local : list str)
    : outcome (groups * list str) :=
    match fuel with
    | O => OutOfFuel
    | S fuel' =>
        match ss with
        | [] => Ok (g, local)
        | SField alias n args dirs sl sub l as f :: ss' =>
            do sk <- skip_selection dirs vs;
            if sk then collect_into fuel' ss' g local
            else collect_into fuel' ss' (add_group (response_name alias n) [f] g) local
        | SInline tc dirs ssl sub l :: ss' =>
            do sk <- skip_selection dirs vs;
            if sk || negb (applies tc) then collect_into fuel' ss' g local
            else
              do r <- collect_into fuel' sub [] local;
              collect_into fuel' ss' (merge_groups (fst r) g) (caller_view local (snd r))
        | SSpread n dirs l :: ss' =>
            let nm := n_val n in
            match alookup nm frags with
            | None =>
                if missing_crashes then Crash CRASH_KEYERROR
                else
                  (* untyped: the skip test runs first, a missing fragment is ignored *)
                  do sk <- skip_selection dirs vs;
                  collect_into fuel' ss' g local
            | Some (tc, fsels) =>
                do sk <- skip_selection dirs vs;
                if sk || mem_str nm local || negb (applies (Some tc)) then collect_into fuel' ss' g local
                else
                  do r <- collect_into fuel' fsels [] local;
                  collect_into fuel' ss' (merge_groups (fst r) g) (nm :: caller_view local (snd r))
            end
        end
    end.

  Definition collect (fuel : nat) (ss : list selection) : outcome groups :=
    do r <- collect_into fuel ss [] []; Ok (fst r).
End Collect.
