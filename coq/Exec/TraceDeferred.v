(* C16 over the deferred executor: a thin layer on top of the C08/C09 machine
   (Exec/RuntimeMachine.v, imported read-only).

   The machine's log records the resolver calls only: [LInvoke t] when a call
   is made / handed to the runtime, [LFinish t] when it has completed (t = the
   field's path + nesting level of the deferred value), [LErr] for field
   errors. The instrumentation hooks are not in it, but in
   Executor.resolve_field they sit right next to these entries:
     on_field_start  immediately before the resolver is called / submitted
                     (= immediately before [LInvoke (p, 0)]);
     on_field_end    first statement of `complete` / last of `fail`, which run
                     as soon as the last level of the field's deferred value
                     is there (= immediately after [LFinish (p, last level)]).
   [dec] re-inserts them ("decoration"); the resolver body is placed at the
   completion (thread pool: the body runs when the parked call is completed).
   This placement is the one assumption of this layer; it is what
   BlockingExecutor / Executor are shown to do by the correspondence runs.

   Obligations: what a program fragment / a machine term will still log, as a
   series-parallel term; [sp_lin o L]: L is a linearisation of o. *)
From Coq Require Import List NArith ZArith Bool Arith.
Import ListNotations.
From PyGql Require Import Exec.RuntimeMachine Spec.TraceSpec.

Inductive ob (A : Type) :=
| ONil
| OW (w : list A)              (* these, in this order *)
| OSeq (a b : ob A)            (* all of a, then b *)
| OPar (a b : ob A).           (* a and b interleaved arbitrarily *)
Arguments ONil {A}.
Arguments OW {A} w.
Arguments OSeq {A} a b.
Arguments OPar {A} a b.

Fixpoint sp_lin {A : Type} (o : ob A) (L : list A) : Prop :=
  match o with
  | ONil => L = []
  | OW w => L = w
  | OSeq a b => exists La Lb, sp_lin a La /\ sp_lin b Lb /\ L = La ++ Lb
  | OPar a b => exists La Lb, sp_lin a La /\ sp_lin b Lb /\ merge La Lb L
  end.

Fixpoint owords {A : Type} (o : ob A) : list (list A) :=
  match o with
  | ONil => []
  | OW w => [w]
  | OSeq a b | OPar a b => owords a ++ owords b
  end.

Fixpoint omap {A B : Type} (f : list A -> list B) (o : ob A) : ob B :=
  match o with
  | ONil => ONil
  | OW w => OW (f w)
  | OSeq a b => OSeq (omap f a) (omap f b)
  | OPar a b => OPar (omap f a) (omap f b)
  end.

(* ---------------------------------------------------------------- programs *)
Definition levels (dfr : option (nat * nat)) : nat := match dfr with Some (n, _) => n | None => O end.
Definition is_deferred (dfr : option (nat * nat)) : bool := match dfr with Some _ => true | None => false end.

(* the entries of one field: the call, then level by level *)
Definition field_entries (p : RuntimeMachine.path) (dfr : option (nat * nat)) : list entry :=
  LInvoke (p, O) :: task_log (p, O) (levels dfr).

Fixpoint ob_field (p : RuntimeMachine.path) (f : fld) {struct f} : ob entry :=
  match f with
  | Fld k dfr _ b => let p' := p ++ [k] in OSeq (OW (field_entries p' dfr)) (ob_body b p')
  end
with ob_body (b : body) (p : RuntimeMachine.path) {struct b} : ob entry :=
  match b with
  | BObj fs => ob_fields p fs
  | BList _ its => ob_items p 0%N its
  | _ => ONil
  end
with ob_fields (p : RuntimeMachine.path) (fs : flds) {struct fs} : ob entry :=
  match fs with
  | FNil => ONil
  | FCons f r => OPar (ob_field p f) (ob_fields p r)
  end
with ob_items (p : RuntimeMachine.path) (i : N) (its : items) {struct its} : ob entry :=
  match its with
  | INil => ONil
  | ICons it r => OPar (ob_item it (p ++ [i])) (ob_items p (N.succ i) r)
  end
with ob_item (it : item) (p : RuntimeMachine.path) {struct it} : ob entry :=
  match it with
  | ItObj fs => ob_fields p fs
  | _ => ONil
  end.

(* execute_fields_serially: one top-level field after the other *)
Fixpoint ob_serial (fs : flds) : ob entry :=
  match fs with
  | FNil => ONil
  | FCons f r => OSeq (ob_field [] f) (ob_serial r)
  end.

Definition ob_prog (pr : prog) : ob entry :=
  match pr with Prog mut fs => if mut then ob_serial fs else ob_fields [] fs end.

(* what a continuation / a deferred term will still log *)
Definition ob_k (k : K) : ob entry :=
  match k with
  | KComplete (Fld _ _ _ b) p => ob_body b p
  | KSerial _ _ rest => ob_serial rest
  | _ => ONil
  end.
Fixpoint rem (d : D) : ob entry :=
  match d with
  | Val _ | Exn _ => ONil
  | Task t m => OW (task_log t m)
  | Bind d1 k => OSeq (rem d1) (ob_k k)
  | Gather ds => (fix go (ds : list D) : ob entry :=
                    match ds with [] => ONil | d1 :: r => OPar (rem d1) (go r) end) ds
  end.
Fixpoint rem_list (ds : list D) : ob entry :=
  match ds with [] => ONil | d :: r => OPar (rem d) (rem_list r) end.

(* no resolver raises anything but ResolverError (crashes are outside C16) *)
Definition crash_free (pr : prog) : Prop := match pr with Prog _ fs => exn_tags_fs fs = [] end.

(* ---------------------------------------------------------------- the fields as C16 nodes *)
Definition out_of (b : body) : fout :=
  match b with BErr => OErr | BNull => ONull | _ => OVal end.

Record frec := mkFrec { fr_node : node; fr_levels : nat }.

Fixpoint recs_field (p : RuntimeMachine.path) (par : option TraceSpec.path) (f : fld) {struct f} : list frec :=
  match f with
  | Fld k dfr _ b =>
      let p' := p ++ [k] in
      mkFrec (mkNode p' (out_of b) (is_deferred dfr) par) (levels dfr) :: recs_body b p' p'
  end
with recs_body (b : body) (p owner : RuntimeMachine.path) {struct b} : list frec :=
  match b with
  | BObj fs => recs_fields p (Some owner) fs
  | BList _ its => recs_items p 0%N owner its
  | _ => []
  end
with recs_fields (p : RuntimeMachine.path) (par : option TraceSpec.path) (fs : flds) {struct fs} : list frec :=
  match fs with
  | FNil => []
  | FCons f r => recs_field p par f ++ recs_fields p par r
  end
with recs_items (p : RuntimeMachine.path) (i : N) (owner : RuntimeMachine.path) (its : items) {struct its} : list frec :=
  match its with
  | INil => []
  | ICons it r => recs_item it (p ++ [i]) owner ++ recs_items p (N.succ i) owner r
  end
with recs_item (it : item) (p owner : RuntimeMachine.path) {struct it} : list frec :=
  match it with
  | ItObj fs => recs_fields p (Some owner) fs
  | _ => []
  end.

Definition recs_prog (pr : prog) : list frec := match pr with Prog _ fs => recs_fields [] None fs end.
Definition nodes_prog (pr : prog) : list node := map fr_node (recs_prog pr).

(* ---------------------------------------------------------------- decoration *)
Definition lookup (I : list frec) (p : TraceSpec.path) : option frec :=
  find (fun r => if path_eq_dec (nd_path (fr_node r)) p then true else false) I.

Definition dec (I : list frec) (e : entry) : list event :=
  match e with
  | LInvoke (p, O) => [FieldStart O p]                       (* on_field_start, then the call / submit *)
  | LInvoke (_, S _) => []                                   (* a nested deferred value: no hook *)
  | LFinish (p, l) =>
      match lookup I p with
      | Some r =>
          if Nat.eqb l (fr_levels r)
          then [Invoke p; (match nd_out (fr_node r) with OErr => Raise p | _ => Return p end); FieldEnd O p]
          else []                                            (* an intermediate level *)
      | None => []
      end
  | LErr _ _ => []
  end.
Definition decorate (I : list frec) (l : list entry) : list event := flat_map (dec I) l.

(* the configuration a run of program pr is judged against: one recorder, no
   middlewares (those are composed around the call by C16_middleware) *)
Definition cfg_prog (text : bool) (oc : oclass) (pr : prog) : config :=
  mkConfig 1 0 text oc true (nodes_prog pr).
