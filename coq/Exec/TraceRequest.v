(* C16 -- the composed model of one request under a deferred runtime:
     stage machine of process_graphql_query        (Exec/TraceModel.v  [process])
   around the field-level trace of the generic Executor over deferred values
     machine log of C08/C09                         (Exec/RuntimeMachine.v [run])
     + field hooks where resolve_field fires them   (Exec/TraceDeferred.v  [decorate])
     + argument-coercion failures                   (Exec/TraceLift.v      [erase])
     + k stacked instrumentations, n middlewares    (Exec/TraceLift.v      [lift]).
   No proofs here. *)
From Coq Require Import List NArith Arith Bool.
Import ListNotations.
From PyGql Require Import Spec.TraceSpec Exec.TraceModel Exec.RuntimeMachine Exec.TraceDeferred Exec.TraceLift.

Section Request.
  Variables (k n : nat).
  Variable aw : bool.                       (* middlewares wait for deferred values (asyncio, `await next(..)`) *)
  Variable argerr : TraceSpec.path -> bool. (* fields whose argument coercion fails: in the machine program
                                               they are resolvers that fail at once *)
  Variable pr : prog.

  Definition nodes_full : list node := map (remark argerr) (nodes_prog pr).
  Definition cfg_full (text : bool) (oc : oclass) : config := mkConfig k n text oc aw nodes_full.

  (* what the instrumentations / middlewares / resolvers log while the executor
     runs, when the machine ended in state s *)
  Definition deferred_fields (s : state) : list event :=
    flat_map (lift k n aw nodes_full) (erase argerr (decorate (recs_prog pr) (log (ms s)))).

  Definition request_deferred (text : bool) (oc : oclass) (s : state) : list event :=
    process (stack k) text oc (deferred_fields s).

  Definition argerr_ok : Prop :=
    forall nd, In nd (nodes_prog pr) -> argerr (nd_path nd) = true -> nd_out nd = OErr.
End Request.
