(* C07 -- executable model of input coercion in py-gql (after the repairs
   fixes/C07-01 .. C07-05):

     utilities/coerce_value.py    coerce_value, _coerce_list_value,
                                  _coerce_input_object, coerce_argument_values,
                                  coerce_variable_values
     utilities/value_from_ast.py  value_from_ast, _extract_input_object,
                                  _extract_variable
     schema/scalars.py            coerce_int, coerce_float, the input parsers of
                                  Int / Float / String / ID / Boolean,
                                  _typed_coerce, default_scalar
     schema/types.py              ScalarType.parse / parse_literal (error
                                  wrapping), EnumType.get_value, InputValue
                                  (default, python_name)
     execution/wrappers.py        ResolutionContext.argument_values (= the
                                  composition [exec_kwargs] below)

   Input types are referred to by name ([schema] = association list), wrappers
   carry their own non-null flag so that NonNull(NonNull _) cannot be written.
   Floats are canonical positional decimal text, never doubles.
   No proofs in this file. *)
From PyGql Require Export Base.Str Base.Pv Lang.Ast.
From Coq Require Import ZArith.

(* ------------------------------------------------------------------ types *)
Inductive ity :=
| INamed (nn : bool) (n : str)          (* n  or n!  *)
| IList (nn : bool) (t : ity).          (* [t] or [t]! *)

Definition ity_nn (t : ity) : bool :=
  match t with INamed nn _ => nn | IList nn _ => nn end.

Inductive scalar_kind :=
| KInt | KFloat | KString | KID | KBoolean
| KAny      (* schema.scalars.default_scalar: transparent custom scalar *)
| KTag      (* the harness' user scalar: non-empty strings only *)
| KOdd.     (* the harness' raising user scalar: odd integers; its parser raises
               TypeError / ValueError for what it refuses and an ARBITRARY
               exception (neither of the two) for 13 *)

Record ifield := IField {
  f_name : str;                (* GraphQL name *)
  f_py : str;                  (* python_name *)
  f_ty : ity;
  f_default : option pv }.     (* has_default_value / default_value *)

Inductive tdef :=
| TDScalar (k : scalar_kind)
| TDEnum (vals : list (str * pv))       (* name -> internal value *)
| TDInput (fs : list ifield)
| TDOutput.                             (* any non-input type *)

Definition schema := list (str * tdef).

Inductive json :=
| JNull
| JBool (b : bool)
| JInt (z : Z)
| JFloat (r : str)                      (* canonical decimal text *)
| JStr (s : str)
| JList (l : list json)
| JObj (kvs : list (str * json)).       (* python dict: keys are distinct *)

(* rejection families (exception classes; texts are not modelled) *)
Definition RK_coercion : nat := 1.      (* CoercionError, MultiCoercionError *)
Definition RK_invalid : nat := 2.       (* InvalidValue and subclasses *)
Definition RK_variables : nat := 3.     (* VariablesCoercionError *)
Definition rejC {A} : outcome A := Rejected RK_coercion 0.
Definition rejI {A} : outcome A := Rejected RK_invalid 0.
Definition rejV {A} : outcome A := Rejected RK_variables 0.

(* ------------------------------------------------------- decimal numbers *)
Local Open Scope Z_scope.

Definition c_minus : N := 45%N.
Definition c_plus : N := 43%N.
Definition c_dot : N := 46%N.
Definition c_zero : N := 48%N.
Definition c_e : N := 101%N.
Definition c_E : N := 69%N.

Definition digit (c : N) : option Z :=
  if (N.leb 48 c && N.leb c 57)%bool then Some (Z.of_N c - 48) else None.

(* leading digits of a text: (value, number of digits, rest) *)
Fixpoint take_digits (s : str) (acc : Z) (n : Z) : Z * Z * str :=
  match s with
  | c :: s' => match digit c with
               | Some d => take_digits s' (acc * 10 + d) (n + 1)
               | None => (acc, n, s)
               end
  | [] => (acc, n, [])
  end.

Definition all_digits (s : str) : option Z :=
  match take_digits s 0 0 with
  | (v, n, []) => if 0 <? n then Some v else None
  | _ => None
  end.

(* python int(text, 10) on the texts of the modelled domain: -?[0-9]+ *)
Definition parse_int_text (s : str) : option Z :=
  match s with
  | c :: s' => if N.eqb c c_minus
               then match all_digits s' with Some v => Some (- v) | None => None end
               else all_digits s
  | [] => None
  end.

(* decimal text of a non-negative number *)
Fixpoint digits_fuel (fuel : nat) (n : Z) (acc : str) : str :=
  match fuel with
  | O => acc
  | S f => let acc' := N.add 48 (Z.to_N (n mod 10)) :: acc in
           if n <? 10 then acc' else digits_fuel f (n / 10) acc'
  end.
Definition str_of_nonneg (n : Z) : str := digits_fuel (S (Z.to_nat (Z.log2 n))) n [].
(* python str(int) *)
Definition str_of_Z (z : Z) : str :=
  if z <? 0 then c_minus :: str_of_nonneg (- z) else str_of_nonneg z.

(* A decimal number  (-1)^neg * m / 10^scale  (scale may be negative). *)
Record dec := Dec { d_neg : bool; d_m : Z; d_scale : Z }.

(* python float(text) on the texts of the modelled domain:
   -? D+ (. D+)? ([eE] [+-]? D+)?   -- the GraphQL number grammar *)
Definition dec_of_text (s : str) : option dec :=
  let '(neg, s1) := match s with
                    | c :: s' => if N.eqb c c_minus then (true, s') else (false, s)
                    | [] => (false, s)
                    end in
  let '(ip, n1, s2) := take_digits s1 0 0 in
  if n1 =? 0 then None else
  let '(m, sc, s3) :=
    match s2 with
    | c :: s2' =>
        if N.eqb c c_dot
        then let '(m', n2, s3') := take_digits s2' ip 0 in
             if n2 =? 0 then (ip, -1, s2) else (m', n2, s3')
        else (ip, 0, s2)
    | [] => (ip, 0, [])
    end in
  if sc <? 0 then None else
  match s3 with
  | [] => Some (Dec neg m sc)
  | c :: s4 =>
      if (N.eqb c c_e || N.eqb c c_E)%bool then
        let '(eneg, s5) := match s4 with
                           | c' :: s4' => if N.eqb c' c_minus then (true, s4')
                                          else if N.eqb c' c_plus then (false, s4')
                                          else (false, s4)
                           | [] => (false, s4)
                           end in
        match all_digits s5 with
        | Some e => Some (Dec neg m (if eneg then sc + e else sc - e))
        | None => None
        end
      else None
  end.

(* What python's int(text, 10) / float(text) accept beyond the plain number
   grammar, on ASCII: blanks around the number, a leading `+`, single
   underscores between digits ("1_0", " 12 ", "+5"). [clean_num_text] removes
   them, or fails on a misplaced underscore. (Unicode digits / blanks, ".5",
   "5.", "Infinity" are not modelled.) *)
Definition is_blank (c : N) : bool :=
  N.eqb c 32 || N.eqb c 9 || N.eqb c 10 || N.eqb c 13 || N.eqb c 12 || N.eqb c 11.
Definition is_digit (c : N) : bool := N.leb 48 c && N.leb c 57.
Definition c_underscore : N := 95%N.

Fixpoint drop_blanks (s : str) : str :=
  match s with c :: s' => if is_blank c then drop_blanks s' else s | [] => [] end.
Definition strip_blanks (s : str) : str := rev (drop_blanks (rev (drop_blanks s))).

(* prev_digit: the previous character was a digit *)
Fixpoint drop_underscores (s : str) (prev_digit : bool) : option str :=
  match s with
  | [] => Some []
  | c :: s' =>
      if N.eqb c c_underscore then
        match s' with
        | d :: _ => if prev_digit && is_digit d then drop_underscores s' false else None
        | [] => None
        end
      else match drop_underscores s' (is_digit c) with
           | Some r => Some (c :: r)
           | None => None
           end
  end.

Definition clean_num_text (s : str) : option str :=
  match strip_blanks s with
  | c :: s' =>
      if N.eqb c c_plus
      then match s' with                      (* "+5", never "+-5" *)
           | d :: _ => if is_digit d then drop_underscores s' false else None
           | [] => None
           end
      else drop_underscores (c :: s') false
  | [] => None
  end.

Definition dec_of_Z (z : Z) : dec := Dec (z <? 0) (Z.abs z) 0.

(* is the number integral? python float.is_integer / int(f) == f *)
Definition dec_integral (d : dec) : option Z :=
  let sgn (x : Z) := if d_neg d then - x else x in
  if d_scale d <=? 0 then Some (sgn (d_m d * 10 ^ (- d_scale d)))
  else let p := 10 ^ d_scale d in
       if d_m d mod p =? 0 then Some (sgn (d_m d / p)) else None.

Fixpoint strip_trailing_zeros_rev (r : str) : str :=
  match r with
  | c :: r' => if N.eqb c c_zero then strip_trailing_zeros_rev r' else r
  | [] => []
  end.
Fixpoint zeros (n : nat) : str := match n with O => [] | S k => c_zero :: zeros k end.

(* canonical positional text of the number: what the harness prints for a
   Python float (shortest repr expanded without exponent) *)
Definition float_text (d : dec) : str :=
  let sign := if d_neg d then [c_minus] else [] in
  if d_scale d <=? 0
  then sign ++ str_of_nonneg (d_m d * 10 ^ (- d_scale d)) ++ [c_dot; c_zero]
  else
    let p := 10 ^ d_scale d in
    let ip := str_of_nonneg (d_m d / p) in
    let fr := str_of_nonneg (d_m d mod p) in
    let fr := zeros (Z.to_nat (d_scale d) - length fr) ++ fr in
    let fr := rev (strip_trailing_zeros_rev (rev fr)) in
    sign ++ ip ++ [c_dot] ++ (match fr with [] => [c_zero] | _ => fr end).

Definition in_int32 (z : Z) : bool := (-2147483648 <=? z) && (z <=? 2147483647).

(* python float(int) succeeds: the integer rounds to a finite double
   (otherwise OverflowError, a rejection since fix C07-07) *)
Definition float_int_ok (z : Z) : bool := Z.abs z <? 2 ^ 1024 - 2 ^ 970.

(* ------------------------------------------------------- python helpers *)
Fixpoint pset (k : str) (v : pv) (d : list (str * pv)) : list (str * pv) :=
  match d with
  | [] => [(k, v)]
  | (k', v') :: d' => if str_eqb k k' then (k, v) :: d' else (k', v') :: pset k v d'
  end.

(* d = {}; for (k, v) in assignments: d[k] = v *)
Definition mkdict (asg : list (str * pv)) : list (str * pv) :=
  fold_left (fun d kv => pset (fst kv) (snd kv) d) asg [].

(* {k: v for ...}[k]: the last binding wins *)
Definition alookup_last {A} (k : str) (l : list (str * A)) : option A := alookup k (rev l).

Definition is_none (v : pv) : bool := match v with PNone => true | _ => false end.

Fixpoint pv_of_json (j : json) : pv :=
  match j with
  | JNull => PNone
  | JBool b => PBool b
  | JInt z => PInt z
  | JFloat r => PFloat r
  | JStr s => PStr s
  | JList l => PList (map pv_of_json l)
  | JObj kvs => PDict ((fix go (x : list (str * json)) : list (str * pv) :=
                          match x with
                          | [] => []
                          | (k, v) :: x' => (k, pv_of_json v) :: go x'
                          end) kvs)
  end.

Definition find_field (k : str) (fs : list ifield) : option ifield :=
  find (fun f => str_eqb k (f_name f)) fs.
Definition is_field (k : str) (fs : list ifield) : bool :=
  match find_field k fs with Some _ => true | None => false end.

(* ------------------------------------------- scalars: the variable route *)
(* ScalarType.parse(value): ValueError / TypeError of the parser become
   ScalarParsingError, which coerce_value turns into CoercionError. The value
   is never null here. *)
Definition int_range (z : Z) : outcome pv := if in_int32 z then Ok (PInt z) else rejC.

(* the raising user scalar: ScalarType.parse only turns ValueError / TypeError
   into ScalarParsingError; "other exceptions bubble up" (docstring) = Crash *)
Definition CK_user_exception : nat := 7.
Definition odd_value (z : Z) (rej : outcome pv) : outcome pv :=
  if z =? 13 then Crash CK_user_exception else if Z.odd z then Ok (PInt z) else rej.

Definition parse_scalar (k : scalar_kind) (j : json) : outcome pv :=
  match k with
  | KInt =>                                     (* _parse_int -> coerce_int *)
      match j with
      | JInt z => int_range z
      | JFloat r => match dec_of_text r with
                    | Some d => match dec_integral d with Some z => int_range z | None => rejC end
                    | None => rejC
                    end
      | JStr s0 =>                              (* pinned leniency: numeric strings *)
          match clean_num_text s0 with
          | None => rejC
          | Some s =>
              match parse_int_text s with
              | Some z => int_range z
              | None => match dec_of_text s with
                        | Some d => match dec_integral d with Some z => int_range z | None => rejC end
                        | None => rejC
                        end
              end
          end
      | _ => rejC
      end
  | KFloat =>                                   (* _parse_float -> coerce_float *)
      match j with
      | JInt z => if float_int_ok z then Ok (PFloat (float_text (dec_of_Z z))) else rejC
      | JFloat r => match dec_of_text r with    (* inf / nan have no decimal text: refused *)
                    | Some _ => Ok (PFloat r)
                    | None => rejC
                    end
      | JStr s0 => match clean_num_text s0 with (* pinned leniency *)
                   | None => rejC
                   | Some s => match dec_of_text s with
                               | Some d => Ok (PFloat (float_text d))
                               | None => rejC
                               end
                   end
      | _ => rejC
      end
  | KString =>                                  (* _parse_string_input *)
      match j with
      | JStr s => Ok (PStr s)
      | JInt z => Ok (PStr (str_of_Z z))        (* pinned leniency: numbers *)
      | JFloat r => Ok (PStr r)
      | _ => rejC
      end
  | KID =>                                      (* _parse_id *)
      match j with
      | JStr s => Ok (PStr s)
      | JInt z => Ok (PStr (str_of_Z z))
      | _ => rejC
      end
  | KBoolean => match j with JBool b => Ok (PBool b) | _ => rejC end
  | KAny => Ok (pv_of_json j)                   (* _identity *)
  | KTag => match j with
            | JStr (c :: s) => Ok (PStr (c :: s))
            | _ => rejC
            end
  | KOdd => match j with JInt z => odd_value z rejC | _ => rejC end
  end.

(* -------------------------------------------- scalars: the literal route *)
(* value_from_ast only lets Int/Float/String/Boolean nodes through; then
   ScalarType.parse_literal -> _typed_coerce(...): wrong node class is a
   TypeError -> ScalarParsingError (an InvalidValue). *)
Definition int_rangeI (z : Z) : outcome pv := if in_int32 z then Ok (PInt z) else rejI.

Definition parse_literal (k : scalar_kind) (l : value) : outcome pv :=
  match k with
  | KInt => match l with
            | VInt s _ => match parse_int_text s with Some z => int_rangeI z | None => rejI end
            | _ => rejI
            end
  | KFloat => match l with
              | VFloat s _ | VInt s _ =>
                  match dec_of_text s with Some d => Ok (PFloat (float_text d)) | None => rejI end
              | _ => rejI
              end
  | KString => match l with VString s _ _ => Ok (PStr s) | _ => rejI end
  | KID => match l with
           | VString s _ _ => Ok (PStr s)
           | VInt s _ => Ok (PStr s)
           | _ => rejI
           end
  | KBoolean => match l with VBool b _ => Ok (PBool b) | _ => rejI end
  | KAny => match l with                         (* _untyped_literal *)
            | VInt s _ => match parse_int_text s with Some z => Ok (PInt z) | None => rejI end
            | VFloat s _ => match dec_of_text s with Some d => Ok (PFloat (float_text d)) | None => rejI end
            | VString s _ _ => Ok (PStr s)
            | VBool b _ => Ok (PBool b)
            | _ => rejI
            end
  | KTag => match l with
            | VString (c :: s) _ _ => Ok (PStr (c :: s))
            | _ => rejI
            end
  | KOdd => match l with
            | VInt s _ => match parse_int_text s with Some z => odd_value z rejI | None => rejI end
            | _ => rejI
            end
  end.

(* ------------------------------------------------------------ coerce_value *)
(* _coerce_list_value / _coerce_input_object collect CoercionErrors and go
   on; any other exception propagates at once. *)
Fixpoint collect_items (rs : list (outcome pv)) : outcome (list pv) :=
  match rs with
  | [] => Ok []
  | r :: rs' =>
      match r with
      | Ok v => match collect_items rs' with Ok l => Ok (v :: l) | o => o end
      | Rejected _ _ => match collect_items rs' with
                        | Crash c => Crash c
                        | OutOfFuel => OutOfFuel
                        | _ => rejC
                        end
      | OutOfFuel => OutOfFuel
      | Crash c => Crash c
      end
  end.

(* what one declared field / argument contributes: nothing, or a binding *)
Definition absent_field (f : ifield) (rej : outcome (option pv)) : outcome (option pv) :=
  match f_default f with
  | Some d => Ok (Some d)
  | None => if ity_nn (f_ty f) then rej else Ok None
  end.

Definition some_ok (o : outcome pv) : outcome (option pv) :=
  match o with
  | Ok v => Ok (Some v)
  | OutOfFuel => OutOfFuel
  | Rejected k p => Rejected k p
  | Crash c => Crash c
  end.

(* the assignments  coerced[field.python_name] = ...  in field order,
   collecting rejections *)
Fixpoint cv_fields (fs : list ifield) (look : str -> option (ity -> outcome pv))
  : outcome (list (str * pv)) :=
  match fs with
  | [] => Ok []
  | f :: fs' =>
      let r := match look (f_name f) with
               | None => absent_field f rejC
               | Some c => some_ok (c (f_ty f))
               end in
      match r with
      | Ok b => match cv_fields fs' look with
                | Ok l => Ok (match b with Some v => (f_py f, v) :: l | None => l end)
                | o => o
                end
      | Rejected _ _ => match cv_fields fs' look with
                        | Crash c => Crash c
                        | OutOfFuel => OutOfFuel
                        | _ => rejC
                        end
      | OutOfFuel => OutOfFuel
      | Crash c => Crash c
      end
  end.

Definition wrap_list (o : outcome (list pv)) : outcome pv :=
  match o with
  | Ok l => Ok (PList l)
  | OutOfFuel => OutOfFuel
  | Rejected k p => Rejected k p
  | Crash c => Crash c
  end.

Definition wrap_single (o : outcome pv) : outcome pv :=
  match o with Ok v => Ok (PList [v]) | o' => o' end.

Fixpoint coerce_value (s : schema) (j : json) {struct j} : ity -> outcome pv :=
  fix cvt (t : ity) {struct t} : outcome pv :=
    match j with
    | JNull => if ity_nn t then rejC else Ok PNone
    | _ =>
      match t with
      | IList _ t' =>
          match j with
          | JList l => wrap_list (collect_items (map (fun x => coerce_value s x t') l))
          | _ => wrap_single (cvt t')
          end
      | INamed _ n =>
          match alookup n s with
          | None => Crash 1
          | Some TDOutput => Ok PNone                 (* falls through every isinstance *)
          | Some (TDScalar k) => parse_scalar k j
          | Some (TDEnum vals) =>
              match j with
              | JStr nm => match alookup nm vals with Some v => Ok v | None => rejC end
              | _ => rejC
              end
          | Some (TDInput fs) =>
              match j with
              | JObj kvs =>
                  let cl := (fix go (x : list (str * json)) : list (str * (ity -> outcome pv)) :=
                               match x with
                               | [] => []
                               | (k, v) :: x' => (k, coerce_value s v) :: go x'
                               end) kvs in
                  match cv_fields fs (fun k => alookup k cl) with
                  | Ok asg => if forallb (fun kv => is_field (fst kv) fs) kvs
                              then Ok (PDict (mkdict asg)) else rejC
                  | OutOfFuel => OutOfFuel
                  | Rejected k p => Rejected k p
                  | Crash c => Crash c
                  end
              | _ => rejC
              end
          end
      end
    end.

(* ---------------------------------------------------------- value_from_ast *)
Fixpoint seq_items (rs : list (outcome pv)) : outcome (list pv) :=
  match rs with
  | [] => Ok []
  | r :: rs' => match r with
                | Ok v => match seq_items rs' with Ok l => Ok (v :: l) | o => o end
                | OutOfFuel => OutOfFuel
                | Rejected k p => Rejected k p
                | Crash c => Crash c
                end
  end.

(* _extract_input_object: first failure raises *)
Fixpoint vfa_fields (fs : list ifield) (look : str -> option (ity -> outcome pv))
  : outcome (list (str * pv)) :=
  match fs with
  | [] => Ok []
  | f :: fs' =>
      let r := match look (f_name f) with
               | None => absent_field f rejI
               | Some c => some_ok (c (f_ty f))
               end in
      match r with
      | Ok b => match vfa_fields fs' look with
                | Ok l => Ok (match b with Some v => (f_py f, v) :: l | None => l end)
                | o => o
                end
      | OutOfFuel => OutOfFuel
      | Rejected k p => Rejected k p
      | Crash c => Crash c
      end
  end.

(* _extract_variable *)
Definition extract_variable (vs : vars) (x : str) (t : ity) : outcome pv :=
  match alookup x vs with
  | None => rejI                                        (* UnknownVariable *)
  | Some v => if ity_nn t && is_none v then rejI else Ok v
  end.

Fixpoint value_from_ast (s : schema) (vs : vars) (l : value) {struct l} : ity -> outcome pv :=
  fix vt (t : ity) {struct t} : outcome pv :=
    match l with
    | VVar x _ => extract_variable vs (n_val x) t
    | VNull _ => if ity_nn t then rejI else Ok PNone
    | _ =>
      match t with
      | IList _ t' =>
          match l with
          | VList items _ => wrap_list (seq_items (map (fun x => value_from_ast s vs x t') items))
          | _ => wrap_single (vt t')
          end
      | INamed _ n =>
          match alookup n s with
          | None => Crash 1
          | Some TDOutput => Crash 2                    (* TypeError: invalid type for input coercion *)
          | Some (TDInput fs) =>
              match l with
              | VObject lfs _ =>
                  let cl := (fix go (x : list (name * value * loc)) : list (str * (ity -> outcome pv)) :=
                               match x with
                               | [] => []
                               | (nm, v, _) :: x' => (n_val nm, value_from_ast s vs v) :: go x'
                               end) lfs in
                  match vfa_fields fs (fun k => alookup_last k cl) with
                  | Ok asg => Ok (PDict (mkdict asg))
                  | OutOfFuel => OutOfFuel
                  | Rejected k p => Rejected k p
                  | Crash c => Crash c
                  end
              | _ => rejI
              end
          | Some (TDEnum vals) =>
              match l with
              | VEnum nm _ => match alookup nm vals with Some v => Ok v | None => rejI end
              | _ => rejI
              end
          | Some (TDScalar k) => parse_literal k l
          end
      end
    end.

(* ------------------------------------------------- coerce_argument_values *)
(* values = {a.name.value: a for a in node.arguments} *)
Definition arg_lookup (call : list argument) (k : str) : option value :=
  alookup_last k (map (fun a => (n_val (a_name a), a_val a)) call).

Definition arg_binding (s : schema) (vs : vars) (call : list argument) (d : ifield)
  : outcome (option pv) :=
  match arg_lookup call (f_name d) with
  | None => absent_field d rejC
  | Some (VVar x _) =>
      match alookup (n_val x) vs with
      | Some v => if ity_nn (f_ty d) && is_none v then rejC else Ok (Some v)   (* fix C07-03 *)
      | None => absent_field d rejC
      end
  | Some l =>
      match value_from_ast s vs l (f_ty d) with
      | Ok v => Ok (Some v)
      | Rejected _ _ => rejC                               (* InvalidValue -> CoercionError *)
      | OutOfFuel => OutOfFuel
      | Crash c => Crash c
      end
  end.

Fixpoint arg_bindings (s : schema) (vs : vars) (call : list argument) (defs : list ifield)
  : outcome (list (str * pv)) :=
  match defs with
  | [] => Ok []
  | d :: defs' =>
      match arg_binding s vs call d with
      | Ok b => match arg_bindings s vs call defs' with
                | Ok l => Ok (match b with Some v => (f_py d, v) :: l | None => l end)
                | o => o
                end
      | OutOfFuel => OutOfFuel
      | Rejected k p => Rejected k p
      | Crash c => Crash c
      end
  end.

Definition coerce_argument_values (s : schema) (defs : list ifield) (call : list argument)
           (vs : vars) : outcome (list (str * pv)) :=
  match arg_bindings s vs call defs with
  | Ok asg => Ok (mkdict asg)
  | o => o
  end.

(* ------------------------------------------------- coerce_variable_values *)
Fixpoint ity_of_ty_nn (nn : bool) (t : ty) : ity :=
  match t with
  | TNamed n _ => INamed nn (n_val n)
  | TList t' _ => IList nn (ity_of_ty_nn false t')
  | TNonNull t' _ => ity_of_ty_nn true t'
  end.
Definition ity_of_ty (t : ty) : ity := ity_of_ty_nn false t.

Fixpoint ity_name (t : ity) : str :=
  match t with INamed _ n => n | IList _ t' => ity_name t' end.

Definition is_input_def (d : tdef) : bool :=
  match d with TDOutput => false | _ => true end.

Definition var_binding (s : schema) (raw : list (str * json)) (vd : var_def)
  : outcome (option pv) :=
  let t := ity_of_ty (vd_type vd) in
  match alookup (ity_name t) s with
  | None => rejV                                        (* UnknownType *)
  | Some d =>
      if negb (is_input_def d) then rejV else
      match alookup (n_val (vd_var vd)) raw with
      | None =>
          match vd_default vd with
          | Some dl => match value_from_ast s [] dl t with
                       | Ok v => Ok (Some v)
                       | Rejected _ _ => rejV
                       | OutOfFuel => OutOfFuel
                       | Crash c => Crash c
                       end
          | None => if ity_nn t then rejV else Ok None
          end
      | Some j =>
          match coerce_value s j t with
          | Ok v => Ok (Some v)
          | Rejected _ _ => rejV
          | OutOfFuel => OutOfFuel
          | Crash c => Crash c
          end
      end
  end.

(* errors are collected over all definitions; other exceptions propagate *)
Fixpoint var_bindings (s : schema) (raw : list (str * json)) (vds : list var_def)
  : outcome (list (str * pv)) :=
  match vds with
  | [] => Ok []
  | vd :: vds' =>
      match var_binding s raw vd with
      | Ok b => match var_bindings s raw vds' with
                | Ok l => Ok (match b with Some v => (n_val (vd_var vd), v) :: l | None => l end)
                | o => o
                end
      | Rejected _ _ => match var_bindings s raw vds' with
                        | Crash c => Crash c
                        | OutOfFuel => OutOfFuel
                        | _ => rejV
                        end
      | OutOfFuel => OutOfFuel
      | Crash c => Crash c
      end
  end.

Definition coerce_variable_values (s : schema) (vds : list var_def) (raw : list (str * json))
  : outcome vars :=
  match var_bindings s raw vds with
  | Ok asg => Ok (mkdict asg)
  | o => o
  end.

(* --------------------------------------- what the resolver of a field gets *)
(* execute(): coerce_variable_values, then per field
   ResolutionContext.argument_values = coerce_argument_values(field, node, vars) *)
Definition exec_kwargs (s : schema) (defs : list ifield) (vds : list var_def)
           (call : list argument) (raw : list (str * json)) : outcome (list (str * pv)) :=
  match coerce_variable_values s vds raw with
  | Ok vs => coerce_argument_values s defs call vs
  | OutOfFuel => OutOfFuel
  | Rejected k p => Rejected k p
  | Crash c => Crash c
  end.

(* ------------------------------------------------------ directive arguments *)
(* utilities/coerce_value.py directive_arguments: find_one(node.directives,
   name == definition.name), then coerce_argument_values on that directive
   node; None when the directive is not on the node. *)
Fixpoint find_directive (dname : str) (ds : list directive) : option directive :=
  match ds with
  | [] => None
  | d :: ds' => if str_eqb (n_val (d_name d)) dname then Some d else find_directive dname ds'
  end.

Definition directive_arguments (s : schema) (defs : list ifield) (dname : str)
           (ds : list directive) (vs : vars) : outcome (option (list (str * pv))) :=
  match find_directive dname ds with
  | None => Ok None
  | Some d =>
      match coerce_argument_values s defs (d_args d) vs with
      | Ok kw => Ok (Some kw)
      | OutOfFuel => OutOfFuel
      | Rejected k p => Rejected k p
      | Crash c => Crash c
      end
  end.

(* schema/directives.py: @skip(if: Boolean!) and @include(if: Boolean!) *)
Definition str_if : str := str_of_string "if"%string.
Definition if_arg : ifield :=
  IField str_if str_if (INamed true (str_of_string "Boolean"%string)) None.

(* skip["if"] / include["if"] *)
Definition if_value (kw : list (str * pv)) : outcome bool :=
  match alookup str_if kw with Some v => Ok (truthy v) | None => Crash 3 end.

(* utilities/collect_fields.py _skip_selection, through the general argument
   coercion: both directives are coerced first, then combined *)
Definition skip_selection_args (s : schema) (ds : list directive) (vs : vars) : outcome bool :=
  match directive_arguments s [if_arg] (str_of_string "skip"%string) ds vs with
  | Ok sk =>
      match directive_arguments s [if_arg] (str_of_string "include"%string) ds vs with
      | Ok inc =>
          match (match sk with Some kw => if_value kw | None => Ok false end),
                (match inc with Some kw => if_value kw | None => Ok true end) with
          | Ok skipped, Ok included => Ok (skipped || negb included)
          | Ok _, o => o
          | o, _ => o
          end
      | OutOfFuel => OutOfFuel
      | Rejected k p => Rejected k p
      | Crash c => Crash c
      end
  | OutOfFuel => OutOfFuel
  | Rejected k p => Rejected k p
  | Crash c => Crash c
  end.

(* what a resolver (info.get_directive_arguments) or _skip_selection gets for a
   directive of the request: variables coerced first, then the directive node *)
Definition exec_directive_args (s : schema) (defs : list ifield) (vds : list var_def)
           (dname : str) (ds : list directive) (raw : list (str * json))
  : outcome (option (list (str * pv))) :=
  match coerce_variable_values s vds raw with
  | Ok vs => directive_arguments s defs dname ds vs
  | OutOfFuel => OutOfFuel
  | Rejected k p => Rejected k p
  | Crash c => Crash c
  end.
