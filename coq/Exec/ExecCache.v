(* The executor with its memo tables as explicit state.

   Stands for the tables the code keeps:
     Schema._possible_types, Schema._literal_types_cache   (live as long as
        the Schema object: shared by all requests it serves)
     ResolutionContext._grouped_fields, _field_defs, _argument_values
        (created empty by every execution)
   ResolutionContext._resolver_cache memoises wrapping of resolver callables
   and has no counterpart here (resolvers are the [world] function).

   Python keys these dicts by objects whose hash is their identity (AST nodes,
   Field objects); a hit therefore needs the very same object. Equality of
   such keys enters as the parameters [sels_eqb] / [argkey_eqb] -- any test
   that only answers true on equal keys (identity is one, "never" another).

   Every function is the one of Exec/ExecModel.v in state-passing style:
   [M A = cache -> outcome A * cache]; the cache is returned also when the
   call fails (a crashed request leaves its entries in the Schema object).
   The functions of Exec/Collect.v take the fragment-type test as a pure
   function, so a collect_fields call reads the tables as they are when it
   starts (computing on a miss) and the entries it would add are added
   afterwards ([warm]): for every type condition in the selections and in
   the document's fragments -- a superset of what the code adds, which is
   harmless because entries are only ever added with the value the schema
   determines. *)
From PyGql Require Export Exec.ExecModel.

Fixpoint ty_eqb (a b : ty) : bool :=
  match a, b with
  | TNamed n l, TNamed n' l' =>
      str_eqb (n_val n) (n_val n') &&
      match n_loc n, n_loc n' with
      | None, None => true
      | Some (x, y), Some (x', y') => Nat.eqb x x' && Nat.eqb y y'
      | _, _ => false
      end &&
      match l, l' with
      | None, None => true
      | Some (x, y), Some (x', y') => Nat.eqb x x' && Nat.eqb y y'
      | _, _ => false
      end
  | TList t l, TList t' l' | TNonNull t l, TNonNull t' l' =>
      ty_eqb t t' &&
      match l, l' with
      | None, None => true
      | Some (x, y), Some (x', y') => Nat.eqb x x' && Nat.eqb y y'
      | _, _ => false
      end
  | _, _ => false
  end.

Record cache := Cache {
  c_possible : list (str * list str);                         (* abstract type -> possible object types *)
  c_literal : list (ty * tref);                               (* AST type node -> type *)
  c_grouped : list ((str * list selection) * groups);         (* (parent type, selections) -> grouped fields *)
  c_fielddefs : list ((str * str) * option (fkind * fdef));   (* (parent type, field name) -> definition *)
  c_args : list ((fdef * selection) * list (str * pv)) }.     (* (field definition, node) -> coerced arguments *)

Definition empty_cache : cache := Cache [] [] [] [] [].

(* ResolutionContext.__init__: fresh per-execution tables, the Schema's stay *)
Definition new_execution (c : cache) : cache := Cache (c_possible c) (c_literal c) [] [] [].

Definition M (A : Type) : Type := cache -> outcome A * cache.
Definition mret {A} (a : A) : M A := fun c => (Ok a, c).
Definition mlift {A} (o : outcome A) : M A := fun c => (o, c).
Definition mbind {A B} (m : M A) (f : A -> M B) : M B :=
  fun c => match m c with
           | (Ok a, c') => f a c'
           | (OutOfFuel, c') => (OutOfFuel, c')
           | (Rejected k p, c') => (Rejected k p, c')
           | (Crash k, c') => (Crash k, c')
           end.

Notation "'dom' x <- e ; f" := (mbind e (fun x => f))
  (at level 200, x pattern, e at level 100, f at level 200, right associativity).

Fixpoint lit_lookup (t : ty) (l : list (ty * tref)) : option tref :=
  match l with
  | [] => None
  | (t', r) :: l' => if ty_eqb t t' then Some r else lit_lookup t l'
  end.

Fixpoint klookup {K V} (eqb : K -> K -> bool) (k : K) (l : list (K * V)) : option V :=
  match l with
  | [] => None
  | (k', v) :: l' => if eqb k k' then Some v else klookup eqb k l'
  end.

Definition pair_str_eqb (a b : str * str) : bool := str_eqb (fst a) (fst b) && str_eqb (snd a) (snd b).

(* all type conditions of inline fragments in a selection list (not
   descending into fields) *)
Fixpoint sel_conds (x : selection) : list ty :=
  match x with
  | SInline tc _ _ sub _ =>
      (match tc with Some t => [t] | None => [] end) ++ flat_map sel_conds sub
  | _ => []
  end.

Section Cached.
  Variable sch : schema.
  Variable frags : frag_table.
  Variable vs : vars.
  Variable coerce_args : fdef -> selection -> outcome (list (str * pv)).
  Variable world : world_t.
  Variable tyres : str -> option (pv -> tyname_res).
  Variable cfuel : nat.
  Variable sels_eqb : list selection -> list selection -> bool.
  Variable argkey_eqb : fdef * selection -> fdef * selection -> bool.

  (* Schema.get_possible_types *)
  Definition possible_types_c (abstract : str) (c : cache) : option (list str) * cache :=
    match alookup abstract (c_possible c) with
    | Some ps => (Some ps, c)
    | None =>
        match possible_types sch abstract with
        | Some ps => (Some ps, Cache ((abstract, ps) :: c_possible c) (c_literal c)
                                     (c_grouped c) (c_fielddefs c) (c_args c))
        | None => (None, c)
        end
    end.

  Definition add_literal (t : ty) (r : tref) (c : cache) : cache :=
    Cache (c_possible c) ((t, r) :: c_literal c) (c_grouped c) (c_fielddefs c) (c_args c).

  (* Schema.get_type_from_literal; None = UnknownType *)
  Fixpoint type_from_literal_c (t : ty) (c : cache) : option tref * cache :=
    match lit_lookup t (c_literal c) with
    | Some r => (Some r, c)
    | None =>
        match t with
        | TNamed n _ =>
            match get_type sch (n_val n) with
            | Some _ => (Some (RNamed (n_val n)), add_literal t (RNamed (n_val n)) c)
            | None => (None, c)
            end
        | TList t' _ =>
            match type_from_literal_c t' c with
            | (Some r, c') => (Some (RList r), add_literal t (RList r) c')
            | (None, c') => (None, c')
            end
        | TNonNull t' _ =>
            match type_from_literal_c t' c with
            | (Some r, c') => (Some (RNonNull r), add_literal t (RNonNull r) c')
            | (None, c') => (None, c')
            end
        end
    end.

  (* _fragment_type_applies *)
  Definition applies_c (tname : str) (tc : option ty) (c : cache) : bool * cache :=
    match tc with
    | None => (true, c)
    | Some t =>
        match type_from_literal_c t c with
        | (Some (RNamed n), c1) =>
            if str_eqb n tname then (true, c1)
            else if is_abstract sch n then
              match possible_types_c n c1 with
              | (Some ps, c2) => (is_object sch tname && mem_str tname ps, c2)
              | (None, c2) => (false, c2)
              end
            else (false, c1)
        | (_, c1) => (false, c1)
        end
    end.

  Definition warm (tname : str) (sels : list selection) (c : cache) : cache :=
    fold_left (fun c t => snd (applies_c tname (Some t) c))
              (flat_map sel_conds sels ++ map (fun kv => fst (snd kv)) frags) c.

  (* ResolutionContext.collect_fields *)
  Definition collect_for_c (tname : str) (sels : list selection) : M groups :=
    fun c =>
      match klookup (fun a b => str_eqb (fst a) (fst b) && sels_eqb (snd a) (snd b))
                    (tname, sels) (c_grouped c) with
      | Some g => (Ok g, c)
      | None =>
          let o := collect (fun tc => fst (applies_c tname tc c)) frags vs true cfuel sels in
          let c1 := warm tname sels c in
          match o with
          | Ok g => (Ok g, Cache (c_possible c1) (c_literal c1) (((tname, sels), g) :: c_grouped c1)
                                 (c_fielddefs c1) (c_args c1))
          | other => (other, c1)
          end
      end.

  (* ResolutionContext.field_definition *)
  Definition field_definition_c (tname name : str) : M (option (fkind * fdef)) :=
    fun c =>
      match klookup pair_str_eqb (tname, name) (c_fielddefs c) with
      | Some r => (Ok r, c)
      | None =>
          match field_definition sch tname name with
          | Ok r => (Ok r, Cache (c_possible c) (c_literal c) (c_grouped c)
                                 (((tname, name), r) :: c_fielddefs c) (c_args c))
          | other => (other, c)
          end
      end.

  (* ResolutionContext.argument_values *)
  Definition argument_values_c (fd : fdef) (node : selection) : M (list (str * pv)) :=
    fun c =>
      match klookup argkey_eqb (fd, node) (c_args c) with
      | Some a => (Ok a, c)
      | None =>
          match coerce_args fd node with
          | Ok a => (Ok a, Cache (c_possible c) (c_literal c) (c_grouped c) (c_fielddefs c)
                                 (((fd, node), a) :: c_args c))
          | other => (other, c)
          end
      end.

  (* Executor.resolve_type: is_possible_type goes through the table *)
  Definition resolve_type_c (abstract : str) (v : pv) : M str :=
    fun c =>
      let maybe := match tyres abstract with Some f => f v | None => default_typename v end in
      let named := match maybe with
                   | TRNone => Some (py_type_name v)
                   | TRName n => Some n
                   | TRBad => None
                   end in
      match named with
      | None => (Crash CRASH_RUNTIME, c)
      | Some n =>
          match get_type sch n with
          | None => (Crash CRASH_UNKNOWN_TYPE, c)
          | Some (TObject _ _) =>
              match possible_types_c abstract c with
              | (Some ps, c') => (if mem_str n ps then Ok n else Crash CRASH_RUNTIME, c')
              | (None, c') => (Crash CRASH_TYPEERROR, c')
              end
          | Some _ => (Crash CRASH_RUNTIME, c)
          end
      end.

  Section Level.
    Variable sub_exec : str -> pv -> path -> list selection -> M (pv * list error).

    Fixpoint complete_items_c (f : path -> pv -> M (pv * list error)) (p : path) (i : N) (items : list pv)
      : M (list pv * list error) :=
      match items with
      | [] => mret ([], [])
      | x :: items' =>
          dom r <- f (p ++ [PIdx i]) x;
          dom rest <- complete_items_c f p (N.succ i) items';
          mret (fst r :: fst rest, snd r ++ snd rest)
      end.

    Definition complete_named_c (nodes : list selection) (n : str) (p : path) (v : pv) : M (pv * list error) :=
      match get_type sch n with
      | None => mlift (Crash CRASH_BADSCHEMA)
      | Some (TScalar k) => mlift (of_ser (serialize_scalar k v))
      | Some (TEnum vals) =>
          mlift (if hashable v then of_ser (enum_get_name vals v) else Crash CRASH_TYPEERROR)
      | Some (TObject _ _) => sub_exec n v p (children_of nodes)
      | Some (TInterface _) | Some (TUnion _) =>
          dom rt <- resolve_type_c n v;
          sub_exec rt v p (children_of nodes)
      | Some TInputObject => mlift (Crash CRASH_TYPEERROR)
      end.

    Fixpoint complete_value_c (nodes : list selection) (t : tref) (p : path) (v : pv) {struct t}
      : M (pv * list error) :=
      match t with
      | RNonNull t' =>
          dom r <- complete_value_c nodes t' p v;
          match fst r with
          | PNone => mret (PNone, snd r ++ [Err p (map sel_loc nodes) ENonNull])
          | _ => mret r
          end
      | RList t' =>
          match v with
          | PNone => mret (PNone, [])
          | _ =>
              match iter_items v with
              | None => mlift (Crash CRASH_RUNTIME)
              | Some items =>
                  dom r <- complete_items_c (complete_value_c nodes t') p 0%N items;
                  mret (PList (fst r), snd r)
              end
          end
      | RNamed n =>
          match v with
          | PNone => mret (PNone, [])
          | _ => complete_named_c nodes n p v
          end
      end.

    (* the try/except around complete_value in resolve_field (see
       complete_field in Exec/ExecModel.v); the errors recorded before the
       abort are recomputed with the tables as they are afterwards -- the code
       does not recompute anything, they are simply still in _errors *)
    Definition complete_field_c (nodes : list selection) (t : tref) (p : path) (v : pv) : M (pv * list error) :=
      fun c =>
        match complete_value_c nodes t p v c with
        | (Rejected k q, c') =>
            if Nat.eqb k REJ_COERCION
            then (Ok (PNone, complete_value_partial sch tyres (fun tn x q' ss => fst (sub_exec tn x q' ss c'))
                                                    nodes t p v ++ [Err p [] ECoercion]), c')
            else (Rejected k q, c')
        | o => o
        end.

    Definition resolve_field_c (tname : str) (parent : pv) (k : fkind) (fd : fdef)
               (nodes : list selection) (p : path) : M (pv * list error) :=
      match nodes with
      | [] => mlift (Crash CRASH_BADSCHEMA)
      | node :: _ =>
          fun c =>
            match argument_values_c fd node c with
            | (Rejected _ _, c') => (Ok (PNone, [Err p [sel_loc node] ECoercion]), c')
            | (OutOfFuel, c') => (OutOfFuel, c')
            | (Crash x, c') => (Crash x, c')
            | (Ok args, c') =>
                match k with
                | FIntrospection => (Crash CRASH_UNMODELLED, c')
                | FTypename => complete_field_c nodes (f_type fd) p (PStr tname) c'
                | FUser =>
                    match world p parent tname (f_name fd) args with
                    | RVal v => complete_field_c nodes (f_type fd) p v c'
                    | RDefault => complete_field_c nodes (f_type fd) p (default_resolve parent (f_pyname fd)) c'
                    | RErr m x => (Ok (PNone, [Err p [sel_loc node] (EResolver m x)]), c')
                    | RExn => (Crash CRASH_RESOLVER, c')
                    end
                end
            end
      end.

    Fixpoint exec_groups_c (tname : str) (parent : pv) (p : path) (g : groups)
      : M (list (str * pv) * list error) :=
      match g with
      | [] => mret ([], [])
      | (key, nodes) :: g' =>
          match nodes with
          | [] => mlift (Crash CRASH_BADSCHEMA)
          | node :: _ =>
              dom fdo <- field_definition_c tname (sel_name node);
              match fdo with
              | None => exec_groups_c tname parent p g'
              | Some (k, fd) =>
                  dom r <- resolve_field_c tname parent k fd nodes (p ++ [PKey key]);
                  dom rest <- exec_groups_c tname parent p g';
                  mret ((key, fst r) :: fst rest, snd r ++ snd rest)
              end
          end
      end.
  End Level.

  Fixpoint exec_sel_c (fuel : nat) (tname : str) (v : pv) (p : path) (sels : list selection)
    : M (pv * list error) :=
    match fuel with
    | O => mlift OutOfFuel
    | S fuel' =>
        dom g <- collect_for_c tname sels;
        dom r <- exec_groups_c (exec_sel_c fuel') tname v p g;
        mret (PDict (fst r), snd r)
    end.
End Cached.

(* one request served by a Schema object whose tables are [c] *)
Definition execute_c (sch : schema) (coerce_args : vars -> fdef -> selection -> outcome (list (str * pv)))
           (world : world_t) (tyres : str -> option (pv -> tyname_res))
           (sels_eqb : list selection -> list selection -> bool)
           (argkey_eqb : fdef * selection -> fdef * selection -> bool)
           (cfuel fuel : nat)
           (d : document) (opname : option str) (vs : vars) (root : pv) (c : cache)
  : result * cache :=
  match get_operation d opname with
  | Ok (k, sels) =>
      let root_type := match k with
                       | OpQuery => s_query sch
                       | OpMutation => s_mutation sch
                       | OpSubscription => s_subscription sch
                       end in
      match root_type with
      | None => (Rejected REJ_OPERATION 0, c)
      | Some rt =>
          match k with
          | OpSubscription => (Crash CRASH_RUNTIME, c)
          | _ => exec_sel_c sch (frag_table_of (doc_defs d)) vs (coerce_args vs) world tyres cfuel
                            sels_eqb argkey_eqb fuel rt root [] sels (new_execution c)
          end
      end
  | OutOfFuel => (OutOfFuel, c)
  | Rejected k p => (Rejected k p, c)
  | Crash k => (Crash k, c)
  end.
