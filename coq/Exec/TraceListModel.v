(* C16 -- a timing model of value completion in the generic Executor
   (execution/executor.py after commit 60b475c): complete_value on objects,
   complete_list_value with items whose completion fails, the field-level
   handler of resolve_field.complete.

   Time is the position in the run at which something happens: a deferred
   resolver started at time s is done at s + 1 + delay(path) for an ARBITRARY
   delay function -- quantifying over it is quantifying over all completion
   orders (every consistent assignment of completion times arises this way;
   nothing completes inside submit). What is computed for a value completed at
   time e under path p:
     c_fail     the deferred value fails (ResolverError / CoercionError)
     c_time     when it is delivered to whoever waits for it
     c_started  the fields started underneath, with the time their
                on_field_end hook fires
     c_errs     the paths at which an error is recorded
   No proofs here. *)
From Coq Require Import List NArith Arith Bool.
Import ListNotations.
From PyGql Require Import Spec.TraceSpec.

Inductive lval :=
| LLeaf                                  (* scalar / enum / null: completed at once *)
| LBad                                   (* completing it raises at once: resolve_type raises, invalid
                                            @skip/@include arguments in its sub-selection *)
| LObj (fs : lfields)                    (* an object: execute_fields over the sub-selection *)
| LList (nested : bool) (its : lvals)    (* a list; [nested]: what complete_list_value computes from the
                                            TYPE: the item type is a list after unwrapping NonNull *)
with lfields := LFNil | LFCons (key : N) (dfr : bool) (v : lval) (fs : lfields)
with lvals := LVNil | LVCons (v : lval) (vs : lvals).

Record cres := mkC { c_fail : bool; c_time : nat; c_started : list (path * nat); c_errs : list path }.
Record fres := mkF { f_time : nat; f_started : list (path * nat); f_errs : list path }.

Definition list_max (e : nat) (l : list nat) : nat := fold_right Nat.max e l.
Definition list_min (e : nat) (l : list nat) : nat := match l with [] => e | x :: r => fold_right Nat.min x r end.

(* runtime.gather_values + the `_finish` continuation of complete_list_value.
   rs: the items appended before the loop ended; brk: the item whose completion
   raised synchronously (failure = err; break), if any *)
Definition finish_list (e : nat) (nested : bool) (rs : list cres) (brk : option cres) : cres :=
  let failing := filter c_fail rs in
  (* nested: every item went through map_value(item, identity, else_=_FailedItem): none fails *)
  let g_fail := negb nested && existsb c_fail rs in
  let g_time := if g_fail then list_min e (map c_time failing)       (* gather fails fast *)
                else list_max e (map c_time rs) in
  mkC (existsb c_fail rs || match brk with Some _ => true | None => false end)
      g_time
      (flat_map c_started rs ++ match brk with Some r => c_started r | None => [] end)
      (flat_map c_errs rs ++ match brk with Some r => c_errs r | None => [] end).

Section Completion.
  Variable delay : path -> nat.

  Fixpoint complete (e : nat) (p : path) (v : lval) {struct v} : cres :=
    match v with
    | LLeaf => mkC false e [] []
    | LBad => mkC true e [] []
    | LObj fs =>
        (* execute_fields: every field is started now; fields never fail (their errors are recorded);
           gather_values, then _collect *)
        let r := fields e p fs in mkC false (Nat.max e (f_time r)) (f_started r) (f_errs r)
    | LList nested its =>
        let '(rs, brk) := items e p 0%N its in finish_list e nested rs brk
    end
  with fields (e : nat) (p : path) (fs : lfields) {struct fs} : fres :=
    match fs with
    | LFNil => mkF e [] []
    | LFCons k dfr v rest =>
        let q := p ++ [k] in
        (* resolve_field: on_field_start now; the resolver's value is there -- and `complete` fires
           on_field_end -- now, or later when it is deferred *)
        let fe := if dfr then e + S (delay q) else e in
        let r := complete fe q v in
        (* complete: try complete_value except (CoercionError, ResolverError): add_error once, None;
           the else_ handler does the same for a failure that arrives later *)
        let rr := fields e p rest in
        mkF (Nat.max (c_time r) (f_time rr))
            ((q, fe) :: c_started r ++ f_started rr)
            ((if c_fail r then [q] else []) ++ c_errs r ++ f_errs rr)
    end
  (* the loop of complete_list_value from item i on *)
  with items (e : nat) (p : path) (i : N) (its : lvals) {struct its} : list cres * option cres :=
    match its with
    | LVNil => ([], None)
    | LVCons v rest =>
        let r := complete e (p ++ [i]) v in
        if c_fail r && Nat.eqb (c_time r) e
        then ([], Some r)                                  (* raised synchronously: failure = err; break *)
        else let '(rs, brk) := items e p (N.succ i) rest in (r :: rs, brk)
    end.

  (* a whole operation: the root fields start at time 0; on_execution_end fires
     when the root value is delivered *)
  Definition operation (fs : lfields) : cres := complete 0 [] (LObj fs).
End Completion.

(* the [nested] flags are the ones the types give: the items of a list that is
   not nested are not lists *)
Definition not_list (v : lval) : Prop := match v with LList _ _ => False | _ => True end.
Fixpoint wf (v : lval) : Prop :=
  match v with
  | LLeaf | LBad => True
  | LObj fs => wf_fields fs
  | LList nested its => wf_items nested its
  end
with wf_fields (fs : lfields) : Prop :=
  match fs with LFNil => True | LFCons _ _ v rest => wf v /\ wf_fields rest end
with wf_items (nested : bool) (its : lvals) : Prop :=
  match its with
  | LVNil => True
  | LVCons v rest => (nested = false -> not_list v) /\ wf v /\ wf_items nested rest
  end.
