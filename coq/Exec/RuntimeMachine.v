(* Layer 2 of the C08/C09 model: the generic Executor of
   src/py_gql/execution/executor.py (resolve_field, execute_fields,
   execute_fields_serially, complete_value, complete_list_value,
   complete_non_nullable_value, _handle_non_nullable_value) and the entry point
   execution/execute.py, over *deferred values* of an arbitrary runtime.

   What a runtime's deferred value is (a concurrent.futures.Future built by
   chain / gather_futures / unwrap_future, or an awaitable built by
   AsyncIORuntime.map_value / gather_values / unwrap_value) is abstracted to a
   term

       Val v | Exn x | Task t more | Bind d k | Gather ds

   [Bind d k] stands for unwrap_value (map_value d k) with the continuation
   [k] defunctionalised; that the future combinators implement exactly this
   (callback level, every interleaving) is layer 1 (Exec/RuntimeFutures.v,
   theorems C08_chain / C08_unwrap / C08_gather).

   Programs are *behaviour trees* (see harness/sched_prog.py): the tree of
   resolver invocations of an operation with the world (what each resolver
   does) folded in. [defer = Some (n, e)] : the resolver call is handed to the
   runtime (pool task / coroutine) and yields its result after n further
   levels of nested deferred values; the first e of these n+1 submitted calls
   complete before [submit] returns (a worker faster than the submitting
   thread: the executor then chains on futures that are already done), the
   others when the schedule says so; [None] : it runs synchronously inside
   resolve_field. Keys and list indices are numbers; a path is the list of
   keys/indices from the root (ResolveInfo.path). A task is named by the path
   of its resolver call and its nesting level, so no fresh-id supply is
   needed. Proofs are in Proofs/RuntimeMachineProofs.v. *)
From Coq Require Import List NArith ZArith Bool Arith.
Import ListNotations.

Definition path := list N.
Definition tid := (path * nat)%type.

Inductive fld := Fld (key : N) (defer : option (nat * nat)) (nn : bool) (b : body)
with body :=
| BInt (z : Z)                       (* resolver returns an int (field type Int) *)
| BNull                              (* resolver returns None *)
| BErr                               (* resolver raises ResolverError *)
| BExn (x : N)                       (* resolver raises RuntimeError tagged x *)
| BObj (fs : flds)                   (* resolver returns an object; sub-selection fs *)
| BList (inn : bool) (its : items)   (* resolver returns a list; inn: item type is non-null *)
with flds := FNil | FCons (f : fld) (fs : flds)
with items := INil | ICons (it : item) (its : items)
with item := ItNull | ItInt (z : Z) | ItObj (fs : flds).

Inductive prog := Prog (mutation : bool) (fs : flds).

Inductive val := VNull | VInt (z : Z) | VList (l : list val) | VObj (kvs : list (N * val)).

Inductive ekind := EResolver | ENonNull | EOther.
(* one append-only log for resolver events and the executor's error list *)
Inductive entry := LInvoke (t : tid) | LFinish (t : tid) | LErr (p : path) (k : ekind).

(* defunctionalised continuations *)
Inductive K :=
| KComplete (f : fld) (p : path)                       (* resolve_field: complete / fail of field f at path p *)
| KCollect (keys : list N)                             (* execute_fields._collect *)
| KNonNull (p : path)                                  (* lambda r: _handle_non_nullable_value(nodes, path, r) *)
| KSerial (k : N) (acc : list (N * val)) (rest : flds) (* execute_fields_serially: cb of key k, resolved_fields, args *)
| KFinish.                                             (* execute._on_finish *)

Inductive D :=
| Val (v : val)                 (* plain value / completed deferred value *)
| Exn (x : N)                   (* failed deferred value *)
| Task (t : tid) (more : nat)   (* a submitted resolver call; [more] further nesting levels *)
| Bind (d : D) (k : K)
| Gather (ds : list D).

Record mstate := MkSt {
  pending : list tid;      (* submitted and not yet completed *)
  log : list entry;        (* events and errors so far *)
  orphans : list D;        (* computations nobody waits for any more (after a failure) *)
  raised : list N          (* unexpected exceptions raised so far *)
}.

Inductive sres := SOk (d : D) | SRaise (x : N).      (* synchronous phase: value or raise *)
Inductive fres := FOk (ds : list D) | FRaise (x : N).

Definition key_of (f : fld) : N := match f with Fld k _ _ _ => k end.
Fixpoint keys_of (fs : flds) : list N :=
  match fs with FNil => [] | FCons f r => key_of f :: keys_of r end.

Definition emit (e : entry) (st : mstate) : mstate :=
  MkSt (pending st) (log st ++ [e]) (orphans st) (raised st).
Definition add_pending (t : tid) (st : mstate) : mstate :=
  MkSt (pending st ++ [t]) (log st) (orphans st) (raised st).
Definition add_raised (x : N) (st : mstate) : mstate :=
  MkSt (pending st) (log st) (orphans st) (raised st ++ [x]).
Definition is_done (d : D) : bool := match d with Val _ | Exn _ => true | _ => false end.
Definition add_orphan (d : D) (st : mstate) : mstate :=
  if is_done d then st else MkSt (pending st) (log st) (orphans st ++ [d]) (raised st).
Definition add_orphans (ds : list D) (st : mstate) : mstate := fold_left (fun s d => add_orphan d s) ds st.

Fixpoint all_vals (ds : list D) : option (list val) :=
  match ds with
  | [] => Some []
  | Val v :: r => match all_vals r with Some vs => Some (v :: vs) | None => None end
  | _ :: _ => None
  end.
Fixpoint first_exn (ds : list D) : option N :=
  match ds with [] => None | Exn x :: _ => Some x | _ :: r => first_exn r end.

Definition is_null (v : val) : bool := match v with VNull => true | _ => false end.
Definition list_of (v : val) : list val := match v with VList l => l | _ => [] end.

(* gather: a source that has already failed wins at once (first in source order:
   the callbacks are registered in that order), the other sources keep running
   unobserved; later, the first failure in completion order; all done: the list
   in source order *)
Definition gather_norm (ds : list D) (st : mstate) : D * mstate :=
  match first_exn ds with
  | Some x => (Exn x, add_orphans ds st)
  | None => match all_vals ds with Some vs => (Val (VList vs), st) | None => (Gather ds, st) end
  end.
(* runtime.gather_values called in the synchronous phase *)
Definition gather_sync (ds : list D) (st : mstate) : D * mstate := gather_norm ds st.
(* map_value (gather_values pending) _collect *)
Definition collect_sync (keys : list N) (ds : list D) (st : mstate) : D * mstate :=
  let '(g, st1) := gather_norm ds st in
  match g with
  | Val v => (Val (VObj (combine keys (list_of v))), st1)
  | Exn x => (Exn x, st1)
  | _ => (Bind g (KCollect keys), st1)
  end.
(* complete_non_nullable_value: map_value (complete_value inner) handle *)
Definition nonnull_wrap (nn : bool) (p : path) (r : sres * mstate) : sres * mstate :=
  if nn then
    match r with
    | (SOk (Val v), st) => (SOk (Val v), if is_null v then emit (LErr p ENonNull) st else st)
    | (SOk (Exn x), st) => (SOk (Exn x), st)          (* chained on a failed future: fails *)
    | (SOk d, st) => (SOk (Bind d (KNonNull p)), st)
    | (SRaise x, st) => (SRaise x, st)
    end
  else r.

Definition next_tid (t : tid) : tid := (fst t, S (snd t)).

(* submission of a resolver call with [more] further levels, the first [e]
   submitted calls completing before submit returns: Some (t, m) = the call that
   stays parked, None = the final result is already there *)
Fixpoint run_eager (t : tid) (more e : nat) (st : mstate) {struct e} : option (tid * nat) * mstate :=
  match e with
  | O => (Some (t, more), add_pending t (emit (LInvoke t) st))
  | S e' =>
      let st1 := emit (LFinish t) (emit (LInvoke t) st) in
      match more with
      | O => (None, st1)
      | S m => run_eager (next_tid t) m e' st1
      end
  end.
(* a continuation that runs inside a done-callback: what it raises fails the chained future *)
Definition capture (r : sres * mstate) : sres * mstate :=
  match r with (SRaise x, st) => (SOk (Exn x), st) | _ => r end.

(* ---- the synchronous phase: what runs inside one call of resolve_field ---- *)
Fixpoint resolve_field (p : path) (f : fld) (st : mstate) {struct f} : sres * mstate :=
  match f with
  | Fld k dfr nn b =>
    let p' := p ++ [k] in
    match dfr with
    | Some (n, e) =>   (* wrapped resolver: runtime.submit; unwrap (map (unwrap future) complete fail) *)
        match run_eager (p', O) n e st with
        | (Some (t, m), st1) => (SOk (Bind (Task t m) (KComplete f p')), st1)
        | (None, st1) => capture (complete_field nn b p' st1)   (* already done: complete / fail run now *)
        end
    | None =>     (* the resolver runs here *)
        complete_field nn b p' (emit (LFinish (p', O)) (emit (LInvoke (p', O)) st))
    end
  end
(* the resolver's outcome reaches resolve_field.complete / fail; complete_value *)
with complete_field (nn : bool) (b : body) (p : path) (st : mstate) {struct b} : sres * mstate :=
  match b with
  | BErr => (SOk (Val VNull), emit (LErr p EResolver) st)       (* fail: add_error, None *)
  | BExn x => (SRaise x, add_raised x st)                       (* not a ResolverError: propagates *)
  | BNull => (SOk (Val VNull), if nn then emit (LErr p ENonNull) st else st)
  | BInt z => (SOk (Val (VInt z)), st)
  | BObj fs =>
      nonnull_wrap nn p
        (match start_fields p fs st with
         | (FOk ds, st1) => let '(d, st2) := collect_sync (keys_of fs) ds st1 in (SOk d, st2)
         | (FRaise x, st1) => (SRaise x, st1)
         end)
  | BList inn its =>
      nonnull_wrap nn p
        (match start_items inn p 0%N its st with
         | (FOk ds, st1) => let '(d, st2) := gather_sync ds st1 in (SOk d, st2)
         | (FRaise x, st1) => (SRaise x, st1)
         end)
  end
(* the loop of execute_fields; a raise leaves the fields already started running unobserved *)
with start_fields (p : path) (fs : flds) (st : mstate) {struct fs} : fres * mstate :=
  match fs with
  | FNil => (FOk [], st)
  | FCons f fs' =>
      match resolve_field p f st with
      | (SRaise x, st1) => (FRaise x, st1)
      | (SOk d, st1) =>
          match start_fields p fs' st1 with
          | (FOk ds, st2) => (FOk (d :: ds), st2)
          | (FRaise x, st2) => (FRaise x, add_orphan d st2)
          end
      end
  end
(* the generator consumed by gather_values in complete_list_value *)
with start_items (inn : bool) (p : path) (i : N) (its : items) (st : mstate) {struct its} : fres * mstate :=
  match its with
  | INil => (FOk [], st)
  | ICons it its' =>
      match complete_item inn it (p ++ [i]) st with
      | (SRaise x, st1) => (FRaise x, st1)
      | (SOk d, st1) =>
          match start_items inn p (N.succ i) its' st1 with
          | (FOk ds, st2) => (FOk (d :: ds), st2)
          | (FRaise x, st2) => (FRaise x, add_orphan d st2)
          end
      end
  end
with complete_item (inn : bool) (it : item) (p : path) (st : mstate) {struct it} : sres * mstate :=
  match it with
  | ItNull => (SOk (Val VNull), if inn then emit (LErr p ENonNull) st else st)
  | ItInt z => (SOk (Val (VInt z)), st)
  | ItObj fs =>
      nonnull_wrap inn p
        (match start_fields p fs st with
         | (FOk ds, st1) => let '(d, st2) := collect_sync (keys_of fs) ds st1 in (SOk d, st2)
         | (FRaise x, st1) => (SRaise x, st1)
         end)
  end.

(* execute_fields_serially._next with resolved_fields = acc, args = rest *)
Fixpoint serial_next (acc : list (N * val)) (rest : flds) (st : mstate) : sres * mstate :=
  match rest with
  | FNil => (SOk (Val (VObj acc)), st)
  | FCons f rest' =>
      match resolve_field [] f st with
      | (SOk (Val v), st1) => serial_next (acc ++ [(key_of f, v)]) rest' st1   (* map_value on a plain value: cb now *)
      | (SOk (Exn x), st1) => (SOk (Exn x), st1)                              (* chained on a failed future *)
      | (SOk d, st1) => (SOk (Bind d (KSerial (key_of f) acc rest')), st1)
      | (SRaise x, st1) => (SRaise x, st1)
      end
  end.

Definition lift (r : sres * mstate) : D * mstate :=
  match r with (SOk d, st) => (d, st) | (SRaise x, st) => (Exn x, st) end.

(* a continuation receives the value of the deferred value it was chained on *)
Definition apply_k (k : K) (v : val) (st : mstate) : D * mstate :=
  match k with
  | KComplete (Fld _ _ nn b) p => lift (complete_field nn b p st)
  | KCollect keys => (Val (VObj (combine keys (list_of v))), st)
  | KNonNull p => (Val v, if is_null v then emit (LErr p ENonNull) st else st)
  | KSerial k acc rest => lift (serial_next (acc ++ [(k, v)]) rest st)
  | KFinish => (Val v, st)
  end.

Definition path_eqb (a b : path) : bool :=
  (fix go a b := match a, b with
                 | [], [] => true
                 | x :: a', y :: b' => N.eqb x y && go a' b'
                 | _, _ => false
                 end) a b.
Definition tid_eqb (a b : tid) : bool := path_eqb (fst a) (fst b) && Nat.eqb (snd a) (snd b).

Fixpoint remove_tid (t : tid) (l : list tid) : list tid :=
  match l with [] => [] | x :: r => if tid_eqb t x then r else x :: remove_tid t r end.
Definition mem_tid (t : tid) (l : list tid) : bool := existsb (tid_eqb t) l.

(* completion of task t delivered to the term d: the continuations chained on
   it run, up to the next deferred value *)
Fixpoint fire (t : tid) (d : D) (st : mstate) {struct d} : D * mstate :=
  match d with
  | Val _ | Exn _ => (d, st)
  | Task t' more =>
      if tid_eqb t t' then
        match more with
        | O => (Val VNull, MkSt (remove_tid t (pending st)) (log st ++ [LFinish t]) (orphans st) (raised st))
        | S n => (Task (next_tid t) n,
                  MkSt (remove_tid t (pending st) ++ [next_tid t])
                       (log st ++ [LFinish t; LInvoke (next_tid t)]) (orphans st) (raised st))
        end
      else (d, st)
  | Bind d1 k =>
      let '(d1', st1) := fire t d1 st in
      match d1' with
      | Val v => apply_k k v st1
      | Exn x => (Exn x, st1)
      | _ => (Bind d1' k, st1)
      end
  | Gather ds =>
      let '(ds', st1) :=
        (fix go (ds : list D) (st : mstate) : list D * mstate :=
           match ds with
           | [] => ([], st)
           | d :: r => let '(d', s1) := fire t d st in
                       let '(r', s2) := go r s1 in (d' :: r', s2)
           end) ds st in
      gather_norm ds' st1
  end.

Fixpoint fire_list (t : tid) (ds : list D) (st : mstate) : list D * mstate :=
  match ds with
  | [] => ([], st)
  | d :: r => let '(d', s1) := fire t d st in
              let '(r', s2) := fire_list t r s1 in (d' :: r', s2)
  end.

Record state := MkState { term : D; ms : mstate }.

Definition st0 : mstate := MkSt [] [] [] [].

(* execute(): query -> execute_fields, mutation -> execute_fields_serially; then _on_finish *)
Definition start (pr : prog) : state :=
  match pr with
  | Prog mut fs =>
      let r := if mut then serial_next [] fs st0
               else match start_fields [] fs st0 with
                    | (FOk ds, st1) => let '(d, st2) := collect_sync (keys_of fs) ds st1 in (SOk d, st2)
                    | (FRaise x, st1) => (SRaise x, st1)
                    end in
      match r with
      | (SOk (Val v), st) => MkState (Val v) st
      | (SOk (Exn x), st) => MkState (Exn x) st
      | (SOk d, st) => MkState (Bind d KFinish) st
      | (SRaise x, st) => MkState (Exn x) st
      end
  end.

(* one completion; None when t is not pending (inadmissible schedule) *)
Definition step (s : state) (t : tid) : option state :=
  if mem_tid t (pending (ms s)) then
    let os := orphans (ms s) in
    let st := MkSt (pending (ms s)) (log (ms s)) [] (raised (ms s)) in
    let '(d', st1) := fire t (term s) st in
    let '(os', st2) := fire_list t os st1 in
    Some (MkState d' (MkSt (pending st2) (log st2)
                           (filter (fun d => negb (is_done d)) os' ++ orphans st2) (raised st2)))
  else None.

Fixpoint run_from (s : state) (sigma : list tid) : option state :=
  match sigma with
  | [] => Some s
  | t :: r => match step s t with Some s' => run_from s' r | None => None end
  end.
Definition run (sigma : list tid) (pr : prog) : option state := run_from (start pr) sigma.

Definition terminal (s : state) : Prop := is_done (term s) = true /\ orphans (ms s) = [].

(* ---- the blocking result: depth-first evaluation (BlockingExecutor), pure ---- *)
Fixpoint task_log (t : tid) (more : nat) : list entry :=
  match more with
  | O => [LFinish t]
  | S n => LFinish t :: LInvoke (next_tid t) :: task_log (next_tid t) n
  end.

Fixpoint bs_field (p : path) (f : fld) {struct f} : option val * list entry :=
  match f with
  | Fld k dfr nn b =>
      let p' := p ++ [k] in
      let pre := match dfr with
                 | None => [LInvoke (p', O); LFinish (p', O)]
                 | Some (n, _) => LInvoke (p', O) :: task_log (p', O) n
                 end in
      let '(r, es) := bs_complete nn b p' in (r, pre ++ es)
  end
with bs_complete (nn : bool) (b : body) (p : path) {struct b} : option val * list entry :=
  match b with
  | BErr => (Some VNull, [LErr p EResolver])
  | BExn x => (None, [])
  | BNull => (Some VNull, if nn then [LErr p ENonNull] else [])
  | BInt z => (Some (VInt z), [])
  | BObj fs => let '(r, es) := bs_fields p fs in (option_map VObj r, es)
  | BList inn its => let '(r, es) := bs_items inn p 0%N its in (option_map VList r, es)
  end
with bs_fields (p : path) (fs : flds) {struct fs} : option (list (N * val)) * list entry :=
  match fs with
  | FNil => (Some [], [])
  | FCons f fs' =>
      let '(r, es) := bs_field p f in
      match r with
      | None => (None, es)
      | Some v => let '(r', es') := bs_fields p fs' in
                  (option_map (cons (key_of f, v)) r', es ++ es')
      end
  end
with bs_items (inn : bool) (p : path) (i : N) (its : items) {struct its} : option (list val) * list entry :=
  match its with
  | INil => (Some [], [])
  | ICons it its' =>
      let '(r, es) := bs_item inn it (p ++ [i]) in
      match r with
      | None => (None, es)
      | Some v => let '(r', es') := bs_items inn p (N.succ i) its' in
                  (option_map (cons v) r', es ++ es')
      end
  end
with bs_item (inn : bool) (it : item) (p : path) {struct it} : option val * list entry :=
  match it with
  | ItNull => (Some VNull, if inn then [LErr p ENonNull] else [])
  | ItInt z => (Some (VInt z), [])
  | ItObj fs => let '(r, es) := bs_fields p fs in (option_map VObj r, es)
  end.

Definition bs_prog (pr : prog) : option val * list entry :=
  match pr with Prog _ fs => let '(r, es) := bs_fields [] fs in (option_map VObj r, es) end.

(* the exceptions a program can raise *)
Fixpoint exn_tags (f : fld) : list N :=
  match f with Fld _ _ _ b => exn_tags_b b end
with exn_tags_b (b : body) : list N :=
  match b with
  | BExn x => [x]
  | BObj fs => exn_tags_fs fs
  | BList _ its => exn_tags_its its
  | _ => []
  end
with exn_tags_fs (fs : flds) : list N :=
  match fs with FNil => [] | FCons f r => exn_tags f ++ exn_tags_fs r end
with exn_tags_its (its : items) : list N :=
  match its with
  | INil => []
  | ICons it r => (match it with ItObj fs => exn_tags_fs fs | _ => [] end) ++ exn_tags_its r
  end.

(* resolvers that run under the blocking configurations: nothing is deferred *)
Fixpoint erase (f : fld) : fld :=
  match f with Fld k _ nn b => Fld k None nn (erase_b b) end
with erase_b (b : body) : body :=
  match b with
  | BObj fs => BObj (erase_fs fs)
  | BList inn its => BList inn (erase_its its)
  | _ => b
  end
with erase_fs (fs : flds) : flds :=
  match fs with FNil => FNil | FCons f r => FCons (erase f) (erase_fs r) end
with erase_its (its : items) : items :=
  match its with
  | INil => INil
  | ICons it r => ICons (match it with ItObj fs => ItObj (erase_fs fs) | _ => it end) (erase_its r)
  end.
Definition erase_prog (pr : prog) : prog := match pr with Prog m fs => Prog m (erase_fs fs) end.

Definition errs_of (l : list entry) : list entry :=
  filter (fun e => match e with LErr _ _ => true | _ => false end) l.
Definition events_of (l : list entry) : list entry :=
  filter (fun e => match e with LErr _ _ => false | _ => true end) l.
