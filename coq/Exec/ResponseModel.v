(* Model of the response side of the top-level entry points:

     py_gql/_graphql.py      process_graphql_query (stage order, _abort, the
                             two except clauses), graphql, graphql_blocking
     py_gql/exc.py           to_dict of GraphQLSyntaxError, GraphQLLocatedError
                             (ValidationError, VariableCoercionError,
                             CoercionError), ResolverError, ExecutionError
     py_gql/execution/wrappers.py   GraphQLResult (data/_UNSET, errors), response()
     py_gql/schema/scalars.py       coerce_float (Float.serialize / Float.parse)

   The executor itself is not modelled here (C04): the outcome of each stage is
   an input.  Message texts are opaque strings carried through. *)
From PyGql Require Import Base.Str Lang.LocModel.
From Coq Require Export ZArith.

(* ------------------------------------------------------------------ JSON *)
(* Python floats: the finite ones by their repr text, and the three
   non-finite values (which strict JSON cannot express). *)
Inductive jnum := NFinite (repr : str) | NNan | NPosInf | NNegInf.

Inductive json :=
| JNull
| JBool (b : bool)
| JInt (z : Z)
| JNum (n : jnum)
| JStr (s : str)
| JArr (l : list json)
| JObj (kvs : list (str * json)).      (* ordered, as Python dicts are *)

Definition jnum_eqb (a b : jnum) : bool :=
  match a, b with
  | NFinite x, NFinite y => str_eqb x y
  | NNan, NNan | NPosInf, NPosInf | NNegInf, NNegInf => true
  | _, _ => false
  end.

Fixpoint json_eqb (a b : json) : bool :=
  match a, b with
  | JNull, JNull => true
  | JBool x, JBool y => Bool.eqb x y
  | JInt x, JInt y => Z.eqb x y
  | JNum x, JNum y => jnum_eqb x y
  | JStr x, JStr y => str_eqb x y
  | JArr x, JArr y =>
      (fix go (x y : list json) : bool :=
         match x, y with
         | [], [] => true
         | a :: x', b :: y' => json_eqb a b && go x' y'
         | _, _ => false
         end) x y
  | JObj x, JObj y =>
      (fix go (x y : list (str * json)) : bool :=
         match x, y with
         | [], [] => true
         | (k, a) :: x', (k', b) :: y' => str_eqb k k' && json_eqb a b && go x' y'
         | _, _ => false
         end) x y
  | _, _ => false
  end.

Definition is_finite (n : jnum) : bool := match n with NFinite _ => true | _ => false end.

(* json.dumps(..., allow_nan=False) accepts the tree: every number is finite
   (keys are strings by construction of [json]). *)
Fixpoint strict_json (j : json) : bool :=
  match j with
  | JNum n => is_finite n
  | JArr l => (fix go (l : list json) : bool :=
                 match l with [] => true | a :: l' => strict_json a && go l' end) l
  | JObj kvs => (fix go (l : list (str * json)) : bool :=
                 match l with [] => true | (_, a) :: l' => strict_json a && go l' end) kvs
  | _ => true
  end.

(* keys of the response format *)
Definition k_message := str_of_string "message"%string.
Definition k_locations := str_of_string "locations"%string.
Definition k_path := str_of_string "path"%string.
Definition k_extensions := str_of_string "extensions"%string.
Definition k_line := str_of_string "line"%string.
Definition k_column := str_of_string "column"%string.
Definition k_columne := str_of_string "columne"%string.   (* sic: exc.py GraphQLSyntaxError.to_dict *)
Definition k_errors := str_of_string "errors"%string.
Definition k_data := str_of_string "data"%string.

(* ------------------------------------------------------------- errors *)
Inductive pseg := PKey (k : str) | PIdx (i : nat).
Definition path := list pseg.

Definition pseg_json (p : pseg) : json :=
  match p with PKey k => JStr k | PIdx i => JInt (Z.of_nat i) end.

(* what to_dict reads of an AST node: node.loc (start, end) and whether
   node.source is a non-empty string.  The parser attaches the request text
   itself as source, so locations are computed against [doc]. *)
Record node_ref := NodeRef { nr_loc : option (nat * nat); nr_has_source : bool }.

Inductive gql_error :=
| ESyntax (msg : str) (position : nat)                       (* GraphQLSyntaxError family *)
| ELocated (msg : str) (nodes : list node_ref) (pth : option path)
                                                             (* GraphQLLocatedError without extensions *)
| EResolver (msg : str) (nodes : list node_ref) (pth : option path)
            (ext : option (list (str * json)))               (* ResolverError *)
| EExecution (msg : str).                                    (* ExecutionError family *)

Definition loc_json (colkey : str) (lc : nat * nat) : json :=
  JObj [(k_line, JInt (Z.of_nat (fst lc))); (colkey, JInt (Z.of_nat (snd lc)))].

(* [index_to_loc(node.source, node.loc[0]) for node in nodes if node.loc and node.source] *)
Fixpoint locations_of (doc : str) (nodes : list node_ref) : outcome (list json) :=
  match nodes with
  | [] => Ok []
  | n :: r =>
      match nr_loc n, nr_has_source n with
      | Some (st, _), true =>
          do lc <- index_to_loc doc st;
          do rest <- locations_of doc r;
          Ok (loc_json k_column lc :: rest)
      | _, _ => locations_of doc r
      end
  end.

(* GraphQLLocatedError.to_dict: message always; "locations" and "path" only
   when truthy (non-empty). *)
Definition located_to_dict (doc msg : str) (nodes : list node_ref) (pth : option path)
  : outcome (list (str * json)) :=
  do locs <- locations_of doc nodes;
  Ok ([(k_message, JStr msg)]
        ++ (match locs with [] => [] | _ => [(k_locations, JArr locs)] end)
        ++ (match pth with
            | Some (sg :: r) => [(k_path, JArr (map pseg_json (sg :: r)))]
            | _ => []
            end)).

Definition to_dict (doc : str) (e : gql_error) : outcome json :=
  match e with
  | ESyntax msg position =>
      (* position clamped to the text (truncated escapes report len+1) *)
      do lc <- index_to_loc doc (Nat.min position (length doc));
      Ok (JObj [(k_message, JStr msg); (k_locations, JArr [loc_json k_columne lc])])
  | ELocated msg nodes pth =>
      do d <- located_to_dict doc msg nodes pth; Ok (JObj d)
  | EResolver msg nodes pth ext =>
      do d <- located_to_dict doc msg nodes pth;
      Ok (JObj (d ++ match ext with
                     | Some (kv :: r) => [(k_extensions, JObj (kv :: r))]
                     | _ => []
                     end))
  | EExecution msg => Ok (JObj [(k_message, JStr msg)])
  end.

Fixpoint map_outcome {A B} (f : A -> outcome B) (l : list A) : outcome (list B) :=
  match l with
  | [] => Ok []
  | x :: r => do y <- f x; do ys <- map_outcome f r; Ok (y :: ys)
  end.

(* ------------------------------------------------ GraphQLResult.response *)
(* data = None stands for the _UNSET sentinel *)
Record gql_result := Result { r_data : option json; r_errors : list gql_error }.

Definition response (doc : str) (r : gql_result) : outcome json :=
  do errs <- map_outcome (to_dict doc) (r_errors r);
  Ok (JObj ((match errs with [] => [] | _ => [(k_errors, JArr errs)] end)
              ++ (match r_data r with Some d => [(k_data, d)] | None => [] end))).

(* -------------------------------------------------- scalars.coerce_float *)
(* [py_float] stands for Python's float(x) on whatever the resolver returned
   (float, int, numeric string); coerce_float rejects non-finite results
   (ValueError -> ScalarSerializationError -> RuntimeError in the executor,
   VariableCoercionError for variables). *)
Definition reject_ValueError : nat := 7.
Definition coerce_float {A} (py_float : A -> jnum) (x : A) : outcome jnum :=
  let f := py_float x in
  if is_finite f then Ok f else Rejected reject_ValueError 0.

(* ------------------------------------------- process_graphql_query stages *)
(* The verdict of every stage, as observed/assumed independently:
     st_parse        Some (message, position) when parse(document) raises
     st_validation   errors of validate_ast (empty = valid)
     st_opselect     Some message when get_operation_with_type raises
     st_varcoercion  errors of coerce_variable_values (empty = ok)
     st_rootcoercion the CoercionError of collecting the root fields (invalid
                     @skip / @include arguments on the root selection set, e.g. a
                     nullable variable with a default supplied as null): execute()
                     collects them before the execution stage starts (empty = ok)
     st_float_returns  the values resolvers returned for Float-typed fields
     st_exec         (data, errors) of the executor on success *)
Record stages := Stages {
  st_parse : option (str * nat);
  st_validation : list gql_error;
  st_opselect : option str;
  st_varcoercion : list gql_error;
  st_rootcoercion : list gql_error;
  st_float_returns : list jnum;
  st_exec : json * list gql_error }.

Definition crash_RuntimeError : nat := 2.

Definition failed_early_pre (st : stages) : bool :=
  match st_parse st, st_validation st with
  | Some _, _ => true
  | None, _ :: _ => true
  | None, [] => false
  end.

Definition process (st : stages) : outcome gql_result :=
  match st_parse st with
  | Some (msg, pos) => Ok (Result None [ESyntax msg pos])           (* _abort(errors=[err]) *)
  | None =>
  match st_validation st with
  | _ :: _ => Ok (Result None (st_validation st))                    (* _abort(errors=...) *)
  | [] =>
  match st_opselect st with
  | Some msg => Ok (Result (Some JNull) [EExecution msg])            (* except ExecutionError *)
  | None =>
  match st_varcoercion st with
  | _ :: _ => Ok (Result (Some JNull) (st_varcoercion st))           (* except VariablesCoercionError *)
  | [] =>
  match st_rootcoercion st with
  | _ :: _ => Ok (Result (Some JNull) (st_rootcoercion st))          (* except CoercionError *)
  | [] =>
      if forallb (fun f => match coerce_float (fun x => x) f with Ok _ => true | _ => false end)
                 (st_float_returns st)
      then Ok (Result (Some (fst (st_exec st))) (snd (st_exec st)))
      else Crash crash_RuntimeError
  end end end end end.

(* the request was aborted after validation and before any field was
   executed: _abort(data=None, errors=...) *)
Definition aborted_before_execution (st : stages) : bool :=
  negb (failed_early_pre st) &&
  (match st_opselect st with Some _ => true | None => false end ||
   match st_varcoercion st with _ :: _ => true | [] => false end ||
   match st_rootcoercion st with _ :: _ => true | [] => false end).

Definition failed_early (st : stages) : bool := failed_early_pre st.

Definition pipeline_model (doc : str) (st : stages) : outcome json :=
  do r <- process st; response doc r.
