(* C16 -- two homomorphisms on event words that turn the trace of a request
   seen by ONE instrumentation and NO middleware into the trace seen by k
   stacked instrumentations and n middlewares, and a resolver failure into an
   argument-coercion failure. No proofs here. *)
From Coq Require Import List NArith Arith Bool.
Import ListNotations.
From PyGql Require Import Spec.TraceSpec.

Definition node_at (ns : list node) (p : path) : option node :=
  find (fun nd => if path_eq_dec (nd_path nd) p then true else false) ns.

Section Lift.
  Variables (k n : nat) (aw : bool) (ns : list node).

  (* the resolver of the field at p is deferred by the runtime and the
     middlewares do not wait for its value: they return at submission *)
  Definition submit_at (p : path) : bool :=
    match node_at ns p with Some nd => nd_def nd && negb aw | None => false end.
  Definition out_at (p : path) : fout :=
    match node_at ns p with Some nd => nd_out nd | None => OVal end.

  Definition lift (e : event) : list event :=
    match e with
    (* MultiInstrumentation: starts 0..k-1, ends k-1..0 *)
    | StageStart s _ => map (StageStart s) (seq 0 k)
    | StageEnd s _ => map (StageEnd s) (rev (seq 0 k))
    | FieldStart _ p =>
        (* on_field_start of every instrumentation, then the call enters the
           middlewares (not when argument coercion failed); sync middlewares
           around a deferred resolver are left again as soon as it is submitted *)
        starts k p ++ mws (out_at p) (enters n p ++ (if submit_at p then exits n p else []))
    | Invoke p => [Invoke p]
    | Return p => Return p :: (if submit_at p then [] else exits n p)
    | Raise p => Raise p :: (if submit_at p then [] else exits n p)
    | FieldEnd _ p => ends k p
    | MwEnter _ _ | MwExit _ _ => []
    end.
End Lift.

(* An argument-coercion failure looks to the executor like a resolver that
   failed at once (field null, one error, nothing submitted) -- except that
   neither the resolver nor any middleware is ever entered. *)
Definition keep (marked : path -> bool) (e : event) : bool :=
  match e with
  | Invoke p | Raise p | MwEnter _ p | MwExit _ p => negb (marked p)
  | _ => true
  end.
Definition erase (marked : path -> bool) (t : list event) : list event := filter (keep marked) t.
Definition remark (marked : path -> bool) (nd : node) : node :=
  if marked (nd_path nd) then mkNode (nd_path nd) OArgErr (nd_def nd) (nd_parent nd) else nd.
