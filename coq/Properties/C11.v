(* C11 -- schemas built from SDL contain exactly what the SDL declares.

   Model: Schema/SdlBuild.v (build_model).  Spec: Spec/SdlSpec.v (declared,
   sdl_rules_ok).  Proofs: Proofs/SdlProofs.v.  Statements only. *)
From Coq Require Import Sorting.Permutation.
From PyGql Require Import Run.Driver Schema.SdlBuild Spec.SdlSpec Proofs.SdlProofs Proofs.SdlWitnesses
     Proofs.SdlExactProofs Proofs.SdlOrderProofs Proofs.SdlOrderRulesProofs.

(* ---- full-strength statements (kept visible) -------------------------- *)

(* every document that satisfies the rules builds, and the result is the
   declared schema *)
Definition C11_exact_full : Prop :=
  forall doc, sdl_rules_ok doc ->
    exists sc, build_model (BOpts false []) doc = Ok sc /\ schema_equiv sc (declared doc) = true.

(* documents that break the rules are rejected with a library error *)
Definition C11_reject_full : Prop :=
  forall doc, ~ sdl_rules_ok doc ->
    exists k p, build_model (BOpts false []) doc = Rejected k p /\ lib_kind k.

(* any permutation of the definitions that keeps the relative order of the
   extensions of each target gives an equivalent schema *)
Definition C11_order_full : Prop :=
  forall ds ds' l l' sc,
    Permutation ds ds' ->
    (forall n, exts_for n ds = exts_for n ds') ->
    schema_exts ds = schema_exts ds' ->
    build_model (BOpts false []) (Doc ds l) = Ok sc ->
    exists sc', build_model (BOpts false []) (Doc ds' l') = Ok sc' /\ schema_equiv sc sc' = true.

(* ---- C11_exact is false for the faithful model: two open findings ------ *)

(* default values are coerced against the un-extended types *)
Theorem C11_exact_refuted :
  exists doc, sdl_rules_ok doc /\ build_model (BOpts false []) doc = Rejected K_VALUE 0.
Proof. exists doc_default_vs_extension; split; vm_compute; reflexivity. Qed.
Print Assumptions C11_exact_refuted.

(* an object-literal default inside the input type it belongs to never terminates *)
Theorem C11_exact_refuted_divergence :
  exists doc, sdl_rules_ok doc /\ build_model (BOpts false []) doc = OutOfFuel.
Proof. exists doc_self_cycle_default; split; vm_compute; reflexivity. Qed.
Print Assumptions C11_exact_refuted_divergence.

(* ---- proved ----------------------------------------------------------- *)

(* C11_exact for every document outside the two findings.  The guard
   [defaults_stable] (Spec/SdlSpec.v) is exactly their complement: every
   default value coerces at build time -- eagerly, against the types as they
   are before extensions are applied -- to what coercion at its declared type
   gives.  The builder then returns the declared schema itself (same types in
   the same order), which is in particular schema_equiv to it. *)
Theorem C11_exact_partial : forall doc,
  sdl_rules_ok doc -> defaults_stable doc ->
  exists sc, build_model (BOpts false []) doc = Ok sc /\ schema_equiv sc (declared doc) = true.
Proof. exact exact_equiv. Qed.
Print Assumptions C11_exact_partial.

Theorem C11_exact_build : forall doc,
  sdl_rules_ok doc -> defaults_stable doc -> build_model (BOpts false []) doc = Ok (declared doc).
Proof. exact exact_build_rules. Qed.
Print Assumptions C11_exact_build.

(* C11_order for arbitrary permutations.  The declared schema does not depend
   on the order of the definitions: any permutation that keeps, for every
   target, the sequence of its extensions (and the sequence of schema
   extensions) declares an equivalent schema ... *)
Theorem C11_order_declared : forall doc doc',
  Permutation (doc_defs doc) (doc_defs doc') ->
  (forall n, exts_for n (doc_defs doc) = exts_for n (doc_defs doc')) ->
  schema_exts (doc_defs doc) = schema_exts (doc_defs doc') ->
  r_unique_types doc = true -> r_unique_directives doc = true -> r_one_schema doc = true ->
  schema_equiv (declared doc) (declared doc') = true.
Proof. exact declared_order. Qed.
Print Assumptions C11_order_declared.

(* the rules and the guard are themselves invariant under such permutations
   (validate_schema does not depend on the order of the types; every lookup by
   name finds the same definition because names are unique) ... *)
Theorem C11_order_rules : forall doc doc',
  Permutation (doc_defs doc) (doc_defs doc') ->
  (forall n, exts_for n (doc_defs doc) = exts_for n (doc_defs doc')) ->
  schema_exts (doc_defs doc) = schema_exts (doc_defs doc') ->
  sdl_rules_ok doc -> sdl_rules_ok doc'.
Proof. exact rules_order. Qed.
Print Assumptions C11_order_rules.

Theorem C11_order_guard : forall doc doc',
  Permutation (doc_defs doc) (doc_defs doc') ->
  (forall n, exts_for n (doc_defs doc) = exts_for n (doc_defs doc')) ->
  r_unique_types doc = true ->
  defaults_stable doc -> defaults_stable doc'.
Proof. exact stable_order. Qed.
Print Assumptions C11_order_guard.

(* ... so what the builder returns does not depend on the order either:
   nothing is assumed of the second document *)
Theorem C11_order_build : forall doc doc',
  Permutation (doc_defs doc) (doc_defs doc') ->
  (forall n, exts_for n (doc_defs doc) = exts_for n (doc_defs doc')) ->
  schema_exts (doc_defs doc) = schema_exts (doc_defs doc') ->
  sdl_rules_ok doc -> defaults_stable doc ->
  sdl_rules_ok doc' /\ defaults_stable doc'
  /\ exists sc sc', build_model (BOpts false []) doc = Ok sc /\ build_model (BOpts false []) doc' = Ok sc'
                    /\ schema_equiv sc sc' = true.
Proof. exact order_build_full. Qed.
Print Assumptions C11_order_build.

(* C11_reject for the rules _collect_definitions enforces: a duplicate type
   name, a duplicate directive name or a second schema definition is rejected
   with SDLError, whatever else the document contains and whatever the flags *)
Theorem C11_reject_duplicates : forall o doc,
  r_unique_types doc = false \/ r_unique_directives doc = false \/ r_one_schema doc = false ->
  build_model o doc = Rejected K_SDL 0.
Proof. exact reject_duplicates. Qed.
Print Assumptions C11_reject_duplicates.

(* whatever the document, flags and supplied types, the builder never fails
   with an unrelated exception: it answers, runs out of fuel (the divergence
   above), or rejects with SDLError / ExtensionError / SchemaError /
   InvalidValue / CoercionError *)
Theorem C11_reject_partial : forall fuel o doc, safe (build_model_fuel fuel o doc).
Proof. exact build_model_safe. Qed.
Print Assumptions C11_reject_partial.

(* ignore_extensions=True is building the document without its extension
   nodes, with or without the flag *)
Theorem C11_ignore_extensions : forall add doc,
  build_model (BOpts true add) doc = build_model (BOpts false add) (strip_extensions doc)
  /\ build_model (BOpts true add) doc = build_model (BOpts true add) (strip_extensions doc).
Proof. exact ignore_extensions_strip. Qed.
Print Assumptions C11_ignore_extensions.

(* extensions may stand anywhere among the definitions (before or after their
   target): two documents with the same sequence of definitions and the same
   sequence of extensions build the same schema *)
Theorem C11_order_partial : forall o ds ds' l l',
  filter non_ext ds = filter non_ext ds' ->
  filter is_extension ds = filter is_extension ds' ->
  build_model o (Doc ds l) = build_model o (Doc ds' l').
Proof. exact order_of_extensions_irrelevant. Qed.
Print Assumptions C11_order_partial.

(* extensions are merged into their target in document order: the extended
   type is the old one with, appended in the order of the extensions, exactly
   what each extension declares *)
Theorem C11_merge_object : forall fuel K E exts n d is_ fs dirs t',
  extend_tdef fuel K E exts (TObject n d is_ fs dirs) = Ok t' ->
  exists new_fields,
    omap (build_field fuel K E) (flat_map ext_fields exts) = Ok new_fields
    /\ t' = TObject n d (is_ ++ map ty_name (flat_map ext_ifaces exts)) (fs ++ new_fields)
                    (dirs ++ flat_map ext_dirs exts).
Proof. exact extend_object_merges. Qed.
Print Assumptions C11_merge_object.

Theorem C11_merge_interface : forall fuel K E exts n d fs dirs t',
  extend_tdef fuel K E exts (TInterface n d fs dirs) = Ok t' ->
  exists new_fields,
    omap (build_field fuel K E) (flat_map ext_fields exts) = Ok new_fields
    /\ t' = TInterface n d (fs ++ new_fields) (dirs ++ flat_map ext_dirs exts).
Proof. exact extend_interface_merges. Qed.
Print Assumptions C11_merge_interface.

Theorem C11_merge_enum : forall fuel K E exts n d vs dirs t',
  extend_tdef fuel K E exts (TEnum n d vs dirs) = Ok t' ->
  exists new_values,
    omap build_enum_value (flat_map ext_values exts) = Ok new_values
    /\ t' = TEnum n d (vs ++ new_values) (dirs ++ flat_map ext_dirs exts).
Proof. exact extend_enum_merges. Qed.
Print Assumptions C11_merge_enum.

Theorem C11_merge_input : forall fuel K E exts n d fs dirs t',
  extend_tdef fuel K E exts (TInput n d fs dirs) = Ok t' ->
  exists new_fields,
    omap (build_ivalue fuel K E) (flat_map ext_ifields exts) = Ok new_fields
    /\ t' = TInput n d (fs ++ new_fields) (dirs ++ flat_map ext_dirs exts).
Proof. exact extend_input_merges. Qed.
Print Assumptions C11_merge_input.

Theorem C11_merge_union : forall fuel K E exts n d ms dirs t',
  extend_tdef fuel K E exts (TUnion n d ms dirs) = Ok t' ->
  t' = TUnion n d (ms ++ map ty_name (flat_map ext_members exts)) (dirs ++ flat_map ext_dirs exts).
Proof. exact extend_union_merges. Qed.
Print Assumptions C11_merge_union.

(* ---- non-vacuity ------------------------------------------------------- *)

(* a document with recursive input types, extensions of four kinds, defaults,
   a deprecation and an unreachable type satisfies the rules, builds, and the
   result is the declared schema *)
Example C11_exact_instance :
  sdl_rules_ok doc_nonvacuous /\
  match build_model (BOpts false []) doc_nonvacuous with
  | Ok sc => schema_equiv sc (declared doc_nonvacuous) = true
  | _ => False
  end.
Proof. split; vm_compute; reflexivity. Qed.

(* the guard and the rules hold together on a document with recursive input
   types, extensions of four kinds, defaults and a deprecation *)
Example C11_exact_hypotheses_instance : sdl_rules_ok doc_nonvacuous /\ defaults_stable doc_nonvacuous.
Proof.
  split; [vm_compute; reflexivity|].
  split; intros iv Hin; cbv in Hin;
    repeat (destruct Hin as [<-|Hin]; [intros v Hv; cbv in Hv; try discriminate;
                                        inversion Hv; subst v; vm_compute; reflexivity|]);
    contradiction.
Qed.

Example C11_reject_instance :
  ~ sdl_rules_ok doc_not_ok /\ build_model (BOpts false []) doc_not_ok = Rejected K_SDL 0.
Proof. split; [vm_compute; discriminate|vm_compute; reflexivity]. Qed.

Example C11_order_instance :
  filter non_ext (doc_defs doc_nonvacuous) <> [] /\ filter is_extension (doc_defs doc_nonvacuous) <> [].
Proof. split; vm_compute; discriminate. Qed.
