(* C17 -- subscriptions map each source event to one isolated result, in
   order.  Statements only; proofs are in Proofs/SubscribeProofs.v.

   Quantified over: the event type, the data/error types, the per-event
   execution [run] (any function of the executor's caches and the event), the
   initial executor state (any caches satisfying the invariant, ANY error
   list), every finite list of source events.  The only assumption is the one
   the property itself names -- nothing but memoised pure facts survives
   between events: there is an invariant [cache_inv] on the caches, kept by
   [run], under which [run] returns the same data and registers the same
   errors as with the empty caches [c_fresh] of a new executor. *)
From PyGql Require Import Base.Str Exec.SubscribeModel Spec.SubscribeSpec Proofs.SubscribeProofs.

Section C17.
  Variables (cache event data err : Type).
  Variable run : cache -> event -> cache * data * list err.
  Variable c_fresh : cache.
  Variable cache_inv : cache -> Prop.
  Hypothesis run_keeps_inv : forall c e, cache_inv c -> cache_inv (fst (fst (run c e))).
  Hypothesis run_cache_independent : forall c e, cache_inv c ->
    snd (fst (run c e)) = snd (fst (run c_fresh e)) /\ snd (run c e) = snd (run c_fresh e).

  (* exactly one result per source event, in source order; the k-th result's
     data is what executing the selection with the k-th event as root yields *)
  Theorem C17_length_order : forall s : sub_state cache event err,
    cache_inv (es_cache (ss_exec s)) ->
    length (snd (drain cache event data err run s)) = length (ss_source s) /\
    forall k e, nth_error (ss_source s) k = Some e ->
      exists r, nth_error (snd (drain cache event data err run s)) k = Some r /\
                fst r = fst (spec_result cache event data err run c_fresh e).
  Proof. exact (length_order cache event data err run c_fresh cache_inv run_keeps_inv run_cache_independent). Qed.

  (* the k-th result's error list is exactly the errors of executing event k
     alone on a fresh executor with an empty error list -- whatever the shared
     error list held before *)
  Theorem C17_isolation : forall s : sub_state cache event err,
    cache_inv (es_cache (ss_exec s)) ->
    forall k e r, nth_error (ss_source s) k = Some e ->
      nth_error (snd (drain cache event data err run s)) k = Some r ->
      snd r = snd (spec_result cache event data err run c_fresh e).
  Proof. exact (isolation cache event data err run c_fresh cache_inv run_keeps_inv run_cache_independent). Qed.

  (* every history of a sequential consumer, not only a full drain: after j
     calls of __anext__ (the consumer may stop early or keep calling after the
     end) it holds exactly the first j specified results followed by "ended"
     answers, the source has delivered exactly min j n items (no read-ahead, no
     skipping) and the rest of the source is untouched *)
  Theorem C17_history : forall (j : nat) (s : sub_state cache event err),
    cache_inv (es_cache (ss_exec s)) ->
    let n := length (ss_source s) in
    snd (pulls cache event data err run j s) =
      map Some (firstn j (map (spec_result cache event data err run c_fresh) (ss_source s)))
      ++ repeat None (j - n) /\
    ss_source (fst (pulls cache event data err run j s)) = skipn j (ss_source s) /\
    ss_consumed (fst (pulls cache event data err run j s)) = ss_consumed s + Nat.min j n.
  Proof.
    intros j s Hinv.
    destruct (pulls_spec cache event data err run c_fresh cache_inv run_keeps_inv run_cache_independent j s Hinv)
      as (A & B & C & _).
    repeat split; assumption.
  Qed.

  (* the stream ends when, and only when, the source has ended; every event
     has then been consumed exactly once *)
  Theorem C17_ends : forall s : sub_state cache event err,
    cache_inv (es_cache (ss_exec s)) ->
    let s' := fst (drain cache event data err run s) in
    ss_source s' = [] /\
    ss_consumed s' = ss_consumed s + length (ss_source s) /\
    snd (anext cache event data err run s') = None /\
    (forall t, snd (anext cache event data err run t) = None <-> ss_source t = []).
  Proof. exact (ends cache event data err run c_fresh cache_inv run_keeps_inv run_cache_independent). Qed.

  (* a sequential consumer's trace is Pulled 0, Emitted 0, Pulled 1, Emitted 1,
     ..., Ended: item k+1 is requested only after result k was produced *)
  Theorem C17_sequential_pull : forall s : sub_state cache event err,
    cache_inv (es_cache (ss_exec s)) -> ss_consumed s = 0 -> ss_trace s = [] ->
    ss_trace (fst (drain cache event data err run s)) = spec_trace (length (ss_source s)) /\
    forall k, S k < length (ss_source s) ->
      exists pre mid post,
        spec_trace (length (ss_source s)) = pre ++ Emitted k :: mid ++ Pulled (S k) :: post.
  Proof.
    intros s Hi Hc Ht. split.
    - exact (sequential_pull cache event data err run c_fresh cache_inv run_keeps_inv run_cache_independent s Hi Hc Ht).
    - intros k Hk. exact (spec_trace_order _ k Hk).
  Qed.

  Variable c_created : cache.

  (* every refusal raises its documented exception class, the subscription
     resolver has not been called and no source item has been consumed; and
     each condition named by the property does refuse *)
  Theorem C17_refusals : forall (q : sub_request) (events : list event),
    (forall r called consumed,
       subscribe cache event err c_created q events = (Refused r, called, consumed) ->
       called = false /\ consumed = 0 /\ refusal_class r = documented_class r) /\
    (sq_operation_found q = true -> sq_variables_ok q = true ->
      (sq_is_subscription q = false ->
         subscribe cache event err c_created q events = (Refused RefNotSubscription, false, 0)) /\
      (sq_is_subscription q = true -> sq_runtime_streams q = false ->
         subscribe cache event err c_created q events = (Refused RefRuntime, false, 0)) /\
      (sq_is_subscription q = true -> sq_runtime_streams q = true -> sq_root_collect_ok q = false ->
         subscribe cache event err c_created q events = (Refused RefDirectiveArguments, false, 0)) /\
      (sq_is_subscription q = true -> sq_runtime_streams q = true -> sq_root_collect_ok q = true ->
       sq_root_fields q <> 1 ->
         subscribe cache event err c_created q events = (Refused RefFieldCount, false, 0)) /\
      (sq_is_subscription q = true -> sq_runtime_streams q = true -> sq_root_collect_ok q = true ->
       sq_root_fields q = 1 -> sq_field_defined q = true -> sq_has_subscription_resolver q = false ->
         subscribe cache event err c_created q events = (Refused RefNoResolver, false, 0))).
  Proof.
    intros q events. split.
    - intros r called consumed H.
      destruct (refusals cache event err c_created q events r called consumed H) as (A & B & C & _).
      repeat split; assumption.
    - intros H1 H2.
      destruct (refusal_conditions cache event err c_created q events H1 H2) as (A & B & C & D & E & _).
      repeat split; assumption.
  Qed.
End C17.

Print Assumptions C17_length_order.
Print Assumptions C17_history.
Print Assumptions C17_isolation.
Print Assumptions C17_ends.
Print Assumptions C17_sequential_pull.
Print Assumptions C17_refusals.

(* non-vacuity: an executor whose caches count the events seen (a memoised
   fact that does not influence results) and that registers an error on odd
   events satisfies the hypotheses; three events give three isolated results *)
Example C17_example :
  let run (c : nat) (e : nat) := (S c, e * 10, if Nat.odd e then [e] else []) in
  (forall c e : nat, snd (fst (run c e)) = snd (fst (run 0 e)) /\ snd (run c e) = snd (run 0 e)) /\
  snd (drain nat nat nat nat run (SubState (ExecState 5 [99]) [1; 2; 3] 0 []))
    = [(10, [1]); (20, []); (30, [3])] /\
  ss_trace (fst (drain nat nat nat nat run (SubState (ExecState 5 [99]) [1; 2; 3] 0 [])))
    = [Pulled 0; Emitted 0; Pulled 1; Emitted 1; Pulled 2; Emitted 2; Ended].
Proof. split; [intros c e; split; reflexivity|split; reflexivity]. Qed.

(* Streams in which some events abort: the execution of an event may be cut
   short by a non-field exception (a value its scalar cannot serialise, an
   unexpected resolver exception) AFTER it registered field errors; then no
   result is built, the exception leaves __anext__, the errors stay in the
   shared list, and a consumer that keeps reading gets the following events.
   [run] returns [None] as data for such an event together with the errors
   registered before the abort.  Because the list is cleared when the next
   event STARTS, every later result is still exactly that of its own event
   alone: what a reading consumer observes is, event by event, the fresh
   execution's result or its exception.  (Example
   clear_at_end_leaks_after_abort in Proofs/SubscribeProofs.v: clearing in
   the completion callback instead leaks.) *)
Theorem C17_isolation_with_aborts :
  forall (cache event tree err : Type)
         (run : cache -> event -> cache * option tree * list err)
         (c_fresh : cache) (cache_inv : cache -> Prop),
    (forall c e, cache_inv c -> cache_inv (fst (fst (run c e)))) ->
    (forall c e, cache_inv c ->
       snd (fst (run c e)) = snd (fst (run c_fresh e)) /\ snd (run c e) = snd (run c_fresh e)) ->
    forall s : sub_state cache event err,
      cache_inv (es_cache (ss_exec s)) ->
      map (observe err) (snd (drain cache event (option tree) err run s)) =
      map (fun e => observe err (spec_result cache event (option tree) err run c_fresh e)) (ss_source s) /\
      forall k e d es,
        nth_error (ss_source s) k = Some e ->
        spec_result cache event (option tree) err run c_fresh e = (Some d, es) ->
        nth_error (snd (drain cache event (option tree) err run s)) k = Some (Some d, es).
Proof. exact isolation_with_aborts. Qed.
Print Assumptions C17_isolation_with_aborts.

(* ------------------------------------------------------------------------
   Composition with the C04 cached executor (Exec/ExecCache.v, read-only).
   [run] is no longer abstract: it is [run_c] = exec_sel_c (the executor with
   its five memo tables as state) on the subscription's root type and
   selections, the tables threaded through ALL events (a subscription keeps
   one executor, so also the per-execution tables persist), followed by
   clear_errors / the shared error list of Exec/SubscribeModel.v.  The cache
   hypothesis of C17_isolation is discharged from C04's transparency theorem
   (exec_sel_c_pure, the lemma behind C04_history_tables /
   C04_history_invariant) with invariant [cache_inv] and fresh caches
   [empty_cache].  What remains are C04's own parameters: the two tests of key
   identity of the tables must only answer true on equal keys.  An event whose
   execution lets an exception escape is recorded as that outcome (in the code
   the exception leaves __anext__ and the stream goes on); C04's model does not
   say which errors had been registered before such an abort, so here that
   event's own error list is empty -- the statement about every OTHER event is
   unaffected (and C17_isolation_with_aborts covers arbitrary leftovers). *)
From PyGql Require Import Exec.ExecCache Proofs.ExecCacheProofs Proofs.SubscribeExecProofs.

(* the k-th result -- data and error list -- is exactly the result of
   executing the selection on event k alone with no tables and an empty error
   list, whatever (sound) entries the tables hold and whatever errors linger
   in the shared list when the stream starts *)
Theorem C17_isolation_exec :
  forall sch frags vs coerce_args world tyres cfuel sels_eqb argkey_eqb,
    (forall a b, sels_eqb a b = true -> a = b) ->
    (forall a b, argkey_eqb a b = true -> a = b) ->
    forall fuel root_type sels (s : sub_state cache pv error),
      cache_inv sch frags vs coerce_args cfuel (es_cache (ss_exec s)) ->
      let run := run_c sch frags vs coerce_args world tyres cfuel sels_eqb argkey_eqb fuel root_type sels in
      let fresh := fresh_result sch frags vs coerce_args world tyres cfuel fuel root_type sels in
      snd (drain cache pv (outcome pv) error run s) = map fresh (ss_source s) /\
      forall k e r, nth_error (ss_source s) k = Some e ->
        nth_error (snd (drain cache pv (outcome pv) error run s)) k = Some r ->
        r = fresh e.
Proof.
  intros sch frags vs coerce_args world tyres cfuel se ae H1 H2 fuel rt sels s Hinv.
  exact (isolation_exec sch frags vs coerce_args world tyres cfuel se ae H1 H2 fuel rt sels s Hinv).
Qed.
Print Assumptions C17_isolation_exec.

(* the same for every history of __anext__ calls (a consumer that stops early
   or keeps calling after the end): exactly the first j fresh results, exactly
   min j n source items consumed, the rest of the source untouched *)
Theorem C17_history_exec :
  forall sch frags vs coerce_args world tyres cfuel sels_eqb argkey_eqb,
    (forall a b, sels_eqb a b = true -> a = b) ->
    (forall a b, argkey_eqb a b = true -> a = b) ->
    forall fuel root_type sels (j : nat) (s : sub_state cache pv error),
      cache_inv sch frags vs coerce_args cfuel (es_cache (ss_exec s)) ->
      let run := run_c sch frags vs coerce_args world tyres cfuel sels_eqb argkey_eqb fuel root_type sels in
      let fresh := fresh_result sch frags vs coerce_args world tyres cfuel fuel root_type sels in
      snd (pulls cache pv (outcome pv) error run j s) =
        map Some (firstn j (map fresh (ss_source s))) ++ repeat None (j - length (ss_source s)) /\
      ss_source (fst (pulls cache pv (outcome pv) error run j s)) = skipn j (ss_source s) /\
      ss_consumed (fst (pulls cache pv (outcome pv) error run j s)) =
        ss_consumed s + Nat.min j (length (ss_source s)).
Proof.
  intros sch frags vs coerce_args world tyres cfuel se ae H1 H2 fuel rt sels j s Hinv.
  exact (history_exec sch frags vs coerce_args world tyres cfuel se ae H1 H2 fuel rt sels j s Hinv).
Qed.
Print Assumptions C17_history_exec.

(* the premise is satisfiable at the start (new executor) and is kept by the
   stream, so it also holds for a stream resumed after any number of events *)
Theorem C17_tables_stay_sound :
  forall sch frags vs coerce_args world tyres cfuel sels_eqb argkey_eqb,
    (forall a b, sels_eqb a b = true -> a = b) ->
    (forall a b, argkey_eqb a b = true -> a = b) ->
    forall fuel root_type sels,
      cache_inv sch frags vs coerce_args cfuel empty_cache /\
      forall (s : sub_state cache pv error),
        cache_inv sch frags vs coerce_args cfuel (es_cache (ss_exec s)) ->
        cache_inv sch frags vs coerce_args cfuel
          (es_cache (ss_exec (fst (drain cache pv (outcome pv) error
             (run_c sch frags vs coerce_args world tyres cfuel sels_eqb argkey_eqb fuel root_type sels) s)))).
Proof.
  intros sch frags vs coerce_args world tyres cfuel se ae H1 H2 fuel rt sels. split.
  - apply empty_cache_inv.
  - intros s Hinv.
    exact (stream_keeps_tables_sound sch frags vs coerce_args world tyres cfuel se ae H1 H2 fuel rt sels s Hinv).
Qed.
Print Assumptions C17_tables_stay_sound.

(* subscribe() on a real document: the facts the refusal checks read are
   computed with C04's get_operation / collect_for / field_definition
   (request_facts), the subscription resolver's presence is a parameter.  Every
   refusal happens with the resolver not called and nothing consumed, and says
   what was wrong with the request (a query / mutation operation; a runtime
   without streams; invalid @skip/@include arguments on the root selection
   set; not exactly one root field; no field definition or no subscription
   resolver for it); otherwise the operation is a subscription with exactly
   one root field that has a subscription resolver and the response stream is
   the per-event table-free execution of its selection. *)
Theorem C17_subscribe_exec :
  forall sch coerce_args world tyres cfuel sels_eqb argkey_eqb,
    (forall a b, sels_eqb a b = true -> a = b) ->
    (forall a b, argkey_eqb a b = true -> a = b) ->
    forall fuel has_sub_resolver c_created d opname vs vars_ok streams events,
    match subscribe_exec sch cfuel has_sub_resolver c_created d opname vs vars_ok streams events with
    | (Refused r, called, consumed) =>
        called = false /\ consumed = 0 /\
        match r with
        | RefInvalidOperation =>
            (forall k sels, get_operation d opname = Ok (k, sels) -> root_of sch k = None)
        | RefVariables => vars_ok = false
        | RefNotSubscription =>
            exists k sels, get_operation d opname = Ok (k, sels) /\ is_subscription_op k = false
        | RefRuntime => streams = false
        | RefDirectiveArguments =>
            exists sels rt, get_operation d opname = Ok (OpSubscription, sels) /\
              s_subscription sch = Some rt /\
              forall g, collect_for sch (frag_table_of (doc_defs d)) vs cfuel rt sels <> Ok g
        | RefFieldCount =>
            exists sels rt g, get_operation d opname = Ok (OpSubscription, sels) /\
              s_subscription sch = Some rt /\
              collect_for sch (frag_table_of (doc_defs d)) vs cfuel rt sels = Ok g /\ length g <> 1
        | RefNoFieldDef | RefNoResolver =>
            exists sels rt kn, get_operation d opname = Ok (OpSubscription, sels) /\
              s_subscription sch = Some rt /\
              collect_for sch (frag_table_of (doc_defs d)) vs cfuel rt sels = Ok [kn]
        end
    | (Started s0, called, consumed) =>
        called = true /\ consumed = 0 /\ vars_ok = true /\ streams = true /\
        exists sels rt key node nodes k fd,
          get_operation d opname = Ok (OpSubscription, sels) /\ s_subscription sch = Some rt /\
          collect_for sch (frag_table_of (doc_defs d)) vs cfuel rt sels = Ok [(key, node :: nodes)] /\
          field_definition sch rt (sel_name node) = Ok (Some (k, fd)) /\
          has_sub_resolver rt (f_name fd) = true /\
          s0 = SubState (ExecState c_created []) events 0 [] /\
          (cache_inv sch (frag_table_of (doc_defs d)) vs coerce_args cfuel c_created ->
           snd (drain cache pv (outcome pv) error
                  (run_c sch (frag_table_of (doc_defs d)) vs coerce_args world tyres cfuel sels_eqb argkey_eqb fuel rt sels) s0)
           = map (fresh_result sch (frag_table_of (doc_defs d)) vs coerce_args world tyres cfuel fuel rt sels) events)
    end.
Proof.
  intros sch coerce_args world tyres cfuel se ae H1 H2 fuel has_res c0 d opname vs vars_ok streams events.
  exact (subscribe_exec_spec sch coerce_args world tyres cfuel se ae H1 H2 fuel has_res c0 d opname vs vars_ok streams events).
Qed.
Print Assumptions C17_subscribe_exec.
