(* C07 -- resolvers only receive arguments that conform to the declared
   input types. Statements only; proofs are in Proofs/CoerceProofs.v, the
   judgements ([conforms], [spelled]/[natural], [wrong], [wrong_lit], [var_at],
   [usage_ok]) in Spec/CoerceSpec.v, the model in Exec/CoerceModel.v. *)
From PyGql Require Import Spec.CoerceSpec Proofs.CoerceProofs Proofs.CoerceAgreeCheck Proofs.CoerceValidBridge.
From PyGql Require Proofs.DirIfCoercion.
From PyGql Require Import Proofs.CoerceCheck.
From Coq Require Import ZArith.

(* Variable route: whatever coerce_value accepts is a legitimate resolver-side
   value of the type (non-null never None, Int within 32 bits, enum internal
   values, input objects keyed by python names with defaults filled in and no
   foreign key, lists of conforming items) -- all schemas, types and JSON values. *)
Theorem C07_var_sound : forall s j t v,
  schema_wf s -> input_ty s t -> coerce_value s j t = Ok v -> conforms s t v.
Proof. intros s j t v Hwf Hin H. exact (cv_sound s Hwf j t v Hin H). Qed.
Print Assumptions C07_var_sound.

(* Literal route, with variables inside the literal: the same, provided each
   variable used holds a value of its position's type (null apart). *)
Theorem C07_lit_sound : forall s vs l t v,
  schema_wf s -> input_ty s t -> vars_fit s vs t l ->
  value_from_ast s vs l t = Ok v -> conforms s t v.
Proof. intros s vs l t v Hwf Hin Hfit H. exact (vfa_sound s Hwf vs l t v Hin Hfit H). Qed.
Print Assumptions C07_lit_sound.

(* coerce_argument_values: the kwargs are a dict keyed by python names of
   declared arguments, every value conforming to its argument's type. *)
Theorem C07_args_sound : forall s defs call vs kw,
  schema_wf s -> args_wf s defs -> call_vars_fit s vs defs call ->
  coerce_argument_values s defs call vs = Ok kw ->
  NoDup (map fst kw)
  /\ (forall k v, In (k, v) kw -> exists d, In d defs /\ f_py d = k /\ conforms s (f_ty d) v).
Proof. exact cav_sound. Qed.
Print Assumptions C07_args_sound.

(* coerce_variable_values: every coerced variable conforms to its declared type. *)
Theorem C07_vars_sound : forall s vds raw vs,
  schema_wf s -> coerce_variable_values s vds raw = Ok vs ->
  NoDup (map fst vs)
  /\ forall x v, In (x, v) vs ->
       exists vd, In vd vds /\ n_val (vd_var vd) = x /\ conforms s (ity_of_ty (vd_type vd)) v.
Proof. exact cvv_sound. Qed.
Print Assumptions C07_vars_sound.

(* The whole request (variables coerced, then the field's arguments assembled
   = ResolutionContext.argument_values): when every variable usage is
   type-compatible, the resolver's kwargs conform. *)
Theorem C07_exec_sound : forall s defs vds call raw kw,
  schema_wf s -> args_wf s defs -> usage_ok s vds defs call ->
  exec_kwargs s defs vds call raw = Ok kw ->
  NoDup (map fst kw)
  /\ forall k v, In (k, v) kw -> exists d, In d defs /\ f_py d = k /\ conforms s (f_ty d) v.
Proof. exact exec_sound. Qed.
Print Assumptions C07_exec_sound.

Theorem C07_nonnull_never_null : forall s t v,
  schema_wf s -> conforms s t v -> ity_nn t = true -> v <> PNone.
Proof. exact nonnull_never_null. Qed.
Print Assumptions C07_nonnull_never_null.

(* A JSON value of the natural kind and the literal that spells it are both
   accepted and give the same value (whatever the variables in scope). *)
Theorem C07_routes_agree : forall s t j l vs,
  spelled s t j l ->
  exists v, coerce_value s j t = Ok v /\ value_from_ast s vs l t = Ok v.
Proof. intros s t j l vs H. exact (proj1 (spelled_agree s) t j l H vs). Qed.
Print Assumptions C07_routes_agree.

(* ... and so do the argument written inline and the argument passed through
   a variable holding the coerced value. *)
Theorem C07_arg_routes_agree : forall s d j l v nm lc xn lcv lc' vs0,
  schema_wf s -> input_ty s (f_ty d) ->
  spelled s (f_ty d) j l -> coerce_value s j (f_ty d) = Ok v ->
  n_val nm = f_name d ->
  arg_binding s vs0 [Arg nm l lc] d = Ok (Some v)
  /\ arg_binding s [(n_val xn, v)] [Arg nm (VVar xn lcv) lc'] d = Ok (Some v).
Proof. exact arg_routes_agree. Qed.
Print Assumptions C07_arg_routes_agree.

(* The property's sentence at the level of a request: the same field with the
   value written inline, or passed through a variable declared with the
   argument's type and given the JSON value -- the resolver gets the same
   kwargs (defaults of nested input objects filled in, single values wrapped).
   Remaining hypotheses: schema_wf (used for "enum internal values are not
   None" and "declared defaults conform"), the argument's type is a known input
   type; [spelled] itself asks for distinct field names in an input type and
   distinct keys in a JSON object. *)
Theorem C07_request_routes_agree : forall s d j l nm lc x lx tyast lv lcv lc' td,
  schema_wf s ->
  spelled s (f_ty d) j l -> n_val nm = f_name d ->
  ity_of_ty tyast = f_ty d ->
  alookup (ity_name (f_ty d)) s = Some td -> is_input_def td = true ->
  exists v,
    exec_kwargs s [d] [] [Arg nm l lc] [] = Ok [(f_py d, v)]
    /\ exec_kwargs s [d] [VarDef x lx tyast None [] lv] [Arg nm (VVar x lcv) lc'] [(n_val x, j)]
       = Ok [(f_py d, v)].
Proof. exact request_routes_agree. Qed.
Print Assumptions C07_request_routes_agree.

(* Natural JSON values -- including the boundary integers -2^31 and 2^31-1,
   omitted fields with defaults, a single value in a list position -- are
   accepted. *)
Theorem C07_complete : forall s t j,
  natural s t j -> exists v, coerce_value s j t = Ok v.
Proof.
  intros s t j (l & H). destruct (proj1 (spelled_agree s) t j l H []) as (v & Hv & _). eauto.
Qed.
Print Assumptions C07_complete.

(* null for non-null, missing required values, unknown input fields, unknown
   enum names, out-of-range integers and structurally wrong values, anywhere
   inside the value, are never accepted ... *)
Theorem C07_rejects_var : forall s t j,
  wrong s t j -> forall v, coerce_value s j t <> Ok v.
Proof. exact wrong_rejected. Qed.
Print Assumptions C07_rejects_var.

(* ... and what they get instead is a CoercionError, nothing else. The guard of
   the scalar clause of [wrong] is exactly "foreign kind and not
   lenient_scalar_case", the decidable complement of the two open findings. *)
Theorem C07_rejects_var_exact : forall s t j,
  schema_closed s -> scalars_behaved s -> bound s t -> wrong s t j ->
  exists p, coerce_value s j t = Rejected RK_coercion p.
Proof. exact wrong_rejected_exact. Qed.
Print Assumptions C07_rejects_var_exact.

(* Any acceptance of a foreign JSON kind at a scalar position falls under the
   predicate: a third leniency would contradict this theorem. *)
Theorem C07_no_other_leniency : forall s nn n k j v,
  alookup n s = Some (TDScalar k) -> scalar_kind_foreign k j ->
  coerce_value s j (INamed nn n) = Ok v -> lenient_scalar_case k j = true.
Proof. exact no_other_leniency. Qed.
Print Assumptions C07_no_other_leniency.

(* Both open-finding witnesses satisfy the predicate (and are accepted). *)
Theorem C07_lenient_witnesses :
  (lenient_scalar_case KInt (JStr (str_of_string "12")) = true
   /\ scalar_kind_foreign KInt (JStr (str_of_string "12"))
   /\ coerce_value [(str_of_string "Int", TDScalar KInt)] (JStr (str_of_string "12"))
                   (INamed false (str_of_string "Int")) = Ok (PInt 12))
  /\ (lenient_scalar_case KString (JInt 123) = true
      /\ scalar_kind_foreign KString (JInt 123)
      /\ coerce_value [(str_of_string "String", TDScalar KString)] (JInt 123)
                      (INamed false (str_of_string "String")) = Ok (PStr (str_of_string "123"))).
Proof. exact lenient_witnesses. Qed.
Print Assumptions C07_lenient_witnesses.

(* The property's full demand ([wrong_full]: [wrong] without the guard, every
   foreign JSON kind counts) fails ONLY through the two open findings: a wrong
   value that is accepted contains, at a scalar position, a string for Int /
   Float or a number for String ... *)
Theorem C07_wrong_accepted_only_if_lenient : forall s t j v,
  wrong_full s t j -> coerce_value s j t = Ok v -> lenient_inside s t j.
Proof. exact wrong_accepted_only_if_lenient. Qed.
Print Assumptions C07_wrong_accepted_only_if_lenient.

(* ... the guarded and the full notion differ by nothing else ... *)
Theorem C07_wrong_full_iff : forall s t j,
  wrong_full s t j <-> (wrong s t j \/ (wrong_full s t j /\ lenient_inside s t j)).
Proof.
  intros s t j. split.
  - intros H. destruct (wrong_full_split s t j H); auto.
  - intros [H|[H _]]; [apply wrong_is_wrong_full; exact H|exact H].
Qed.
Print Assumptions C07_wrong_full_iff.

(* ... and at a scalar position a foreign kind is accepted exactly when
   [lenient_accepts] says so (a numeric string -- blanks, a leading +, single
   underscores between digits included -- for Int / Float; any number for String) *)
Theorem C07_foreign_accepted_iff : forall k j,
  scalar_kind_foreign k j -> ((exists v, parse_scalar k j = Ok v) <-> lenient_accepts k j = true).
Proof. exact foreign_accepted_iff. Qed.
Print Assumptions C07_foreign_accepted_iff.

(* C07_rejects_var is _partial in one respect: its "structurally wrong
   scalar" clause ([scalar_kind_mismatch]) leaves out exactly the acceptances
   that py-gql's own tests pin. The full demand (every JSON value of a foreign
   kind is rejected) is false of the code, by witness: *)
Definition C07_rejects_foreign_kind_full : Prop := rejects_foreign_kind_full.
Theorem C07_rejects_foreign_kind_refuted : ~ C07_rejects_foreign_kind_full.
Proof. exact rejects_foreign_kind_refuted. Qed.
Print Assumptions C07_rejects_foreign_kind_refuted.

(* what is missing between the two: numeric strings for Int / Float, numbers
   for String -- nothing else *)
Theorem C07_foreign_kind_gap : forall k j,
  scalar_kind_foreign k j ->
  scalar_kind_mismatch k j
  \/ (exists x, j = JStr x /\ (k = KInt \/ k = KFloat))
  \/ (k = KString /\ ((exists z, j = JInt z) \/ (exists r, j = JFloat r))).
Proof. exact foreign_minus_pinned. Qed.
Print Assumptions C07_foreign_kind_gap.

(* ... nor are their literal spellings (unknown fields of a literal are left to
   the validator by value_from_ast). *)
Theorem C07_rejects_lit : forall s vs t l,
  wrong_lit s t l -> forall v, value_from_ast s vs l t <> Ok v.
Proof. exact wrong_lit_rejected. Qed.
Print Assumptions C07_rejects_lit.

Theorem C07_rejects_lit_exact : forall s vs t l,
  schema_closed s -> schema_inputs s -> scalars_behaved s -> usable s t -> wrong_lit s t l ->
  exists p, value_from_ast s vs l t = Rejected RK_invalid p.
Proof. exact wrong_lit_rejected_exact. Qed.
Print Assumptions C07_rejects_lit_exact.

(* Absent optional arguments without default are omitted from the kwargs;
   arguments that are non-null or have a default are always there. *)
Theorem C07_absent_omitted : forall s defs call vs kw d,
  NoDup (map f_py defs) -> In d defs -> f_default d = None -> not_supplied vs call d ->
  coerce_argument_values s defs call vs = Ok kw -> ~ In (f_py d) (map fst kw).
Proof. exact cav_absent_omitted. Qed.
Print Assumptions C07_absent_omitted.

Theorem C07_required_present : forall s defs call vs kw d,
  In d defs -> f_default d <> None \/ ity_nn (f_ty d) = true ->
  coerce_argument_values s defs call vs = Ok kw -> In (f_py d) (map fst kw).
Proof. exact cav_required_present. Qed.
Print Assumptions C07_required_present.

(* The variable route: coerce_value either returns a value or raises
   CoercionError -- nothing else, for every JSON value (the model has no fuel:
   recursion is on the value). *)
Theorem C07_total : forall s j t,
  schema_closed s -> scalars_behaved s -> bound s t ->
  match coerce_value s j t with Ok _ => True | Rejected k _ => k = RK_coercion | _ => False end.
Proof. intros s j t Hc Hbh Hb. exact (cv_total s Hc Hbh j t Hb). Qed.
Print Assumptions C07_total.

(* The literal route, for every literal, type and variable map: a value or
   InvalidValue, never another exception ... *)
Theorem C07_total_lit : forall s vs l t,
  schema_closed s -> schema_inputs s -> scalars_behaved s -> usable s t ->
  match value_from_ast s vs l t with Ok _ => True | Rejected k _ => k = RK_invalid | _ => False end.
Proof. intros s vs l t Hc Hi Hbh Hu. exact (vfa_total s Hc Hi Hbh vs l t Hu). Qed.
Print Assumptions C07_total_lit.

(* ... coerce_argument_values: the kwargs or CoercionError ... *)
Theorem C07_total_args : forall s vs call defs,
  schema_closed s -> schema_inputs s -> scalars_behaved s ->
  (forall d, In d defs -> usable s (f_ty d)) ->
  match coerce_argument_values s defs call vs with
  | Ok _ => True | Rejected k _ => k = RK_coercion | _ => False end.
Proof. intros s vs call defs Hc Hi Hbh Hd. exact (cav_total s Hc Hi Hbh vs call defs Hd). Qed.
Print Assumptions C07_total_args.

(* ... coerce_variable_values: the variables or VariablesCoercionError, whatever
   the variable definitions and raw values ... *)
Theorem C07_total_vars : forall s vds raw,
  schema_closed s -> schema_inputs s -> scalars_behaved s ->
  match coerce_variable_values s vds raw with
  | Ok _ => True | Rejected k _ => k = RK_variables | _ => False end.
Proof. exact cvv_total. Qed.
Print Assumptions C07_total_vars.

(* ... hence a request either hands kwargs to the resolver or is rejected with
   one of the two documented errors before any resolver runs. *)
Theorem C07_total_request : forall s defs vds call raw,
  schema_closed s -> schema_inputs s -> scalars_behaved s ->
  (forall d, In d defs -> usable s (f_ty d)) ->
  match exec_kwargs s defs vds call raw with
  | Ok _ => True
  | Rejected k _ => k = RK_variables \/ k = RK_coercion
  | _ => False
  end.
Proof. exact exec_total. Qed.
Print Assumptions C07_total_request.

(* [scalars_behaved]: no scalar of the schema raises anything but ValueError /
   TypeError from its parser (true of every scalar py-gql ships). A user
   scalar that raises something else makes exactly that exception come out --
   ScalarType.parse only wraps ValueError / TypeError ("other exceptions bubble
   up") -- also past CoercionErrors already collected for earlier list items,
   and out of variable coercion / the request: *)
Theorem C07_user_exception_bubbles : forall s nn n,
  alookup n s = Some (TDScalar KOdd) ->
  coerce_value s (JInt 13) (INamed nn n) = Crash CK_user_exception
  /\ (forall vs lc, value_from_ast s vs (VInt (str_of_string "13") lc) (INamed nn n)
                    = Crash CK_user_exception).
Proof. exact raising_scalar_raises. Qed.
Print Assumptions C07_user_exception_bubbles.

Theorem C07_user_exception_bubbles_list : forall s nn t l1 j l2 c,
  (forall x, In x l1 -> match coerce_value s x t with
                        | Ok _ => True | Rejected k _ => k = RK_coercion | _ => False end) ->
  coerce_value s j t = Crash c ->
  coerce_value s (JList (l1 ++ j :: l2)) (IList nn t) = Crash c.
Proof. exact user_exception_bubbles_list. Qed.
Print Assumptions C07_user_exception_bubbles_list.

Theorem C07_user_exception_bubbles_request : forall s defs vds call raw vd j c,
  vds = [vd] -> alookup (n_val (vd_var vd)) raw = Some j ->
  (forall d, alookup (ity_name (ity_of_ty (vd_type vd))) s = Some d -> is_input_def d = true) ->
  alookup (ity_name (ity_of_ty (vd_type vd))) s <> None ->
  coerce_value s j (ity_of_ty (vd_type vd)) = Crash c ->
  exec_kwargs s defs vds call raw = Crash c.
Proof. exact user_exception_bubbles_request. Qed.
Print Assumptions C07_user_exception_bubbles_request.

(* Directive arguments (@skip / @include in _skip_selection, custom directives
   through ResolveInfo.get_directive_arguments and schema directives) are the
   same coerce_argument_values on the directive node: the corollaries. *)
Theorem C07_directive_args_sound : forall s defs dname ds vs kw,
  schema_wf s -> args_wf s defs ->
  (forall d, find_directive dname ds = Some d -> call_vars_fit s vs defs (d_args d)) ->
  directive_arguments s defs dname ds vs = Ok (Some kw) ->
  NoDup (map fst kw)
  /\ (forall k v, In (k, v) kw -> exists a, In a defs /\ f_py a = k /\ conforms s (f_ty a) v)
  /\ (forall a, In a defs -> f_default a <> None \/ ity_nn (f_ty a) = true -> In (f_py a) (map fst kw)).
Proof. exact directive_args_sound. Qed.
Print Assumptions C07_directive_args_sound.

Theorem C07_directive_args_total : forall s defs dname ds vs,
  schema_closed s -> schema_inputs s -> scalars_behaved s ->
  (forall d, In d defs -> usable s (f_ty d)) ->
  match directive_arguments s defs dname ds vs with
  | Ok _ => True | Rejected k _ => k = RK_coercion | _ => False end.
Proof. exact directive_args_total. Qed.
Print Assumptions C07_directive_args_total.

Theorem C07_skip_if_is_boolean : forall s dname ds vs kw,
  schema_wf s -> alookup (str_of_string "Boolean") s = Some (TDScalar KBoolean) ->
  (forall d, find_directive dname ds = Some d -> call_vars_fit s vs [if_arg] (d_args d)) ->
  directive_arguments s [if_arg] dname ds vs = Ok (Some kw) ->
  exists b, alookup str_if kw = Some (PBool b).
Proof. exact skip_if_is_boolean. Qed.
Print Assumptions C07_skip_if_is_boolean.

(* The field collector shared by the C19 / C04 models (Exec/Collect.v) handles
   @skip / @include with a hand-written [dir_if]. It is an instance of this
   model: for every schema with the Boolean scalar, directive list and variable
   assignment, [dir_if] is [directive_arguments] at the definition `if: Boolean!`
   followed by the lookup of `if`, and [skip_selection] is [skip_selection_args]. *)
Theorem C07_dir_if_is_directive_arguments : forall s dname ds vs,
  alookup (str_of_string "Boolean") s = Some (TDScalar KBoolean) ->
  PyGql.Exec.Collect.dir_if dname ds vs
  = match directive_arguments s [if_arg] dname ds vs with
    | Ok None => Ok None
    | Ok (Some kw) => match alookup str_if kw with Some v => Ok (Some v) | None => Crash 3 end
    | OutOfFuel => OutOfFuel
    | Rejected k p => Rejected k p
    | Crash c => Crash c
    end.
Proof. intros s dname ds vs H. exact (PyGql.Proofs.DirIfCoercion.dir_if_is_directive_arguments s H dname ds vs). Qed.
Print Assumptions C07_dir_if_is_directive_arguments.

Theorem C07_collector_skip_is_general : forall s ds vs,
  alookup (str_of_string "Boolean") s = Some (TDScalar KBoolean) ->
  PyGql.Exec.Collect.skip_selection ds vs = skip_selection_args s ds vs.
Proof. intros s ds vs H. exact (PyGql.Proofs.DirIfCoercion.skip_selection_is_skip_selection_args s H ds vs). Qed.
Print Assumptions C07_collector_skip_is_general.

(* Where the hypothesis usage_ok of C07_exec_sound comes from: the per-usage
   test of VariablesInAllowedPosition as modelled for C05/C06
   (Valid/ValidRules.v bad_position over Schema.is_subtype) implies the
   per-usage premise of usage_ok. (The enumeration of usages over a document
   and the translation between the two schema representations are not bridged.) *)
Theorem C07_usage_from_rule24 :
  forall (s : PyGql.Valid.ValidSchema.schema) (vd : var_def) (u : PyGql.Valid.ValidRules.usage) it vt,
  PyGql.Valid.ValidRules.u_type u = Some it ->
  PyGql.Valid.ValidSchema.type_from_ast s (vd_type vd) = Some vt ->
  wf_tref it = true -> wf_tref vt = true ->
  PyGql.Valid.ValidSchema.is_abstract s (PyGql.Valid.ValidSchema.unwrap it) = false ->
  PyGql.Valid.ValidRules.bad_position s vd u = false ->
  sub (ity_nullable (ity_of_ty (vd_type vd))) (ity_nullable (ity_of_tref it)).
Proof. exact rule24_gives_usage. Qed.
Print Assumptions C07_usage_from_rule24.

(* ---- composition with the validation model of C05/C06 (read-only imports;
   V = Valid.ValidSchema, R = Valid.ValidRules, VS/VL/VT = their Spec files,
   VP.op_key_list, VO.validate_rules: see Proofs/CoerceValidBridge.v) ---- *)

(* (1) the input-type fragment of a CoerceModel schema as a ValidSchema
   schema: total translation, type lookups agree, and Schema.is_subtype on
   translated types is exactly the covariance [sub] of the C07 spec *)
Theorem C07_valid_schema_of_agree : forall s outs q m sb dirs,
  schema_agree s (valid_schema_of s outs q m sb dirs).
Proof. exact valid_schema_of_agree. Qed.
Print Assumptions C07_valid_schema_of_agree.

Theorem C07_subtype_agree : forall s s' a b,
  schema_agree s s' -> usable s b ->
  (V.is_subtype s' (tref_of a) (tref_of b) = true <-> sub a b).
Proof.
  intros s s' a b Ha Hu. split; [apply (subtype_agree s s' a b Ha Hu)|apply sub_subtype].
Qed.
Print Assumptions C07_subtype_agree.

(* (2) VariablesInAllowedPosition silent on the document (C06 model, via
   C06_rule_equiv_VariablesInAllowedPosition) gives usage_ok for every field
   node of an operation -- in its own body or in a reachable fragment --,
   variables directly in argument position, in list items and in input-object
   fields at any depth *)
Theorem C07_usage_ok_from_validation :
  forall s s' d op p a n args dirs sl sb l f defs,
  schema_agree s s' -> schema_closed s -> schema_inputs s -> fields_unique s ->
  NoDup (VP.op_key_list d) -> VL.spec_unique_variable_names d -> VL.spec_known_directives s' d ->
  VT.wf_var_types s' d ->
  R.r24_variables_in_allowed_position s' d = Ok [] ->
  In op (doc_defs d) -> VS.is_operation op ->
  node_in_operation s' d op p (SField a n args dirs sl sb l) ->
  V.get_field_def s' p (n_val n) = Some f ->
  V.sf_args f = map sarg_of defs -> NoDup (map f_name defs) ->
  (forall d0, In d0 defs -> usable s (f_ty d0)) ->
  (forall vd, In vd (VL.op_vars op) -> V.type_from_ast s' (vd_type vd) <> None) ->
  usage_ok s (VL.op_vars op) defs args.
Proof. exact usage_ok_from_validation. Qed.
Print Assumptions C07_usage_ok_from_validation.

(* (3) a validated request: no usage_ok hypothesis left. Whatever kwargs
   exec_kwargs hands to the resolver of a field node of the operation conform. *)
Theorem C07_validated_request_sound :
  forall s s' d op p a n args dirs sl sb l f defs raw kw,
  schema_agree s s' -> schema_wf s -> schema_closed s -> fields_unique s ->
  NoDup (VP.op_key_list d) -> VL.spec_unique_variable_names d -> VL.spec_known_directives s' d ->
  VT.wf_var_types s' d ->
  R.r24_variables_in_allowed_position s' d = Ok [] ->
  In op (doc_defs d) -> VS.is_operation op ->
  node_in_operation s' d op p (SField a n args dirs sl sb l) ->
  V.get_field_def s' p (n_val n) = Some f ->
  V.sf_args f = map sarg_of defs -> NoDup (map f_name defs) ->
  args_wf s defs -> (forall d0, In d0 defs -> bound s (f_ty d0)) ->
  exec_kwargs s defs (VL.op_vars op) args raw = Ok kw ->
  NoDup (map fst kw)
  /\ forall k v, In (k, v) kw -> exists d0, In d0 defs /\ f_py d0 = k /\ conforms s (f_ty d0) v.
Proof. exact validated_request_sound. Qed.
Print Assumptions C07_validated_request_sound.

(* ... and from the verdict of the 25 rules (C06_verdict_25): uniqueness and
   known-directive side conditions are then part of the verdict *)
Theorem C07_validated25_request_sound :
  forall fuel s s' d op p a n args dirs sl sb l f defs raw kw,
  schema_agree s s' -> schema_wf s -> schema_closed s -> fields_unique s ->
  VV.wf_inputs s' -> VT.wf_arg_types s' -> VT.wf_var_types s' d ->
  VO.validate_rules fuel s' d VO.rules_but_overlap = Ok [] ->
  In op (doc_defs d) -> VS.is_operation op ->
  node_in_operation s' d op p (SField a n args dirs sl sb l) ->
  V.get_field_def s' p (n_val n) = Some f ->
  V.sf_args f = map sarg_of defs -> NoDup (map f_name defs) ->
  args_wf s defs -> (forall d0, In d0 defs -> bound s (f_ty d0)) ->
  exec_kwargs s defs (VL.op_vars op) args raw = Ok kw ->
  NoDup (map fst kw)
  /\ forall k v, In (k, v) kw -> exists d0, In d0 defs /\ f_py d0 = k /\ conforms s (f_ty d0) v.
Proof. exact validated25_request_sound. Qed.
Print Assumptions C07_validated25_request_sound.

(* ... and the arguments of a directive of a validated request (written on a
   node or on the definition of the operation or of a reachable fragment):
   what info.get_directive_arguments / _skip_selection receive conforms *)
Theorem C07_exec_directive_sound : forall s defs vds dname ds raw kw,
  schema_wf s -> args_wf s defs ->
  (forall d, find_directive dname ds = Some d -> usage_ok s vds defs (d_args d)) ->
  exec_directive_args s defs vds dname ds raw = Ok (Some kw) ->
  NoDup (map fst kw)
  /\ (forall k v, In (k, v) kw -> exists a, In a defs /\ f_py a = k /\ conforms s (f_ty a) v)
  /\ (forall a, In a defs -> f_default a <> None \/ ity_nn (f_ty a) = true -> In (f_py a) (map fst kw)).
Proof. exact exec_directive_sound. Qed.
Print Assumptions C07_exec_directive_sound.

Theorem C07_validated_directive_args_sound :
  forall s s' d op dr dd defs dname ds raw kw,
  schema_agree s s' -> schema_wf s -> schema_closed s -> fields_unique s ->
  NoDup (VP.op_key_list d) -> VL.spec_unique_variable_names d -> VL.spec_known_directives s' d ->
  VT.wf_var_types s' d ->
  R.r24_variables_in_allowed_position s' d = Ok [] ->
  In op (doc_defs d) -> VS.is_operation op ->
  find_directive dname ds = Some dr -> directive_in_operation s' d op dr ->
  alookup (n_val (d_name dr)) (V.s_dirs s') = Some dd ->
  V.sd_args dd = map sarg_of defs -> NoDup (map f_name defs) ->
  args_wf s defs -> (forall d0, In d0 defs -> bound s (f_ty d0)) ->
  exec_directive_args s defs (VL.op_vars op) dname ds raw = Ok (Some kw) ->
  NoDup (map fst kw)
  /\ (forall k v, In (k, v) kw -> exists a, In a defs /\ f_py a = k /\ conforms s (f_ty a) v)
  /\ (forall a, In a defs -> f_default a <> None \/ ity_nn (f_ty a) = true -> In (f_py a) (map fst kw)).
Proof. exact validated_directive_args_sound. Qed.
Print Assumptions C07_validated_directive_args_sound.

(* ... with the C07-side assumptions as decidable checks that the
   correspondence run evaluates on the two serialisations of one real py_gql
   schema (this property's and the validation model's): schema_okb / args_okb
   (C07_checkers_sound), schema_agreeb / field_args_agreeb (sound below) *)
Theorem C07_agree_checkers_sound :
  (forall s s', schema_agreeb s s' = true -> schema_agree s s')
  /\ (forall s' p n defs, field_args_agreeb s' p n defs = true ->
        exists f, V.get_field_def s' p n = Some f /\ V.sf_args f = map sarg_of defs).
Proof. split; [exact schema_agreeb_sound|exact field_args_agreeb_sound]. Qed.
Print Assumptions C07_agree_checkers_sound.

Theorem C07_validated_request_sound_checked :
  forall fuel s s' d op p a n args dirs sl sb l defs raw kw,
  schema_okb s = true -> args_okb s defs = true ->
  schema_agreeb s s' = true -> field_args_agreeb s' p (n_val n) defs = true ->
  VV.wf_inputs s' -> VT.wf_arg_types s' -> VT.wf_var_types s' d ->
  VO.validate_rules fuel s' d VO.rules_but_overlap = Ok [] ->
  In op (doc_defs d) -> VS.is_operation op ->
  node_in_operation s' d op p (SField a n args dirs sl sb l) ->
  exec_kwargs s defs (VL.op_vars op) args raw = Ok kw ->
  NoDup (map fst kw)
  /\ forall k v, In (k, v) kw -> exists d0, In d0 defs /\ f_py d0 = k /\ conforms s (f_ty d0) v.
Proof. exact validated_request_sound_checked. Qed.
Print Assumptions C07_validated_request_sound_checked.

(* usage_ok is satisfiable by the ordinary cases: a list variable for a list
   argument, a stricter variable inside an object literal *)
Local Open Scope string_scope.
Example C07_usage_ok_example :
  let S0 x := str_of_string x in
  let nm0 x := Name (S0 x) None in
  let s := [ (S0 "Int", TDScalar KInt);
             (S0 "P", TDInput [IField (S0 "x") (S0 "x") (INamed false (S0 "Int")) None]) ] in
  let vds := [ VarDef (nm0 "v") None (TList (TNonNull (TNamed (nm0 "Int") None) None) None) None [] None;
               VarDef (nm0 "w") None (TNonNull (TNamed (nm0 "Int") None) None) None [] None ] in
  let defs := [ IField (S0 "xs") (S0 "xs") (IList false (INamed false (S0 "Int"))) None;
                IField (S0 "p") (S0 "p") (INamed true (S0 "P")) None ] in
  let call := [ Arg (nm0 "xs") (VVar (nm0 "v") None) None;
                Arg (nm0 "p") (VObject [(nm0 "x", VVar (nm0 "w") None, None)] None) None ] in
  usage_ok s vds defs call.
Proof. exact usage_ok_example. Qed.
Print Assumptions C07_usage_ok_example.

(* ---- the executable checkers the correspondence run applies to every
   generated schema / argument list and to every value the implementation
   handed out are sound for the judgements of the Spec ---- *)
Theorem C07_checkers_sound :
  (forall s v t, conformsb s t v = true -> conforms s t v)
  /\ (forall s, schema_okb s = true ->
                schema_wf s /\ schema_closed s /\ schema_inputs s /\ fields_unique s)
  /\ (forall s defs, args_okb s defs = true ->
                     args_wf s defs /\ (forall d, In d defs -> usable s (f_ty d))
                     /\ NoDup (map f_name defs) /\ NoDup (map f_py defs)).
Proof.
  split; [exact conformsb_sound|split; [exact schema_okb_sound|exact args_okb_sound]].
Qed.
Print Assumptions C07_checkers_sound.

(* ---- list-of-list and non-null-inside-list corners, stated explicitly
   (instances of the general theorems above) ---- *)
Theorem C07_single_value_wraps_every_level : forall s j t v n1 n2,
  plain_json j = true -> coerce_value s j t = Ok v ->
  coerce_value s j (IList n1 (IList n2 t)) = Ok (PList [PList [v]]).
Proof. exact single_value_wraps_every_level. Qed.
Print Assumptions C07_single_value_wraps_every_level.

Theorem C07_single_literal_wraps_every_level : forall s vs l t v n1 n2,
  literal_plain l = true -> value_from_ast s vs l t = Ok v ->
  value_from_ast s vs l (IList n1 (IList n2 t)) = Ok (PList [PList [v]]).
Proof. exact single_literal_wraps_every_level. Qed.
Print Assumptions C07_single_literal_wraps_every_level.

Theorem C07_list_corners : forall s n,
  coerce_value s JNull (IList false (INamed true n)) = Ok PNone
  /\ coerce_value s (JList [JNull; JNull]) (IList true (INamed false n)) = Ok (PList [PNone; PNone])
  /\ coerce_value s (JList []) (IList true (IList true (INamed true n))) = Ok (PList [])
  /\ coerce_value s (JList [JList []]) (IList true (IList true (INamed true n))) = Ok (PList [PList []])
  /\ (forall nn l v, In JNull l -> coerce_value s (JList l) (IList nn (INamed true n)) <> Ok v)
  /\ (forall nn nn' l l' v, In (JList l') l -> In JNull l' ->
        coerce_value s (JList l) (IList nn (IList nn' (INamed true n))) <> Ok v)
  /\ (forall v, coerce_value s JNull (IList true (INamed false n)) <> Ok v).
Proof. exact list_corners. Qed.
Print Assumptions C07_list_corners.

(* ---- non-vacuity: a recursive input type with defaults ---- *)
Local Open Scope string_scope.
Definition S' (x : string) : str := str_of_string x.
Definition nm' (x : string) : name := Name (S' x) None.

Definition ex_schema : schema :=
  [ (S' "Int", TDScalar KInt);
    (S' "Color", TDEnum [(S' "RED", PInt 1001); (S' "GREEN", PStr (S' "g"))]);
    (S' "Node", TDInput
       [ IField (S' "value") (S' "value") (INamed true (S' "Int")) None;
         IField (S' "next") (S' "next_node") (INamed false (S' "Node")) None;
         IField (S' "children") (S' "kids") (IList true (INamed true (S' "Node"))) (Some (PList []));
         IField (S' "color") (S' "color") (INamed false (S' "Color")) (Some (PStr (S' "g"))) ]) ].

Definition ex_json : json :=
  JObj [ (S' "value", JInt 1);
         (S' "next", JObj [ (S' "value", JInt 2147483647); (S' "color", JStr (S' "RED")) ]) ].

Definition ex_lit : value :=
  VObject [ (nm' "value", VInt (S' "1") None, None);
            (nm' "next", VObject [ (nm' "value", VInt (S' "2147483647") None, None);
                                   (nm' "color", VEnum (S' "RED") None, None) ] None, None) ] None.

Definition ex_result : pv :=
  PDict [ (S' "value", PInt 1);
          (S' "next_node", PDict [ (S' "value", PInt 2147483647);
                                   (S' "kids", PList []);
                                   (S' "color", PInt 1001) ]);
          (S' "kids", PList []);
          (S' "color", PStr (S' "g")) ].

Example C07_example :
  schema_wf ex_schema /\ schema_closed ex_schema
  /\ spelled ex_schema (INamed true (S' "Node")) ex_json ex_lit
  /\ coerce_value ex_schema ex_json (INamed true (S' "Node")) = Ok ex_result
  /\ value_from_ast ex_schema [] ex_lit (INamed true (S' "Node")) = Ok ex_result
  /\ wrong ex_schema (INamed true (S' "Node"))
           (JObj [ (S' "value", JInt 1); (S' "next", JObj [ (S' "value", JInt 2147483648) ]) ]).
Proof.
  assert (Hlook : forall n fs, alookup n ex_schema = Some (TDInput fs) ->
                  n = S' "Node" /\ alookup (S' "Node") ex_schema = Some (TDInput fs)).
  { intros n fs H. unfold ex_schema in H. simpl in H.
    repeat match type of H with
           | context [str_eqb n ?x] => destruct (str_eqb_spec n x); [try discriminate|]
           end; try discriminate.
    subst n. split; [reflexivity|]. rewrite <- H. reflexivity. }
  split; [split; [|split]|split; [|split; [|split; [|split]]]].
  - (* declared defaults conform *)
    intros n fs H f d Hf Hd. apply Hlook in H as (-> & H). inversion H; subst; clear H.
    destruct Hf as [<-|[<-|[<-|[<-|[]]]]]; simpl in Hd; inversion Hd; subst.
    + constructor. constructor.
    + eapply CF_enum; [reflexivity|right; left; reflexivity].
  - (* enum internal values are not None *)
    intros n vals nm v H Hin. unfold ex_schema in H. simpl in H.
    repeat match type of H with
           | context [str_eqb n ?x] => destruct (str_eqb n x); [try discriminate|]
           end; try discriminate.
    inversion H; subst. destruct Hin as [E|[E|[]]]; inversion E; discriminate.
  - (* field types are input types *)
    intros n fs f H Hf. apply Hlook in H as (-> & H). inversion H; subst; clear H.
    destruct Hf as [<-|[<-|[<-|[<-|[]]]]]; vm_compute; discriminate.
  - intros n fs f H Hf. apply Hlook in H as (-> & H). inversion H; subst; clear H.
    destruct Hf as [<-|[<-|[<-|[<-|[]]]]]; vm_compute; discriminate.
  - (* the JSON value is natural and the literal spells it *)
    eapply SP_obj; [reflexivity| | | |].
    + vm_compute. repeat constructor; simpl; intuition discriminate.
    + vm_compute. repeat constructor; simpl; intuition discriminate.
    + eapply SPF_cons; [reflexivity|reflexivity| |].
      * eapply SP_int; reflexivity.
      * eapply SPF_cons; [reflexivity|reflexivity| |constructor].
        eapply SP_obj; [reflexivity| | | |].
        -- vm_compute. repeat constructor; simpl; intuition discriminate.
        -- vm_compute. repeat constructor; simpl; intuition discriminate.
        -- eapply SPF_cons; [reflexivity|reflexivity| |].
           ++ eapply SP_int; reflexivity.
           ++ eapply SPF_cons; [reflexivity|reflexivity| |constructor].
              eapply SP_enum; reflexivity.
        -- intros f [<-|[<-|[<-|[<-|[]]]]]; simpl; intros; try discriminate. left; reflexivity.
    + intros f [<-|[<-|[<-|[<-|[]]]]]; simpl; intros; try discriminate. left; reflexivity.
  - vm_compute. reflexivity.
  - vm_compute. reflexivity.
  - (* 2^31 nested in the recursive field is a mistake *)
    eapply W_field with (f := IField (S' "next") (S' "next_node") (INamed false (S' "Node")) None);
      [reflexivity|right; left; reflexivity|reflexivity|].
    eapply W_field with (f := IField (S' "value") (S' "value") (INamed true (S' "Int")) None);
      [reflexivity|left; reflexivity|reflexivity|].
    eapply W_range; reflexivity.
Qed.
Print Assumptions C07_example.
