(* C03 -- printing a parsed document and parsing it again is the identity:
   the printer-side theorems (no parser model needed).  Statements only;
   proofs are in Proofs/PrinterProofs.v.

   [print_ast], [json_quote], [block_string], [reindent] are the model of
   py_gql/lang/printer.py (Lang/PrinterModel.v); [string_value], [block_value],
   [block_string_value], [strip_doc] are the specification side
   (Spec/PrinterSpec.v: GraphQL June 2018, 2.9.4). *)
From PyGql Require Import Lang.Parser Spec.LexSpec Spec.GrammarSpec Proofs.PrinterRoundtrip Proofs.PrinterValueRoundtrip
                          Proofs.PrinterExecRoundtrip Spec.ExecOnlySpec Proofs.PrinterSdlRoundtrip
                          Proofs.PrinterClosedRoundtrip Proofs.PrinterTotalRoundtrip.
From PyGql Require Import Lang.PrinterModel Spec.PrinterSpec Proofs.PrinterProofs.

(* Quoted strings: reading the printed form of ANY string s (every code
   point: empty, quotes, backslashes, control characters, non-BMP) by the
   specification's StringValue semantics gives back exactly s, and consumes
   exactly the printed token (whatever text follows it). *)
Theorem C03_string_quote : forall s rest,
  string_value (json_quote s ++ rest) = Some (s, rest).
Proof. exact string_quote_roundtrip. Qed.
Print Assumptions C03_string_quote.

(* Escaping of triple quotes: lexing the escaped content by the block-string
   token grammar gives the content back, for every content w, whenever what
   follows does not begin with a quote. *)
Theorem C03_escape3_lex : forall w tail raw rest,
  lead_q tail = 0%nat -> block_body tail = Some (raw, rest) ->
  block_body (escape3 w ++ tail) = Some (w ++ raw, rest).
Proof. intros w tail raw rest. apply (lex_escaped (length w)). apply le_n. Qed.
Print Assumptions C03_escape3_lex.

(* Block strings: for every value v that BlockStringValue can produce (see
   C03_block_value_canonical), every indent string made of spaces and tabs,
   as a description or not, and under any further re-indentation [pre] applied
   by enclosing blocks (spaces / tabs), the printed token is read back by the
   specification's block-string semantics as exactly v, consuming exactly the
   token. *)
Theorem C03_block_print : forall v ind pre rest is_desc,
  canon v -> all_ws ind -> all_ws pre ->
  block_value (reindent pre (block_string v ind is_desc) ++ rest) = Some (v, rest).
Proof. exact block_print_roundtrip. Qed.
Print Assumptions C03_block_print.

(* ... and every value of BlockStringValue is of that kind, so C03_block_print
   covers every block string a parser can hand to the printer. *)
Theorem C03_block_value_canonical : forall raw, canon (block_string_value raw).
Proof. exact block_string_value_canon. Qed.
Print Assumptions C03_block_value_canonical.

(* Nested blocks re-indent by composing prefixes, so one [pre] is general. *)
Theorem C03_reindent_compose : forall pre ind s, all_ws ind ->
  reindent pre (reindent ind s) = reindent (pre ++ ind) s.
Proof. exact reindent_reindent. Qed.
Print Assumptions C03_reindent_compose.

(* Printing is total: the (repaired) printer has no failing path, its model is
   a total function on every tree of Lang/Ast.v -- well-formed or not (wf :=
   True).  The implementation side is checked on every run (no exception on any
   generated document; the IndexError witness of C03-01 is in the corpus). *)
Theorem C03_print_total : forall ind incl d, exists s, print_ast ind incl d = s.
Proof. intros; eexists; reflexivity. Qed.
Print Assumptions C03_print_total.

(* Deterministic: a function of the tree, the indent and the flag only. *)
Theorem C03_deterministic : forall ind incl d1 d2,
  d1 = d2 -> print_ast ind incl d1 = print_ast ind incl d2.
Proof. intros; subst; reflexivity. Qed.
Print Assumptions C03_deterministic.

(* Printing does not look at source positions; with the round trip
   parse (print d) = strip d this is "printing the re-parsed tree reproduces
   the same text". *)
Theorem C03_print_ignores_locations : forall ind incl d,
  print_ast ind incl (strip_doc d) = print_ast ind incl d.
Proof. intros. apply pr_document_strip. Qed.
Print Assumptions C03_print_ignores_locations.

(* The full law, for a parser [parse no_location text] (the model of
   py_gql.lang.parse is Lang/Parser.v parse_document): not proved here; it
   needs the tokens-of-layout lemma C03_unparse of DESIGN.md over that parser. *)
Definition C03_roundtrip_full (parse : str -> outcome document) : Prop :=
  forall d src ind, parse src = Ok d -> all_ws ind ->
    parse (print_ast ind true d) = Ok (strip_doc d).

(* A composed instance of the law over the parser model Lang/Parser.v (the
   model of py_gql.lang.parser that C01/C02 tie to the implementation): for
   every type whose names are Names and that has no doubled "!" (what the
   parser produces), with locations off, parsing the printed type gives the
   type back with its locations erased.  Uses C01's acceptance = derivability
   (completeness half) and a lexing lemma for printed types. *)
Theorem C03_type_roundtrip : forall fl t,
  no_location fl = true -> wf_ty t ->
  parse_type_str fl (pr_type t) = Ok (strip_ty t).
Proof. exact type_roundtrip. Qed.
Print Assumptions C03_type_roundtrip.

(* The same for Values (Value[~Const]: variables, numbers, quoted and block
   strings, booleans, null, enums, lists, objects -- nested arbitrarily): for
   every well-formed value (names are Names, numbers are IntValue / FloatValue
   lexemes, enum values are not true/false/null, block-string values are
   canonical and made of source characters -- all guaranteed for parser output),
   every indent string of spaces/tabs, locations off: parsing the printed value
   with the parser model gives the value back with its locations erased.
   Composes C03_string_quote's escaping (against C02's string_body),
   C03_block_print + C03_block_value_canonical (against C02's block_scan and
   BlockStringValue, shown equal to ours: C03_block_specs_agree),
   C01's number / name lexing and C01_value_complete. *)
Theorem C03_value_roundtrip : forall fl cf v,
  no_location fl = true -> all_ws (c_indent cf) -> wf_value false v ->
  parse_value_str fl (pr_value cf v) = Ok (strip_value v).
Proof. exact value_roundtrip. Qed.
Print Assumptions C03_value_roundtrip.

(* Executable documents: the round-trip law itself, through the parser model.
   For every executable document that is well-formed in the sense of what the
   parser produces ([wf_exec_doc]: at least one definition; operations and
   fragments only; names are Names; fragment names and spreads are not "on";
   type conditions are named types; selection sets non-empty and present
   exactly when the field has one; values / types / directives / variable
   definitions well-formed as above; fragment variable definitions only under
   experimental_fragment_variables), every indent made of spaces and tabs,
   locations off:  parsing the printed document gives the document back with
   its locations erased.  Covers the whole layout: nested selection sets with
   re-indentation (also inside block strings), aliases, arguments, directives,
   variable definitions with defaults and constant directives, the query
   shorthand, fragment definitions.  Composes the lexing of the printed layout
   (Proofs/PrinterExecRoundtrip.v) with C01_exec_complete. *)
Theorem C03_exec_roundtrip : forall fl ind d,
  no_location fl = true -> all_ws ind -> wf_exec_doc (fragment_variables fl) d ->
  parse_document fl (print_ast ind true d) = Ok (strip_doc d).
Proof. exact exec_roundtrip. Qed.
Print Assumptions C03_exec_roundtrip.

(* ... hence printing the re-parsed document reproduces the same text. *)
Theorem C03_exec_idempotent : forall fl ind d d',
  no_location fl = true -> all_ws ind -> wf_exec_doc (fragment_variables fl) d ->
  parse_document fl (print_ast ind true d) = Ok d' ->
  print_ast ind true d' = print_ast ind true d.
Proof.
  intros fl ind d d' Hnl Hind Hwf Hp. rewrite (exec_roundtrip fl ind d Hnl Hind Hwf) in Hp.
  inversion Hp; subst. apply pr_document_strip.
Qed.
Print Assumptions C03_exec_idempotent.

(* ---- the closed statements: no well-formedness hypothesis left ----
   (what the parser model accepts is well-formed: C01_parse_output_wf, proved by
   the C01 builder over [wf_exec_doc]; composed in Proofs/PrinterClosedRoundtrip.v)

   Property C03 for executable documents: for every document without type-system
   definitions that the parser accepts (under any flags fl), and every indent
   made of spaces and tabs, printing the tree and parsing the text again -- with
   locations off, and fragment variable definitions allowed if they were --
   yields the same tree up to source positions. *)
Theorem C03_roundtrip_exec_closed : forall fl fl' s d ind,
  parse_document fl s = Ok d -> exec_only d -> all_ws ind ->
  no_location fl' = true -> (fragment_variables fl = true -> fragment_variables fl' = true) ->
  parse_document fl' (print_ast ind true d) = Ok (strip_doc d).
Proof. exact roundtrip_exec_closed. Qed.
Print Assumptions C03_roundtrip_exec_closed.

(* print (parse (print d)) = print d, for every accepted executable document *)
Theorem C03_idempotent_exec_closed : forall fl fl' s d d' ind,
  parse_document fl s = Ok d -> exec_only d -> all_ws ind ->
  no_location fl' = true -> (fragment_variables fl = true -> fragment_variables fl' = true) ->
  parse_document fl' (print_ast ind true d) = Ok d' ->
  print_ast ind true d' = print_ast ind true d.
Proof. exact idempotent_exec_closed. Qed.
Print Assumptions C03_idempotent_exec_closed.

(* the same for standalone values and types (parse_value / parse_type) *)
Theorem C03_roundtrip_value_closed : forall fl fl' cf s v,
  parse_value_str fl s = Ok v -> all_ws (c_indent cf) -> no_location fl' = true ->
  parse_value_str fl' (pr_value cf v) = Ok (strip_value v).
Proof. exact roundtrip_value_closed. Qed.
Print Assumptions C03_roundtrip_value_closed.

Theorem C03_roundtrip_type_closed : forall fl fl' s t,
  parse_type_str fl s = Ok t -> no_location fl' = true ->
  parse_type_str fl' (pr_type t) = Ok (strip_ty t).
Proof. exact roundtrip_type_closed. Qed.
Print Assumptions C03_roundtrip_type_closed.

(* ---- complete documents: type-system definitions and extensions included ----
   [wf_doc]: every definition is a well-formed operation / fragment (as above) or
   a well-formed type-system definition / extension ([wf_sdef]: names are Names,
   implemented interfaces / union members are named types, operation types name
   types, directive locations are locations, extensions have at least one of
   their parts, descriptions of extensions are absent and block descriptions are
   canonical) without descriptions on fields, arguments, input fields and enum
   values ([member_desc_free]: exactly the complement of the open finding).
   All eight definition kinds and seven extension kinds, descriptions on
   definitions (quoted and block), default values, constant directives, both
   layouts of argument definitions, and the query shorthand after a definition
   without a block (fix C03-05: the printed tokens satisfy the [lookahead != {]
   disambiguation D_document_la of C01_document_complete). *)
Theorem C03_sdl_roundtrip : forall fl ind d,
  no_location fl = true -> allow_type_system fl = true -> all_ws ind ->
  wf_doc (fragment_variables fl) d ->
  parse_document fl (print_ast ind true d) = Ok (strip_doc d).
Proof. exact sdl_roundtrip. Qed.
Print Assumptions C03_sdl_roundtrip.

(* Property C03, closed, for every document the parser accepts that carries no
   member description: print then parse is the identity up to positions, for
   every indentation; and printing the re-parsed tree gives the same text. *)
Theorem C03_roundtrip_document_closed : forall fl fl' s d ind,
  parse_document fl s = Ok d -> no_member_descriptions d -> all_ws ind ->
  no_location fl' = true -> allow_type_system fl' = true ->
  (fragment_variables fl = true -> fragment_variables fl' = true) ->
  parse_document fl' (print_ast ind true d) = Ok (strip_doc d).
Proof. exact roundtrip_document_closed. Qed.
Print Assumptions C03_roundtrip_document_closed.

Theorem C03_idempotent_document_closed : forall fl fl' s d d' ind,
  parse_document fl s = Ok d -> no_member_descriptions d -> all_ws ind ->
  no_location fl' = true -> allow_type_system fl' = true ->
  (fragment_variables fl = true -> fragment_variables fl' = true) ->
  parse_document fl' (print_ast ind true d) = Ok d' ->
  print_ast ind true d' = print_ast ind true d.
Proof. exact idempotent_document_closed. Qed.
Print Assumptions C03_idempotent_document_closed.

(* ---- every accepted document, member descriptions included ----
   [forget_member_descriptions d] is d with the description of every field,
   argument, input field and enum value set to None and nothing else changed
   (C03_forget_fixed: the identity on documents that carry none).  For EVERY
   document the parser accepts the printed text is accepted again and gives
   back the original tree up to positions and up to exactly those descriptions
   (the open finding member-descriptions, stated exactly: this is all that
   is lost, and C03_descriptions_refuted below shows it is lost). *)
Theorem C03_roundtrip_document_total : forall fl fl' s d ind,
  parse_document fl s = Ok d -> all_ws ind ->
  no_location fl' = true -> allow_type_system fl' = true ->
  (fragment_variables fl = true -> fragment_variables fl' = true) ->
  parse_document fl' (print_ast ind true d) = Ok (strip_doc (forget_member_descriptions d)).
Proof. exact roundtrip_document_total. Qed.
Print Assumptions C03_roundtrip_document_total.

Theorem C03_forget_fixed : forall d,
  no_member_descriptions d -> forget_member_descriptions d = d.
Proof. exact forget_fixed. Qed.
Print Assumptions C03_forget_fixed.

(* print_ast(node, indent=n) with an integer n (the default is 2): n spaces,
   which [all_ws] covers -- the statement for the API's integer indents *)
Theorem C03_roundtrip_int_indent : forall fl fl' s d n,
  parse_document fl s = Ok d ->
  no_location fl' = true -> allow_type_system fl' = true ->
  (fragment_variables fl = true -> fragment_variables fl' = true) ->
  parse_document fl' (print_ast (indent_of_int n) true d) = Ok (strip_doc (forget_member_descriptions d)).
Proof. exact roundtrip_int_indent. Qed.
Print Assumptions C03_roundtrip_int_indent.

(* ... so the guard of C03_roundtrip_document_closed is exact: an accepted
   document round-trips (up to positions) if and only if it carries no member
   description.  Nothing else ever breaks the round trip, and every member
   description does. *)
Theorem C03_roundtrip_iff : forall fl fl' s d ind,
  parse_document fl s = Ok d -> all_ws ind ->
  no_location fl' = true -> allow_type_system fl' = true ->
  (fragment_variables fl = true -> fragment_variables fl' = true) ->
  (parse_document fl' (print_ast ind true d) = Ok (strip_doc d) <-> no_member_descriptions d).
Proof. exact roundtrip_iff. Qed.
Print Assumptions C03_roundtrip_iff.

(* the idempotence law with no side hypothesis on the document:
   print (parse (print d)) = print d for every accepted d and every indent *)
Theorem C03_idempotent_total : forall fl fl' s d d' ind,
  parse_document fl s = Ok d -> all_ws ind ->
  no_location fl' = true -> allow_type_system fl' = true ->
  (fragment_variables fl = true -> fragment_variables fl' = true) ->
  parse_document fl' (print_ast ind true d) = Ok d' ->
  print_ast ind true d' = print_ast ind true d.
Proof. exact idempotent_document_total. Qed.
Print Assumptions C03_idempotent_total.

(* and the re-parsed tree is a fixed point of parse . print *)
Theorem C03_reparse_stable : forall fl fl' s d ind,
  parse_document fl s = Ok d -> all_ws ind ->
  no_location fl' = true -> allow_type_system fl' = true ->
  (fragment_variables fl = true -> fragment_variables fl' = true) ->
  forall d', parse_document fl' (print_ast ind true d) = Ok d' ->
  parse_document fl' (print_ast ind true d') = Ok d'.
Proof. exact reparse_stable. Qed.
Print Assumptions C03_reparse_stable.

(* the two independent transcriptions of BlockStringValue (C02's and C03's)
   are the same function *)
Theorem C03_block_specs_agree : forall raw,
  LexSpec.block_string_value raw = PrinterSpec.block_string_value raw.
Proof. exact block_string_value_specs_agree. Qed.
Print Assumptions C03_block_specs_agree.

(* It is false for every parser, because descriptions of fields, arguments,
   input fields and enum values are not printed: two trees that differ (even
   after erasing locations) print to the same text for every indent. *)
Theorem C03_descriptions_refuted :
  strip_doc desc_witness_1 <> strip_doc desc_witness_2 /\
  forall ind incl, print_ast ind incl desc_witness_1 = print_ast ind incl desc_witness_2.
Proof. exact descriptions_refuted. Qed.
Print Assumptions C03_descriptions_refuted.

Theorem C03_roundtrip_full_refuted : forall parse,
  parse (print_ast [] true desc_witness_1) = Ok (strip_doc desc_witness_1) ->
  parse (print_ast [] true desc_witness_2) <> Ok (strip_doc desc_witness_2).
Proof.
  intros parse H1 H2. destruct C03_descriptions_refuted as [Hne Heq].
  rewrite <- (Heq [] true) in H2. rewrite H1 in H2. inversion H2.
Qed.
Print Assumptions C03_roundtrip_full_refuted.

(* non-vacuity *)
Local Open Scope string_scope.
Example C03_example_block :
  let v := block_string_value (str_of_string "
      Hello,
        World!

      Yours,
        GraphQL.
  ") in
  canon v /\
  block_value (reindent (str_of_string "    ") (block_string v (str_of_string "  ") false)
               ++ str_of_string ") }")%list = Some (v, str_of_string ") }") /\
  length (PrinterSpec.split_lines v) = 5%nat.
Proof.
  cbv zeta. split; [apply block_string_value_canon|]. split; [|vm_compute; reflexivity].
  apply block_print_roundtrip; [apply block_string_value_canon|reflexivity|reflexivity].
Qed.

Example C03_example_quote :
  json_quote [34; 92; 10; 7; 128512]%N
  = [34; 92; 34; 92; 92; 92; 110; 92; 117; 48; 48; 48; 55; 128512; 34]%N.
Proof. vm_compute. reflexivity. Qed.

Example C03_example_type :
  let nm x := Name (str_of_string x) (Some (1, 2)%nat) in
  let t := TNonNull (TList (TList (TNonNull (TNamed (nm "Foo_1") None) None) None) (Some (0, 9)%nat)) None in
  wf_ty t /\ pr_type t = str_of_string "[[Foo_1!]]!"
  /\ parse_type_str (Flags true false false) (pr_type t) = Ok (strip_ty t).
Proof.
  cbv zeta. split; [|split; [reflexivity|]].
  - simpl. repeat split. exists 70%N, (str_of_string "oo_1"). split; [reflexivity|]. split; [reflexivity|].
    repeat constructor.
  - apply type_roundtrip; [reflexivity|]. simpl. repeat split.
    exists 70%N, (str_of_string "oo_1"). split; [reflexivity|]. split; [reflexivity|]. repeat constructor.
Qed.


Example C03_example_value :
  let nm x := Name (str_of_string x) None in
  let blk := PrinterSpec.block_string_value (str_of_string "
      Hello,
        World!
  ") in
  let v := VObject [(nm "a", VList [VInt (str_of_string "1") None; VFloat (str_of_string "-2.5e3") None;
                                    VString [120; 34; 128512; 7]%N false None; VVar (nm "v") None;
                                    VEnum (str_of_string "RED") None; VBool true None; VNull None;
                                    VString blk true None; VObject [] None; VList [] None] None, None)] None in
  parse_value_str (Flags true false false) (pr_value (Cfg (str_of_string "  ") true) v) = Ok (strip_value v).
Proof. cbv zeta. vm_compute. reflexivity. Qed.

Example C03_example_exec_wf :
  let nm x := Name (str_of_string x) (Some (3, 4)%nat) in
  let d := Doc [DOperation OpQuery None [] [] (Some (0, 5)%nat)
                  [SField None (nm "a") [] [] None [] (Some (2, 3)%nat)] (Some (0, 5)%nat)] None in
  wf_exec_doc false d /\
  parse_document (Flags true false false) (print_ast (str_of_string "  ") true d) = Ok (strip_doc d).
Proof.
  cbv zeta. assert (Hv : valid_name (str_of_string "a")) by (exists 97%N, []; repeat split; constructor).
  assert (Hwf : wf_exec_doc false
            (Doc [DOperation OpQuery None [] [] (Some (0, 5)%nat)
                    [SField None (Name (str_of_string "a") (Some (3, 4)%nat)) [] [] None []
                            (Some (2, 3)%nat)] (Some (0, 5)%nat)] None)).
  { split; [discriminate|]. repeat constructor; try assumption; discriminate. }
  split; [exact Hwf|]. apply exec_roundtrip; [reflexivity|reflexivity|exact Hwf].
Qed.
