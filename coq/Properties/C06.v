(* C06 -- validation verdicts match the specification and ignore irrelevant
   order. Statements only; proofs are in Proofs/Valid*Proofs.v. The impl-shaped
   rules are coq/Valid/ValidRules.v, the order-free specification forms are
   coq/Spec/ValidSpec.v. *)
From PyGql Require Import Valid.ValidOverlap Spec.ValidSpec Proofs.ValidCloseProofs
     Proofs.ValidGraphProofs Proofs.ValidVarProofs Proofs.ValidPermProofs
     Proofs.ValidUnusedProofs Proofs.ValidSelPermProofs Proofs.ValidUniqueProofs
     Spec.ValidValueSpec Proofs.ValidValueProofs Spec.ValidLocalSpec Proofs.ValidLocalProofs
     Proofs.ValidVerdictProofs Proofs.ValidPermAllProofs Proofs.ValidSelPermAllProofs Proofs.ValidRenameProofs Proofs.ValidRenameAllProofs
     Spec.ValidTypedSpec Proofs.ValidValuesDocProofs Proofs.ValidVarPosProofs Proofs.ValidVerdict25Proofs Proofs.ValidRename25Proofs Proofs.ValidSelPerm25Proofs
     Proofs.ValidMemoProofs Proofs.ValidMemoComplete Proofs.ValidPermOverlap.
From Coq Require Import Permutation.

(* The closure iteration (repaired _flatten_fragments, and the reachable set
   of NoFragmentCycles._search) computes exactly the candidates reachable from
   the start set through the successor function, whenever it returns. *)
Theorem C06_close_reachability : forall g fuel cands S0 R,
  close fuel cands g S0 = Ok R -> forall x, In x R <-> creach g S0 cands x.
Proof.
  intros g fuel cands S0 R H x. split; [apply (close_sound g fuel cands S0 R H)|apply (close_complete g fuel cands S0 R H)].
Qed.
Print Assumptions C06_close_reachability.

(* NoFragmentCycles is silent exactly when the spread graph has no closed
   walk (fragment names unique, which UniqueFragmentNames checks). *)
Theorem C06_rule_equiv_NoFragmentCycles : forall s d,
  NoDup (frag_names d) ->
  (r14_no_fragment_cycles s d = Ok [] <-> ~ has_cycle d).
Proof. exact r14_equiv. Qed.
Print Assumptions C06_rule_equiv_NoFragmentCycles.

(* NoUnusedFragments: the implementation counts a spread anywhere as a use, so
   it agrees with reachability from operations jointly with the cycle rule:
   with unique fragment names and NoFragmentCycles silent, the rule is silent
   exactly when every defined fragment is reachable from an operation. *)
Theorem C06_rule_equiv_NoUnusedFragments_joint : forall s d,
  NoDup (frag_names d) -> r14_no_fragment_cycles s d = Ok [] ->
  (r12_no_unused_fragments s d = [] <-> spec_no_unused_fragments d).
Proof. exact r12_joint. Qed.
Print Assumptions C06_rule_equiv_NoUnusedFragments_joint.

(* NoUndefinedVariables / NoUnusedVariables over the transitive closure:
   silent exactly when every variable used by an operation -- in its own body
   or in any fragment reachable from it -- is defined by it, resp. every
   defined variable is so used (operation names unique, anonymous = ""). *)
Theorem C06_rule_equiv_NoUndefinedVariables : forall s d,
  NoDup (op_key_list d) ->
  (r16_no_undefined_variables s d = Ok [] <-> spec_no_undefined_variables d).
Proof. exact r16_equiv. Qed.
Print Assumptions C06_rule_equiv_NoUndefinedVariables.

Theorem C06_rule_equiv_NoUnusedVariables : forall s d,
  NoDup (op_key_list d) ->
  (r17_no_unused_variables s d = Ok [] <-> spec_no_unused_variables d).
Proof. exact r17_equiv. Qed.
Print Assumptions C06_rule_equiv_NoUnusedVariables.

Theorem C06_rule_equiv_KnownFragmentNames : forall s d,
  r11_known_fragment_names s d = [] <-> spec_known_fragment_names d.
Proof. exact r11_equiv. Qed.
Print Assumptions C06_rule_equiv_KnownFragmentNames.

(* ValuesOfCorrectType at a position of known input type (the context the
   TypeInfo model computes for arguments, list items, input object fields and
   variable defaults): no error below that position exactly when the literal
   is coercible to the type -- null only where nullable, lists item by item
   one level at a time ([[1]] is not an [Int]), a single value for a list,
   input objects field by field with all required fields, enum values by
   name, scalar literal kinds. Hypotheses: input object fields of the schema
   have input types; no `T!!`. *)
Theorem C06_rule_equiv_ValuesOfCorrectType_position : forall s,
  wf_inputs s ->
  forall v t, is_input_type s t = true -> wf_tref t ->
              (check_value s (Some t) v = [] <-> coercible s t v).
Proof. exact check_value_spec. Qed.
Print Assumptions C06_rule_equiv_ValuesOfCorrectType_position.

(* UniqueFragmentNames is silent exactly when the fragment names are pairwise
   distinct: it discharges the hypothesis of the fragment graph theorems. *)
Theorem C06_rule_equiv_UniqueFragmentNames : forall d,
  r10_unique_fragment_names d = [] <-> NoDup (frag_names d).
Proof. exact r10_equiv. Qed.
Print Assumptions C06_rule_equiv_UniqueFragmentNames.

Theorem C06_rule_equiv_LoneAnonymousOperation : forall d,
  r03_lone_anonymous d = [] <-> spec_lone_anonymous d.
Proof. exact r03_equiv. Qed.
Print Assumptions C06_rule_equiv_LoneAnonymousOperation.

(* ---- the local rules, each against its declarative form over the nodes met
        by static descent (Spec/ValidLocalSpec.v) ---- *)
Theorem C06_rule_equiv_ExecutableDefinitions : forall d, r01_executable d = [] <-> spec_executable_definitions d.
Proof. exact r01_equiv. Qed.
Print Assumptions C06_rule_equiv_ExecutableDefinitions.

Theorem C06_rule_equiv_SingleFieldSubscriptions : forall d, r04_single_field_subscription d = [] <-> spec_single_field_subscriptions d.
Proof. exact r04_equiv. Qed.
Print Assumptions C06_rule_equiv_SingleFieldSubscriptions.

Theorem C06_rule_equiv_KnownTypeNames : forall s d, r05_known_type_names s d = [] <-> spec_known_type_names s d.
Proof. exact r05_equiv. Qed.
Print Assumptions C06_rule_equiv_KnownTypeNames.

Theorem C06_rule_equiv_FragmentsOnCompositeTypes : forall s d, r06_fragments_on_composite s d = [] <-> spec_fragments_on_composite s d.
Proof. exact r06_equiv. Qed.
Print Assumptions C06_rule_equiv_FragmentsOnCompositeTypes.

Theorem C06_rule_equiv_VariablesAreInputTypes : forall s d, r07_variables_are_input_types s d = [] <-> spec_variables_are_input_types s d.
Proof. exact r07_equiv. Qed.
Print Assumptions C06_rule_equiv_VariablesAreInputTypes.

Theorem C06_rule_equiv_ScalarLeafs : forall s d, r08_scalar_leafs s d = [] <-> spec_scalar_leafs s d.
Proof. exact r08_equiv. Qed.
Print Assumptions C06_rule_equiv_ScalarLeafs.

Theorem C06_rule_equiv_FieldsOnCorrectType : forall s d, r09_fields_on_correct_type s d = [] <-> spec_fields_on_correct_type s d.
Proof. exact r09_equiv. Qed.
Print Assumptions C06_rule_equiv_FieldsOnCorrectType.

Theorem C06_rule_equiv_PossibleFragmentSpreads : forall s d, r13_possible_spreads s d = [] <-> spec_possible_spreads s d (frag_type_of s (doc_defs d)).
Proof. exact r13_equiv. Qed.
Print Assumptions C06_rule_equiv_PossibleFragmentSpreads.

Theorem C06_rule_equiv_UniqueVariableNames : forall d, r15_unique_variable_names d = [] <-> spec_unique_variable_names d.
Proof. exact r15_equiv. Qed.
Print Assumptions C06_rule_equiv_UniqueVariableNames.

Theorem C06_rule_equiv_KnownDirectives : forall s d, r18_known_directives s d = [] <-> spec_known_directives s d.
Proof. exact r18_equiv. Qed.
Print Assumptions C06_rule_equiv_KnownDirectives.

Theorem C06_rule_equiv_UniqueDirectivesPerLocation : forall s d, r19_unique_directives s d = [] <-> spec_unique_directives s d.
Proof. exact r19_equiv. Qed.
Print Assumptions C06_rule_equiv_UniqueDirectivesPerLocation.

Theorem C06_rule_equiv_KnownArgumentNames : forall s d, r20_known_argument_names s d = [] <-> spec_known_argument_names s d.
Proof. exact r20_equiv. Qed.
Print Assumptions C06_rule_equiv_KnownArgumentNames.

Theorem C06_rule_equiv_UniqueArgumentNames : forall s d, r21_unique_argument_names s d = [] <-> spec_unique_argument_names s d.
Proof. exact r21_equiv. Qed.
Print Assumptions C06_rule_equiv_UniqueArgumentNames.

Theorem C06_rule_equiv_ProvidedRequiredArguments : forall s d, r23_provided_required_arguments s d = [] <-> spec_provided_required_arguments s d.
Proof. exact r23_equiv. Qed.
Print Assumptions C06_rule_equiv_ProvidedRequiredArguments.

Theorem C06_rule_equiv_UniqueInputFieldNames : forall s d, r26_unique_input_field_names s d = [] <-> spec_unique_input_field_names s d.
Proof. exact r26_equiv. Qed.
Print Assumptions C06_rule_equiv_UniqueInputFieldNames.

(* UniqueOperationName keys anonymous operations by their kind; jointly with
   LoneAnonymousOperation it is silent exactly when the operation names
   (anonymous = "") are pairwise distinct. *)
Theorem C06_rule_equiv_UniqueOperationName_joint : forall d,
  r03_lone_anonymous d = [] -> (r02_unique_op_names d = [] <-> NoDup (op_key_list d)).
Proof. exact r02_joint. Qed.
Print Assumptions C06_rule_equiv_UniqueOperationName_joint.

(* The verdict: the 23 rules with a proved specification form (all but
   ValuesOfCorrectType -- proved per position above --, VariablesInAllowedPosition
   and OverlappingFieldsCanBeMerged) are all silent exactly when the document
   satisfies the conjunction [valid_spec] of their declarative forms. No
   hypothesis: the uniqueness conditions are members of the conjunction. *)
Theorem C06_verdict_partial : forall fuel s d,
  validate_rules fuel s d rules_with_spec = Ok [] <-> valid_spec s d.
Proof. exact verdict. Qed.
Print Assumptions C06_verdict_partial.

(* ... and that verdict is invariant under every permutation of the
   definitions (proved on [valid_spec], transported by the verdict theorem). *)
Theorem C06_perm_definitions : forall fuel s d d',
  Permutation (doc_defs d) (doc_defs d') ->
  (validate_rules fuel s d rules_with_spec = Ok [] <-> validate_rules fuel s d' rules_with_spec = Ok []).
Proof. exact perm_definitions_all. Qed.
Print Assumptions C06_perm_definitions.

(* ... and under reordering the selections of every selection set and the
   arguments of every field and directive, at every depth. *)
Theorem C06_perm_selections_arguments : forall fuel s d d',
  doc_perm d d' ->
  (validate_rules fuel s d rules_with_spec = Ok [] <-> validate_rules fuel s d' rules_with_spec = Ok []).
Proof. exact perm_selections_arguments_all. Qed.
Print Assumptions C06_perm_selections_arguments.

(* Consistent renaming: fragment names through an injective [rho] (definitions
   and spreads alike), variable names through an injective [sigma] (definitions
   and uses alike), aliases arbitrarily ([ren_doc]): the graph / set rules keep
   their verdict. The other rules are covered by the metamorphic `rename`
   variants of the correspondence only. *)
Theorem C06_rename_partial : forall rho sigma : str -> str,
  (forall a b, rho a = rho b -> a = b) -> (forall a b, sigma a = sigma b -> a = b) ->
  forall s d d',
  ren_doc rho sigma d d' -> NoDup (frag_names d) -> NoDup (op_key_list d) ->
  (r14_no_fragment_cycles s d = Ok [] <-> r14_no_fragment_cycles s d' = Ok []) /\
  (r16_no_undefined_variables s d = Ok [] <-> r16_no_undefined_variables s d' = Ok []) /\
  (r17_no_unused_variables s d = Ok [] <-> r17_no_unused_variables s d' = Ok []) /\
  (r11_known_fragment_names s d = [] <-> r11_known_fragment_names s d' = []) /\
  (r14_no_fragment_cycles s d = Ok [] ->
   (r12_no_unused_fragments s d = [] <-> r12_no_unused_fragments s d' = [])).
Proof. exact rename_graph_rules. Qed.
Print Assumptions C06_rename_partial.

(* ... and the whole verdict of the 23 rules of [valid_spec] is invariant under
   the same renaming ([ren_doc] keeps field, argument, directive, input-field
   and type names, variable types and the presence of defaults; aliases are
   free). Distinctness is kept because [rho] and [sigma] are injective; no
   other hypothesis. *)
Theorem C06_rename : forall rho sigma : str -> str,
  (forall a b, rho a = rho b -> a = b) -> (forall a b, sigma a = sigma b -> a = b) ->
  forall fuel s d d',
  ren_doc rho sigma d d' ->
  (validate_rules fuel s d rules_with_spec = Ok [] <-> validate_rules fuel s d' rules_with_spec = Ok []).
Proof. exact rename_all. Qed.
Print Assumptions C06_rename.

(* ---- the two rules about input positions, at document level ---- *)
(* ValuesOfCorrectType: silent exactly when every argument of a node met by
   descent (resp. of a directive) is coercible to the type the schema gives
   that argument, and every variable default to the variable's type.
   Hypotheses: schema input fields / arguments and the variable types have
   (well formed) input types; every directive is known (an unknown directive's
   arguments are typed against the enclosing field's arguments by the code). *)
Theorem C06_rule_equiv_ValuesOfCorrectType : forall s,
  wf_inputs s -> forall d, wf_arg_types s -> wf_var_types s d -> spec_known_directives s d ->
  (r22_values_of_correct_type s d = [] <-> spec_values_of_correct_type s d).
Proof. exact r22_equiv. Qed.
Print Assumptions C06_rule_equiv_ValuesOfCorrectType.

(* VariablesInAllowedPosition: silent exactly when every typed position at
   which an operation uses a variable -- in its own body or in a fragment
   reachable from it, through lists and input object fields -- allows the
   variable's declared type (IsVariableUsageAllowed, with the location default
   and the variable default). Hypotheses: unique operation names, unique
   variable names per operation, every directive known. *)
Theorem C06_rule_equiv_VariablesInAllowedPosition : forall s d,
  NoDup (op_key_list d) -> spec_unique_variable_names d -> spec_known_directives s d ->
  (r24_variables_in_allowed_position s d = Ok [] <-> spec_variables_in_allowed_position s d).
Proof. exact r24_equiv. Qed.
Print Assumptions C06_rule_equiv_VariablesInAllowedPosition.

(* The verdict of the 25 rules other than OverlappingFieldsCanBeMerged: all
   silent exactly when the conjunction of the 25 declarative forms holds (the
   uniqueness and known-directive conditions are members of the conjunction;
   the remaining hypotheses are about the schema and the variable types). *)
Theorem C06_verdict_25 : forall fuel s d,
  wf_inputs s -> wf_arg_types s -> wf_var_types s d ->
  (validate_rules fuel s d rules_but_overlap = Ok [] <-> valid_spec25 s d).
Proof. exact verdict25. Qed.
Print Assumptions C06_verdict_25.

Theorem C06_perm_definitions_25 : forall fuel s d d',
  wf_inputs s -> wf_arg_types s -> wf_var_types s d ->
  Permutation (doc_defs d) (doc_defs d') ->
  (validate_rules fuel s d rules_but_overlap = Ok [] <-> validate_rules fuel s d' rules_but_overlap = Ok []).
Proof. exact perm_definitions25. Qed.
Print Assumptions C06_perm_definitions_25.

(* ... under reordering the selections of every selection set and the
   arguments of every field and directive, at every depth ... *)
Theorem C06_perm_selections_arguments_25 : forall fuel s d d',
  wf_inputs s -> wf_arg_types s -> wf_var_types s d ->
  doc_perm d d' ->
  (validate_rules fuel s d rules_but_overlap = Ok [] <-> validate_rules fuel s d' rules_but_overlap = Ok []).
Proof. exact perm_selections_arguments25. Qed.
Print Assumptions C06_perm_selections_arguments_25.

(* ... and under consistent renaming of fragments ([rho]), variables ([sigma])
   and aliases: the verdict of the 25 rules other than
   OverlappingFieldsCanBeMerged is unchanged (ValuesOfCorrectType: a literal is
   coercible whatever its variables are called; VariablesInAllowedPosition:
   the renamed variable keeps its type, its default and its positions). *)
Theorem C06_rename_25 : forall rho sigma : str -> str,
  (forall a b, rho a = rho b -> a = b) -> (forall a b, sigma a = sigma b -> a = b) ->
  forall fuel s d d',
  wf_inputs s -> wf_arg_types s -> wf_var_types s d ->
  ren_doc rho sigma d d' ->
  (validate_rules fuel s d rules_but_overlap = Ok [] <-> validate_rules fuel s d' rules_but_overlap = Ok []).
Proof. exact rename25. Qed.
Print Assumptions C06_rename_25.

(* ---- OverlappingFieldsCanBeMerged against its own memo-free search ----
   [conflict_free s frs c] (Proofs/ValidMemoProofs.v; unfolding rule [step]):
   the search from call c WITHOUT the two memo sets meets no conflict at any
   depth (greatest fixed point; the memo-free search tree is infinite on cyclic
   spreads). With the stated fuel the rule is silent exactly when every call it
   makes for a visited selection set -- all same-key pairs of the set, the set
   against each of its spreads, all pairs of its spreads -- is conflict free:
   the memo sets (keys with the exclusivity flag; a field map identified by the
   location of its selection set) change nothing in the verdict. Hypothesis
   [faithful_locations]: locations identify field maps (C05_faithful_locations
   derives it from distinct locations and rule verdicts). *)
Theorem C06_rule_equiv_OverlappingFieldsCanBeMerged_memo_free : forall s d,
  faithful_locations s d ->
  (r25_overlapping_fields (overlap_fuel s d) s d = Ok [] <->
   forall parent l sels, In (ESelSet parent l sels) (doc_events s d) ->
     forall c, In c (selset_calls s parent l sels) -> conflict_free s (frag_table (doc_defs d)) c).
Proof. exact r25_equiv_memo_free. Qed.
Print Assumptions C06_rule_equiv_OverlappingFieldsCanBeMerged_memo_free.

(* The half without any hypothesis, any fuel: the rule reports a conflict only
   if the memo-free search meets one. *)
Theorem C06_overlap_reports_only_conflicts : forall fuel s d r,
  r25_overlapping_fields fuel s d = Ok r -> r <> [] ->
  ~ (forall parent l sels, In (ESelSet parent l sels) (doc_events s d) ->
       forall c, In c (selset_calls s parent l sels) -> conflict_free s (frag_table (doc_defs d)) c).
Proof. exact r25_reports_only_conflicts. Qed.
Print Assumptions C06_overlap_reports_only_conflicts.

(* The memo-free search does not depend on the order in which two sides are
   compared (field maps have one entry per response key). *)
Theorem C06_conflict_free_symmetric : forall s frs c,
  keyed c -> conflict_free s frs c -> conflict_free s frs (mirror_call c).
Proof. exact conflict_free_mirror. Qed.
Print Assumptions C06_conflict_free_symmetric.

(* Full statement: the whole verdict is invariant under permutation of the
   definitions. *)
Definition C06_perm_definitions_full : Prop :=
  forall fuel s d d', Permutation (doc_defs d) (doc_defs d') ->
    (validate_model fuel s d = Ok [] <-> validate_model fuel s d' = Ok []).

(* The verdict of all 26 rules: the validator (stated fuel) accepts exactly the
   documents that satisfy the 25 declarative forms and whose memo-free
   overlapping-fields search meets no conflict ([overlap_spec]). *)
Theorem C06_verdict_26 : forall s d,
  wf_inputs s -> wf_arg_types s -> wf_var_types s d -> faithful_locations s d ->
  (validate s d = Ok [] <-> valid_spec25 s d /\ overlap_spec s d).
Proof. exact verdict26. Qed.
Print Assumptions C06_verdict_26.

(* Proved for ALL 26 rules, with the stated fuel of each document and under
   hypotheses: input types well formed (rules 22, 24) and locations identify
   field maps (rule 25; C05_faithful_locations). OverlappingFieldsCanBeMerged
   goes through its equivalence with the memo-free search: the memo sets are
   filled in another order when the definitions are permuted, the memo-free
   search is the same. *)
Theorem C06_perm_definitions_all26 : forall s d d',
  wf_inputs s -> wf_arg_types s -> wf_var_types s d ->
  faithful_locations s d ->
  Permutation (doc_defs d) (doc_defs d') ->
  (validate s d = Ok [] <-> validate s d' = Ok []).
Proof. exact perm_definitions_all26. Qed.
Print Assumptions C06_perm_definitions_all26.

(* Proved part: for the rules with a proved specification form the verdict is
   invariant under every permutation of the definitions (proved on the
   specification side and transported). The other rules are covered by the
   metamorphic correspondence only. *)
Theorem C06_perm_definitions_partial : forall s d d',
  Permutation (doc_defs d) (doc_defs d') ->
  NoDup (frag_names d) -> NoDup (op_key_list d) ->
  (r14_no_fragment_cycles s d = Ok [] <-> r14_no_fragment_cycles s d' = Ok []) /\
  (r16_no_undefined_variables s d = Ok [] <-> r16_no_undefined_variables s d' = Ok []) /\
  (r17_no_unused_variables s d = Ok [] <-> r17_no_unused_variables s d' = Ok []) /\
  (r11_known_fragment_names s d = [] <-> r11_known_fragment_names s d' = []).
Proof. exact perm_definitions. Qed.
Print Assumptions C06_perm_definitions_partial.

(* The same rules are invariant under reordering the selections of every
   selection set and the arguments of every field and directive, at every
   depth (doc_perm relates the two documents definition by definition). *)
Theorem C06_perm_selections_arguments_partial : forall s d d',
  doc_perm d d' -> NoDup (frag_names d) -> NoDup (op_key_list d) ->
  (r14_no_fragment_cycles s d = Ok [] <-> r14_no_fragment_cycles s d' = Ok []) /\
  (r16_no_undefined_variables s d = Ok [] <-> r16_no_undefined_variables s d' = Ok []) /\
  (r17_no_unused_variables s d = Ok [] <-> r17_no_unused_variables s d' = Ok []) /\
  (r11_known_fragment_names s d = [] <-> r11_known_fragment_names s d' = []).
Proof. exact perm_selections_arguments. Qed.
Print Assumptions C06_perm_selections_arguments_partial.

(* non-vacuity: a document with a transitive fragment chain defined in an
   order the unrepaired single pass got wrong, and a cyclic one *)
Local Open Scope string_scope.
Example C06_example :
  let nm x := Name (str_of_string x) None in
  let s := Schema [(str_of_string "Q", TObject [] [SField_ (str_of_string "a") [SArg (str_of_string "i") (RNamed (str_of_string "Int")) false]
                                                        (RNamed (str_of_string "Int"))]);
                   (str_of_string "Int", TScalar SkInt)]
                  (Some (str_of_string "Q")) None None [] in
  let tq := TNamed (nm "Q") None in
  let fr n sels := DFragment (nm n) [] tq [] None sels None in
  let op := DOperation OpQuery (Some (nm "Op")) [VarDef (nm "v") None (TNamed (nm "Int") None) None [] None] []
                       None [SSpread (nm "A") [] None] None in
  let use := SField None (nm "a") [Arg (nm "i") (VVar (nm "v") None) None] [] None [] None in
  let chain := Doc [fr "B" [SSpread (nm "C") [] None]; fr "A" [SSpread (nm "B") [] None]; fr "C" [use]; op] None in
  let cyc := Doc [fr "A" [SSpread (nm "B") [] None; SSpread (nm "C") [] None]; fr "B" [use];
                  fr "C" [SSpread (nm "B") [] None; SSpread (nm "A") [] None]; op] None in
  NoDup (frag_names chain) /\ NoDup (op_key_list chain) /\
  validate_model 100 s chain = Ok [] /\
  r14_no_fragment_cycles s cyc = Ok [(14%N, None); (14%N, None)].
Proof.
  vm_compute. repeat split; try reflexivity;
    repeat (constructor; [simpl; intuition discriminate|]); constructor.
Qed.
