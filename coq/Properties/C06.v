(* C06 -- validation verdicts match the specification and ignore irrelevant
   order. Statements only; proofs are in Proofs/Valid*Proofs.v. The impl-shaped
   rules are coq/Valid/ValidRules.v, the order-free specification forms are
   coq/Spec/ValidSpec.v. *)
From PyGql Require Import Valid.ValidOverlap Spec.ValidSpec Proofs.ValidCloseProofs
     Proofs.ValidGraphProofs Proofs.ValidVarProofs Proofs.ValidPermProofs
     Proofs.ValidUnusedProofs Proofs.ValidSelPermProofs Proofs.ValidUniqueProofs
     Spec.ValidValueSpec Proofs.ValidValueProofs.
From Coq Require Import Permutation.

(* The closure iteration (repaired _flatten_fragments, and the reachable set
   of NoFragmentCycles._search) computes exactly the candidates reachable from
   the start set through the successor function, whenever it returns. *)
Theorem C06_close_reachability : forall g fuel cands S0 R,
  close fuel cands g S0 = Ok R -> forall x, In x R <-> creach g S0 cands x.
Proof.
  intros g fuel cands S0 R H x. split; [apply (close_sound g fuel cands S0 R H)|apply (close_complete g fuel cands S0 R H)].
Qed.
Print Assumptions C06_close_reachability.

(* NoFragmentCycles is silent exactly when the spread graph has no closed
   walk (fragment names unique, which UniqueFragmentNames checks). *)
Theorem C06_rule_equiv_NoFragmentCycles : forall s d,
  NoDup (frag_names d) ->
  (r14_no_fragment_cycles s d = Ok [] <-> ~ has_cycle d).
Proof. exact r14_equiv. Qed.
Print Assumptions C06_rule_equiv_NoFragmentCycles.

(* NoUnusedFragments: the implementation counts a spread anywhere as a use, so
   it agrees with reachability from operations jointly with the cycle rule:
   with unique fragment names and NoFragmentCycles silent, the rule is silent
   exactly when every defined fragment is reachable from an operation. *)
Theorem C06_rule_equiv_NoUnusedFragments_joint : forall s d,
  NoDup (frag_names d) -> r14_no_fragment_cycles s d = Ok [] ->
  (r12_no_unused_fragments s d = [] <-> spec_no_unused_fragments d).
Proof. exact r12_joint. Qed.
Print Assumptions C06_rule_equiv_NoUnusedFragments_joint.

(* NoUndefinedVariables / NoUnusedVariables over the transitive closure:
   silent exactly when every variable used by an operation -- in its own body
   or in any fragment reachable from it -- is defined by it, resp. every
   defined variable is so used (operation names unique, anonymous = ""). *)
Theorem C06_rule_equiv_NoUndefinedVariables : forall s d,
  NoDup (op_key_list d) ->
  (r16_no_undefined_variables s d = Ok [] <-> spec_no_undefined_variables d).
Proof. exact r16_equiv. Qed.
Print Assumptions C06_rule_equiv_NoUndefinedVariables.

Theorem C06_rule_equiv_NoUnusedVariables : forall s d,
  NoDup (op_key_list d) ->
  (r17_no_unused_variables s d = Ok [] <-> spec_no_unused_variables d).
Proof. exact r17_equiv. Qed.
Print Assumptions C06_rule_equiv_NoUnusedVariables.

Theorem C06_rule_equiv_KnownFragmentNames : forall s d,
  r11_known_fragment_names s d = [] <-> spec_known_fragment_names d.
Proof. exact r11_equiv. Qed.
Print Assumptions C06_rule_equiv_KnownFragmentNames.

(* ValuesOfCorrectType at a position of known input type (the context the
   TypeInfo model computes for arguments, list items, input object fields and
   variable defaults): no error below that position exactly when the literal
   is coercible to the type -- null only where nullable, lists item by item
   one level at a time ([[1]] is not an [Int]), a single value for a list,
   input objects field by field with all required fields, enum values by
   name, scalar literal kinds. Hypotheses: input object fields of the schema
   have input types; no `T!!`. *)
Theorem C06_rule_equiv_ValuesOfCorrectType_position : forall s,
  wf_inputs s ->
  forall v t, is_input_type s t = true -> wf_tref t ->
              (check_value s (Some t) v = [] <-> coercible s t v).
Proof. exact check_value_spec. Qed.
Print Assumptions C06_rule_equiv_ValuesOfCorrectType_position.

(* UniqueFragmentNames is silent exactly when the fragment names are pairwise
   distinct: it discharges the hypothesis of the fragment graph theorems. *)
Theorem C06_rule_equiv_UniqueFragmentNames : forall d,
  r10_unique_fragment_names d = [] <-> NoDup (frag_names d).
Proof. exact r10_equiv. Qed.
Print Assumptions C06_rule_equiv_UniqueFragmentNames.

Theorem C06_rule_equiv_LoneAnonymousOperation : forall d,
  r03_lone_anonymous d = [] <-> spec_lone_anonymous d.
Proof. exact r03_equiv. Qed.
Print Assumptions C06_rule_equiv_LoneAnonymousOperation.

(* Full statement: the whole verdict is invariant under permutation of the
   definitions. *)
Definition C06_perm_definitions_full : Prop :=
  forall fuel s d d', Permutation (doc_defs d) (doc_defs d') ->
    (validate_model fuel s d = Ok [] <-> validate_model fuel s d' = Ok []).

(* Proved part: for the rules with a proved specification form the verdict is
   invariant under every permutation of the definitions (proved on the
   specification side and transported). The other rules are covered by the
   metamorphic correspondence only. *)
Theorem C06_perm_definitions_partial : forall s d d',
  Permutation (doc_defs d) (doc_defs d') ->
  NoDup (frag_names d) -> NoDup (op_key_list d) ->
  (r14_no_fragment_cycles s d = Ok [] <-> r14_no_fragment_cycles s d' = Ok []) /\
  (r16_no_undefined_variables s d = Ok [] <-> r16_no_undefined_variables s d' = Ok []) /\
  (r17_no_unused_variables s d = Ok [] <-> r17_no_unused_variables s d' = Ok []) /\
  (r11_known_fragment_names s d = [] <-> r11_known_fragment_names s d' = []).
Proof. exact perm_definitions. Qed.
Print Assumptions C06_perm_definitions_partial.

(* The same rules are invariant under reordering the selections of every
   selection set and the arguments of every field and directive, at every
   depth (doc_perm relates the two documents definition by definition). *)
Theorem C06_perm_selections_arguments_partial : forall s d d',
  doc_perm d d' -> NoDup (frag_names d) -> NoDup (op_key_list d) ->
  (r14_no_fragment_cycles s d = Ok [] <-> r14_no_fragment_cycles s d' = Ok []) /\
  (r16_no_undefined_variables s d = Ok [] <-> r16_no_undefined_variables s d' = Ok []) /\
  (r17_no_unused_variables s d = Ok [] <-> r17_no_unused_variables s d' = Ok []) /\
  (r11_known_fragment_names s d = [] <-> r11_known_fragment_names s d' = []).
Proof. exact perm_selections_arguments. Qed.
Print Assumptions C06_perm_selections_arguments_partial.

(* non-vacuity: a document with a transitive fragment chain defined in an
   order the unrepaired single pass got wrong, and a cyclic one *)
Local Open Scope string_scope.
Example C06_example :
  let nm x := Name (str_of_string x) None in
  let s := Schema [(str_of_string "Q", TObject [] [SField_ (str_of_string "a") [SArg (str_of_string "i") (RNamed (str_of_string "Int")) false]
                                                        (RNamed (str_of_string "Int"))]);
                   (str_of_string "Int", TScalar SkInt)]
                  (Some (str_of_string "Q")) None None [] in
  let tq := TNamed (nm "Q") None in
  let fr n sels := DFragment (nm n) [] tq [] None sels None in
  let op := DOperation OpQuery (Some (nm "Op")) [VarDef (nm "v") None (TNamed (nm "Int") None) None [] None] []
                       None [SSpread (nm "A") [] None] None in
  let use := SField None (nm "a") [Arg (nm "i") (VVar (nm "v") None) None] [] None [] None in
  let chain := Doc [fr "B" [SSpread (nm "C") [] None]; fr "A" [SSpread (nm "B") [] None]; fr "C" [use]; op] None in
  let cyc := Doc [fr "A" [SSpread (nm "B") [] None; SSpread (nm "C") [] None]; fr "B" [use];
                  fr "C" [SSpread (nm "B") [] None; SSpread (nm "A") [] None]; op] None in
  NoDup (frag_names chain) /\ NoDup (op_key_list chain) /\
  validate_model 100 s chain = Ok [] /\
  r14_no_fragment_cycles s cyc = Ok [(14%N, None); (14%N, None)].
Proof.
  vm_compute. repeat split; try reflexivity;
    repeat (constructor; [simpl; intuition discriminate|]); constructor.
Qed.
