(* C19 -- depth limiting flags exactly the operations deeper than the limit.
   Statements only; proofs are in Proofs/DepthProofs.v. *)
From PyGql Require Import Spec.DepthSpec Proofs.DepthProofs Proofs.DepthTermination Proofs.DepthWrapNamed.

(* Whenever the model of the validator's depth measure returns a number, that
   number is the length of the longest field path through the selection,
   through inline fragments and fragment spreads at every level, merging
   same-key fields, honouring @skip/@include -- for every fragment table,
   variable assignment, selection list and amount of fuel. *)
Theorem C19_exact : forall frags vs fuel ss d,
  sel_depth fuel frags vs ss = Ok d -> is_depth frags vs ss d.
Proof. exact sel_depth_exact. Qed.
Print Assumptions C19_exact.

(* The rule flags operation number j with depth dep exactly when definition j
   is an operation selected by the name filter whose longest field path has
   length dep + 1 and dep exceeds the limit; nothing else is flagged. *)
Theorem C19_flagged_iff : forall fuel limit filter d vs l,
  max_depth_rule fuel limit filter d vs = Ok l ->
  forall j dep, In (j, dep) l <->
    exists m, j = N.of_nat m /\
              flagged_spec limit filter (frag_table_of (doc_defs d)) vs (doc_defs d) m dep.
Proof.
  intros fuel limit filter d vs l H j dep. unfold max_depth_rule in H.
  rewrite (rule_from_spec _ _ _ _ _ _ _ _ H j dep).
  split; intros (m & -> & Hm); exists m; (split; [reflexivity|exact Hm]).
Qed.
Print Assumptions C19_flagged_iff.

(* Wrapping part of a selection in an inline fragment (that is not skipped)
   never changes the measured depth. *)
Theorem C19_wrap_inline : forall frags vs fuel1 fuel2 pre post tc ds ssl sub l d1 d2,
  included vs ds = true ->
  sel_depth fuel1 frags vs (pre ++ SInline tc ds ssl sub l :: post) = Ok d1 ->
  sel_depth fuel2 frags vs (pre ++ sub ++ post) = Ok d2 ->
  d1 = d2.
Proof.
  intros frags vs fuel1 fuel2 pre post tc ds ssl sub l d1 d2 Hi H1 H2.
  apply sel_depth_exact in H1. apply sel_depth_exact in H2.
  apply (is_depth_wrap_inline frags vs pre post tc ds ssl sub l d1 Hi) in H1.
  exact (is_depth_unique _ _ _ _ _ H1 H2).
Qed.
Print Assumptions C19_wrap_inline.

(* Moving part of a selection into a named fragment with a fresh name and
   spreading it in place never changes the measured depth either. *)
Theorem C19_wrap_named : forall frags vs n tc0 sub0 fuel1 fuel2 pre post nm ds l d1 d2,
  fresh_frags frags n -> fresh_in n sub0 -> fresh_in n pre -> fresh_in n post ->
  n_val nm = n -> included vs ds = true ->
  sel_depth fuel1 ((n, (tc0, sub0)) :: frags) vs (pre ++ SSpread nm ds l :: post) = Ok d1 ->
  sel_depth fuel2 frags vs (pre ++ sub0 ++ post) = Ok d2 ->
  d1 = d2.
Proof.
  intros frags vs n tc0 sub0 fuel1 fuel2 pre post nm ds l d1 d2 Hff Hs Hpre Hpost Hn Hi H1 H2.
  apply sel_depth_exact in H1. apply sel_depth_exact in H2.
  apply (is_depth_wrap_named frags vs n tc0 sub0 Hff Hs pre post nm ds l d1 Hn Hi Hpre Hpost) in H1.
  exact (is_depth_unique _ _ _ _ _ H1 H2).
Qed.
Print Assumptions C19_wrap_named.

(* The rule never fails with anything but the library's coercion error
   (ill-formed @skip/@include arguments) -- in particular not on flat
   operations. *)
Theorem C19_total : forall fuel limit filter d vs k,
  max_depth_rule fuel limit filter d vs <> Crash k.
Proof. intros; apply rule_from_no_crash. Qed.
Print Assumptions C19_total.

(* Fuel adequacy = termination of the validator: when the document's
   fragments are acyclic (some rank function strictly decreases along every
   fragment spread occurring anywhere inside a fragment -- what the
   NoFragmentCycles rule guarantees), the model never runs out of fuel once it
   has enough: the recursion of the code terminates, for every document,
   limit, filter and variable assignment. *)
Theorem C19_terminates : forall (d : document) vs rank limit filter,
  acyclic (frag_table_of (doc_defs d)) rank ->
  exists fuel0, forall fuel, fuel0 <= fuel ->
    max_depth_rule fuel limit filter d vs <> OutOfFuel.
Proof.
  intros d vs rank limit filter Hac.
  destruct (rule_terminates (frag_table_of (doc_defs d)) vs rank Hac limit filter (doc_defs d)) as [f0 H].
  exists f0. intros fuel Hle. apply H; exact Hle.
Qed.
Print Assumptions C19_terminates.

(* non-vacuity: a concrete document on which the premises hold *)
Local Open Scope string_scope.
Example C19_example :
  let f n sub := SField None (Name (str_of_string n) None) [] [] (Some None) sub None in
  let leaf n := SField None (Name (str_of_string n) None) [] [] None [] None in
  let spread n := SSpread (Name (str_of_string n) None) [] None in
  let tn := TNamed (Name (str_of_string "T") None) None in
  let d := Doc [ DOperation OpQuery None [] [] None [spread "F"; leaf "x"] None;
                 DFragment (Name (str_of_string "F") None) [] tn [] None
                           [f "a" [SInline None [] None [f "b" [leaf "c"]] None]] None ] None in
  max_depth_rule 50 1 None d [] = Ok [(0%N, 2%Z)] /\
  max_depth_rule 50 2 None d [] = Ok [].
Proof. vm_compute. split; reflexivity. Qed.
