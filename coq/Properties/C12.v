(* C12 -- schema -> SDL -> schema is the identity; printing is history-independent.

   Model: Schema/SdlPrint.v (print_schema, node_of_value) and Schema/SdlBuild.v
   (the way back).  Spec: Spec/SdlRoundtripSpec.v (block_string_value,
   printable, conforms, ast_of_schema, schema_okb).  Proofs:
   Proofs/SdlPrintProofs.v, SdlTextProofs.v, SdlTextSchemaProofs.v (text =
   print_ast of C03), SdlDocRoundtripProofs.v (document -> schema),
   SdlValidInvProofs.v, SdlDocRulesProofs.v (the document obeys the rules),
   SdlTextRoundtripProofs.v (composition).  Statements only. *)
From PyGql Require Import Lang.PrinterModel Spec.PrinterSpec Proofs.PrinterSdlRoundtrip Spec.LexSpec Proofs.PrinterValueRoundtrip.
From PyGql Require Import Run.Driver Spec.SdlSpec Schema.SdlPrint Schema.SdlIntro Spec.SdlRoundtripSpec
     Proofs.SdlPrintProofs Proofs.SdlTextProofs Lang.Parser.
From PyGql Require Import Proofs.SdlTextSchemaProofs Proofs.SdlDescLexProofs Proofs.SdlTextDescProofs Proofs.SdlMemberDescProofs Proofs.SdlDescClassProofs
     Proofs.SdlDocRoundtripProofs Proofs.SdlValidInvProofs Proofs.SdlDocRulesProofs Proofs.SdlTextRoundtripProofs
     Proofs.SdlInstanceProofs.
From Coq Require Import Lia.

(* ---- full-strength statements (kept visible) -------------------------- *)

(* every printable description is read back from the printed block string *)
Definition C12_description_roundtrip_full : Prop :=
  forall o desc depth,
    printable desc (depth * length (po_indent o)) = true ->
    block_string_value (unescape_triple (description_body o desc depth)) = desc.

(* the document a SDL-expressible schema prints to builds an equivalent schema *)
(* (false as it stands: C12_members_roundtrip_refuted; with the guards that
   exclude the open findings it is C12_members_roundtrip_guarded) *)
Definition C12_members_roundtrip_full : Prop :=
  forall sc, schema_okb sc = true -> members_roundtrip sc = true.

(* text level: parse (print s) builds s, and printing that again gives the
   same text; [parse] is the parser model of C01.  Proved for schemas without
   descriptions / defaults / applied custom directives (C12_fixpoint_partial);
   beyond that it rests on the correspondence (printed text equal to the
   model's, accepted by the real parser, rebuilt dump equal, second print
   equal) *)
Definition C12_roundtrip_full (parse : str -> outcome document) : Prop :=
  forall o sc text,
    schema_okb sc = true -> po_introspection o = false ->
    print_schema introspection_types specified_ddefs o sc = Ok text ->
    exists d sc', parse text = Ok d /\ build_model (BOpts true []) d = Ok sc'
                  /\ print_schema introspection_types specified_ddefs o sc' = Ok text.

(* ---- proved ----------------------------------------------------------- *)

(* default values of every input kind, input objects nested to any depth
   included: the literal the printer writes for a conforming value coerces
   back to that value, at every fuel above a bound, whether the builder forces
   defaults eagerly or not.  [conforms] (Spec/SdlRoundtripSpec.v) leaves out:
   integral-valued and exponent-repr floats, int values of custom scalars
   (C12_custom_int_roundtrip), and strings of custom scalars that are number
   literals (the open finding) *)
Theorem C12_default_roundtrip_partial : forall E t v,
  conforms E t v ->
  exists k, forall fuel, k <= fuel ->
    exists n, node_of_value fuel E v t = Ok n
              /\ forall eager fuel', k <= fuel' -> coerce fuel' eager E [] t n = Ok v.
Proof. exact default_roundtrip. Qed.
Print Assumptions C12_default_roundtrip_partial.

(* int values of custom scalars: printed as a FloatValue node holding the
   integer's text, which the printed document carries as an IntValue *)
Theorem C12_custom_int_roundtrip : forall E n z fuel fuel' eager stack,
  mem_str n specified_scalars = false -> alookup n E = Some IScalar ->
  node_of_value (S fuel) E (PInt z) (RNamed n) = Ok (VFloat (str_of_Z z) None)
  /\ coerce (S fuel') eager E stack (RNamed n) (VInt (str_of_Z z) None) = Ok (PInt z).
Proof. exact custom_int_roundtrip. Qed.
Print Assumptions C12_custom_int_roundtrip.

(* open finding custom-scalar-numeric-string-default: a *string* default of a
   custom scalar whose text is a GraphQL number literal is printed as that
   number and builds back as a number; C12_members_roundtrip_full is false *)
Definition numeric_string_schema : schema :=
  Sch [TObject (s "Query") None []
         [SF (s "a") (s "a") [SIV (s "x") (s "x") (RNamed (s "S")) (Some (PStr (s "1.50"))) None []]
             (RNamed (s "Int")) None None []] [];
       TScalar (s "S") None []]
      [] (Some (s "Query")) None None [].

Theorem C12_members_roundtrip_refuted :
  exists sc, schema_okb sc = true /\ members_roundtrip sc = false.
Proof. exists numeric_string_schema; split; vm_compute; reflexivity. Qed.
Print Assumptions C12_members_roundtrip_refuted.

(* descriptions of one line without double quotes that do not end with a
   backslash (those are laid out as a block since /repo 6320d32, fixes/C12-07:
   next theorem) *)
Theorem C12_description_roundtrip_partial : forall o desc depth,
  forallb plain_char desc = true -> blank desc = false -> length desc < 70 ->
  length desc <= 120 - length (ind o depth) ->
  last desc 0%N <> 92%N ->
  description_body o desc depth = desc
  /\ block_string_value (unescape_triple (description_body o desc depth)) = desc.
Proof. exact description_roundtrip_single_line. Qed.
Print Assumptions C12_description_roundtrip_partial.

(* descriptions laid out as a block -- several lines, or one line of 70
   characters or more: every line without double quotes and within the width
   (so the printer does not re-wrap it), empty or starting with a non-blank
   character, first and last line not empty, the indent made of spaces and
   tabs.  BlockStringValue of the printed body is the description. *)
Theorem C12_description_roundtrip_block : forall o desc depth,
  let lines := split_nl desc in
  let indent := ind o depth in
  blank indent = true ->
  forallb clean_line lines = true ->
  forallb (fun l => Nat.leb (length l) (120 - length indent)) lines = true ->
  hd [] lines <> [] -> last lines [] <> [] ->
  (2 <= length lines \/ 70 <= length (hd [] lines) \/ ends_with_qb (hd [] lines) = true) ->
  block_string_value (unescape_triple (description_body o desc depth)) = desc.
Proof. exact description_roundtrip_block. Qed.
Print Assumptions C12_description_roundtrip_block.

(* members: type references with their wrappers, and deprecations (with and
   without reason, next to any custom directives), survive the printed document *)
Theorem C12_members_roundtrip_partial :
  (forall t, tref_of (ty_of_tref t) = t)
  /\ (forall dep ds, deprecation_reason (deprecated_dir dep ++ custom_dirs ds) = Ok dep).
Proof. split; [exact tref_roundtrip|exact deprecation_roundtrip]. Qed.
Print Assumptions C12_members_roundtrip_partial.

(* every kind: the definition the printer emits for a type (fields, arguments,
   input fields, enum values, union members, interfaces, wrappers,
   descriptions, deprecations, custom directives) declares that type again,
   modulo applied directives named like specified ones, provided the printed
   literal of every default coerces back at the declared type ([default_rt]:
   C12_default_roundtrip_partial gives it for conforming values; it fails
   exactly for the open finding).  With C11_exact_build the builder returns
   the declared schema, so what C12_members_roundtrip_full still lacks is the
   document level: that the printed document satisfies sdl_rules_ok /
   defaults_stable, and the permutation introduced by sorting the types. *)
Theorem C12_members_roundtrip_kinds : forall Ep E t d,
  tdef_sdl t = true -> def_of_tdef Ep t = Ok d ->
  (forall a, In a (tdef_ivalues t) -> default_rt Ep E a) ->
  map strip_tdef (decl_type E d) = [strip_tdef t].
Proof. exact kind_roundtrip. Qed.
Print Assumptions C12_members_roundtrip_kinds.

Theorem C12_directive_roundtrip : forall Ep E dd d,
  forallb siv_sdl (dd_args dd) = true -> nonempty_desc (dd_desc dd) = true ->
  def_of_ddef Ep dd = Ok d -> (forall a, In a (dd_args dd) -> default_rt Ep E a) ->
  decl_directive E d
  = [DD (dd_name dd) (dd_desc dd) (dd_locs dd) (map (decl_ivalue E) (match d with DDirective _ _ args _ _ => args | _ => [] end))]
  /\ map strip_siv (match decl_directive E d with [x] => dd_args x | _ => [] end) = map strip_siv (dd_args dd).
Proof. exact directive_roundtrip. Qed.
Print Assumptions C12_directive_roundtrip.

(* text level, for the sub-language of type references: the text the schema
   printer writes for a type reference is parsed back to that reference by the
   parser model of C01 (Lang/Parser.v); composed through the round trip the
   C03 builder proved for the AST printer.  For whole schemas the composition
   C12_roundtrip_full waits for a lexing lemma for the schema printer's
   layout, see docs/C12.md. *)
Theorem C12_text_roundtrip_type_references : forall fl t,
  no_location fl = true -> wf_tref t ->
  parse_type_str fl (print_tref t) = Ok (ty_of_tref t) /\ tref_of (ty_of_tref t) = t.
Proof. exact type_reference_text_roundtrip. Qed.
Print Assumptions C12_text_roundtrip_type_references.

(* ---- phases 3 / 4: composition with the AST printer round trip of C03 ---- *)

(* ASTSchemaPrinter lays the document out itself (it does not subclass
   ASTPrinter; only values and applied directives go through print_ast).  For
   schemas without descriptions ([text_schema], Proofs/SdlTextSchemaProofs.v:
   default values whose literal is a plain GraphQL literal, applied custom
   directives with plain arguments that the options print in full, all six
   kinds, deprecations, directive definitions) the two layouts coincide: the
   text is what the AST printer model of C03 writes for [ast_of_schema]. *)
Theorem C12_text_is_ast_print_partial : forall o intro spec sc,
  text_schema o sc -> po_introspection o = false ->
  ast_of_schema sc = Ok (doc_of sc)
  /\ print_schema intro spec o sc = Ok (print_ast (po_indent o) true (doc_of sc)).
Proof. intros o intro spec sc H Hi. split; [apply (ast_of_schema_plain o); exact H|apply print_is_print_ast; assumption]. Qed.
Print Assumptions C12_text_is_ast_print_partial.

(* the literal ast_node_from_value emits for a default is a plain GraphQL
   literal (what [text_schema] asks of defaults), for every Python value whose
   float reprs are number literals (repr of a finite float) in an environment
   whose enum value and input field names are names: IntValue / FloatValue
   texts (str(int), the _INT_RE / _FLOAT_RE classes), non-block strings,
   booleans, null, enum names, lists, input objects; no locations *)
Theorem C12_default_literal_plain : forall E, env_names_ok E -> forall fuel v t n,
  floats_ok v -> node_of_value fuel E v t = Ok n ->
  good_value n /\ PrinterValueRoundtrip.wf_value true (relex n) /\ strip_value (relex n) = relex n
  /\ forall cf cf', pr_value cf (relex n) = pr_value cf' n.
Proof.
  intros E HE fuel v t n Hf Hn. pose proof (node_good E HE fuel v t n Hf Hn) as G.
  split; [exact G|]. split; [apply good_wf; exact G|]. split; [apply good_strip; exact G|].
  intros cf cf'. apply good_print; exact G.
Qed.
Print Assumptions C12_default_literal_plain.

(* ... hence (C03_sdl_roundtrip) the parser model of C01 reads the printed
   text back as exactly that document.  Descriptions: the schema printer lays
   them out itself (one-line and block form), so this part does not go through
   print_ast: the description text -- triple quote, body, triple quote -- is one
   block string token whose value is BlockStringValue of the body
   (lex_description_text, composed from read_block_complete / block_body_scan
   of C01 / C03), put in front of the definition's tokens (add_description).
   [desc_schema] (Proofs/SdlTextDescProofs.v): descriptions on types and
   directive definitions that satisfy [desc_ok] -- printed by the options,
   source characters, scanned and read back by BlockStringValue as the
   description ([desc_body_ok]; the classes below, with or without double
   quotes, satisfy it) (a one-line
   description ending with a backslash is laid out in the multi-line form
   since /repo 6320d32, fixes/C12-07: ends_with_qb in the model); members
   carry no descriptions. *)
Theorem C12_text_parse_partial : forall intro spec o fl sc text,
  full_schema o sc -> valid_locations sc -> po_introspection o = false ->
  no_location fl = true -> allow_type_system fl = true -> all_ws (po_indent o) ->
  print_schema intro spec o sc = Ok text ->
  parse_document fl text = Ok (doc_f o sc) /\ ast_of_schema sc = Ok (doc_f o sc).
Proof. exact text_parses_full. Qed.
Print Assumptions C12_text_parse_partial.

(* [full_schema] (Proofs/SdlMemberDescProofs.v) extends [desc_schema] with
   descriptions on fields, enum values, input fields (depth 1: the
   description block is indented, a blank line separates described members)
   and arguments: of fields (depth 2) and of directive definitions (depth 1),
   in the one-argument-per-line layout the printer switches to as soon as one
   argument is described.  [full_schema] also carries the validity of the
   locations of directive definitions. *)
Theorem C12_desc_schema_is_full_schema : forall o sc,
  desc_schema o sc -> valid_locations sc -> full_schema o sc.
Proof. exact desc_schema_full. Qed.
Print Assumptions C12_desc_schema_is_full_schema.

Theorem C12_text_schema_is_desc_schema : forall o sc, text_schema o sc -> desc_schema o sc.
Proof. exact text_schema_desc. Qed.
Print Assumptions C12_text_schema_is_desc_schema.

(* the text of a description is one block string token *)
Theorem C12_description_lexes : forall body rest pos,
  noquote_body body ->
  exists e, forall f,
    Lexer.lex_from (S f) ((34 :: 34 :: 34 :: body ++ 34 :: 34 :: 34 :: rest)%N) pos
    = Lexer.LT (Token.PTok Token.KBlockString (block_string_value body) pos e) :: Lexer.lex_from f rest e.
Proof. exact lex_description_text. Qed.
Print Assumptions C12_description_lexes.

(* in general: whatever body the scanner of C01 / C03 reads between the triple
   quotes as [raw] ([scan_body]: escaped triple quotes unescaped), the token's
   value is BlockStringValue of [raw]; a text with its triple quotes escaped
   that does not end with a double quote or a backslash scans back to itself
   (lex_escaped of C03) *)
Theorem C12_description_lexes_escaped : forall body raw rest pos,
  scan_body body raw ->
  exists e, forall f,
    Lexer.lex_from (S f) ((34 :: 34 :: 34 :: body ++ 34 :: 34 :: 34 :: rest)%N) pos
    = Lexer.LT (Token.PTok Token.KBlockString (block_string_value raw) pos e) :: Lexer.lex_from f rest e.
Proof. exact lex_description_raw. Qed.
Print Assumptions C12_description_lexes_escaped.

Theorem C12_description_escaped_scan : forall w : str,
  w <> [] -> last w 0%N <> 34%N -> last w 0%N <> 92%N -> Forall SourceCharacter w ->
  scan_body (escape_triple w) w.
Proof. exact escaped_scan. Qed.
Print Assumptions C12_description_escaped_scan.

(* the description classes of C12_description_roundtrip_partial / _block
   are inside [desc_ok]; so are one-line descriptions with double quotes *)
Theorem C12_description_class_single_line_quotes : forall o desc,
  po_descriptions o = true ->
  forallb line_char desc = true -> blank desc = false -> length desc < 70 ->
  last desc 0%N <> 34%N -> last desc 0%N <> 92%N -> Forall SourceCharacter desc ->
  desc_ok o (Some desc).
Proof. exact desc_ok_single_line_quotes. Qed.
Print Assumptions C12_description_class_single_line_quotes.

(* the block layout with double quotes on the lines (a one-line description
   ending with a double quote is laid out this way, too): the body is the
   escaped form of the indented lines, which end with the line break and the
   indent in front of the closing quotes *)
Theorem C12_description_class_block_quotes : forall o desc,
  po_descriptions o = true -> desc <> [] ->
  forallb qclean_line (split_nl desc) = true ->
  forallb (fun l => Nat.leb (length l) 120) (split_nl desc) = true ->
  hd [] (split_nl desc) <> [] -> last (split_nl desc) [] <> [] ->
  (2 <= length (split_nl desc) \/ 70 <= length (hd [] (split_nl desc)) \/ ends_with_qb (hd [] (split_nl desc)) = true) ->
  Forall SourceCharacter desc ->
  desc_ok o (Some desc).
Proof. exact desc_ok_block_quotes. Qed.
Print Assumptions C12_description_class_block_quotes.

Theorem C12_description_class_single_line : forall o desc,
  po_descriptions o = true ->
  forallb plain_char desc = true -> blank desc = false -> length desc < 70 ->
  last desc 0%N <> 92%N -> Forall SourceCharacter desc ->
  desc_ok o (Some desc).
Proof. exact desc_ok_single_line. Qed.
Print Assumptions C12_description_class_single_line.

Theorem C12_description_class_block : forall o desc,
  po_descriptions o = true -> desc <> [] ->
  forallb clean_line (split_nl desc) = true ->
  forallb (fun l => Nat.leb (length l) 120) (split_nl desc) = true ->
  hd [] (split_nl desc) <> [] -> last (split_nl desc) [] <> [] ->
  (2 <= length (split_nl desc) \/ 70 <= length (hd [] (split_nl desc)) \/ ends_with_qb (hd [] (split_nl desc)) = true) ->
  Forall SourceCharacter desc ->
  desc_ok o (Some desc).
Proof. exact desc_ok_block. Qed.
Print Assumptions C12_description_class_block.

(* C12_members_roundtrip at the document level, for every SDL-expressible
   schema (descriptions, defaults, directives included): if the document of
   the schema obeys the type-system rules of C11 and lies outside the two open
   findings of C11 ([defaults_stable]), and every default prints to a literal
   that coerces back ([default_rt]; C12_default_roundtrip_partial gives that
   for conforming values, it fails exactly for the open finding
   custom-scalar-numeric-string-default), then the builder returns the
   declared schema and that is equivalent to the schema printed. *)
Theorem C12_members_roundtrip_document : forall sc d,
  schema_okb sc = true -> ast_of_schema sc = Ok d ->
  (forall a, In a (schema_ivalues sc) -> default_rt (env_of_schema [] sc) (declared_env d) a) ->
  sdl_rules_ok d -> defaults_stable d ->
  build_model (BOpts true []) d = Ok (declared d)
  /\ roundtrip_equiv (declared d) sc = true
  /\ members_roundtrip sc = true.
Proof. exact members_roundtrip_doc. Qed.
Print Assumptions C12_members_roundtrip_document.

(* the document of an SDL-expressible schema obeys the type-system rules of
   C11: validity of a schema does not depend on the order of its types nor on
   applied directives named like specified ones (validate_schema_perm,
   validate_schema_strip in Proofs/SdlValidInvProofs.v), references, input
   types, unique members, root operation types carry over *)
Theorem C12_document_rules_ok : forall sc d,
  schema_okb sc = true -> ast_of_schema sc = Ok d ->
  (forall a, In a (schema_ivalues sc) -> default_rt (env_of_schema [] sc) (declared_env d) a) ->
  sdl_rules_ok d.
Proof. exact ast_rules_ok. Qed.
Print Assumptions C12_document_rules_ok.

(* C12_members_roundtrip_full with its guards: the complements of the open
   findings -- [default_rt] (custom-scalar-numeric-string-default: given by
   C12_default_roundtrip_partial for conforming values) and [defaults_stable]
   of the emitted document (the two open findings of C11) *)
Theorem C12_members_roundtrip_guarded : forall sc d,
  schema_okb sc = true -> ast_of_schema sc = Ok d ->
  (forall a, In a (schema_ivalues sc) -> default_rt (env_of_schema [] sc) (declared_env d) a) ->
  defaults_stable d ->
  sdl_rules_ok d
  /\ build_model (BOpts true []) d = Ok (declared d)
  /\ roundtrip_equiv (declared d) sc = true
  /\ members_roundtrip sc = true.
Proof. exact members_roundtrip_guarded. Qed.
Print Assumptions C12_members_roundtrip_guarded.

(* C12_roundtrip through the parser model, for [full_schema] schemas:
   parse (print s) builds a schema equivalent to s.  [defaults_guard] are the
   guards that exclude the open findings: every default's literal coerces back
   (custom-scalar-numeric-string-default; C12_default_roundtrip_partial gives
   it for conforming values above a fuel bound) and [defaults_stable] of the
   emitted document (the findings of C11; no extensions are emitted, so only
   input-default-self-cycle can fail).  Without default values both hold
   (C12_no_defaults_guard). *)
Theorem C12_text_roundtrip_partial : forall intro spec o fl sc text,
  full_schema o sc -> valid_locations sc -> schema_okb sc = true -> defaults_guard sc ->
  po_introspection o = false ->
  no_location fl = true -> allow_type_system fl = true -> all_ws (po_indent o) ->
  print_schema intro spec o sc = Ok text ->
  exists d sc', parse_document fl text = Ok d
                /\ build_model (BOpts true []) d = Ok sc'
                /\ roundtrip_equiv sc' sc = true
                /\ declares_again sc sc'.
Proof. exact text_roundtrip_full. Qed.
Print Assumptions C12_text_roundtrip_partial.

Theorem C12_no_defaults_guard : forall sc d, ast_of_schema sc = Ok d -> no_defaults sc -> defaults_guard sc.
Proof. exact no_defaults_guard. Qed.
Print Assumptions C12_no_defaults_guard.

(* ... and printing the rebuilt schema gives the same text (C12_roundtrip_full
   restricted to [full_schema], with the equivalence added) *)
Theorem C12_fixpoint_partial : forall intro spec o fl sc text,
  full_schema o sc -> valid_locations sc -> schema_okb sc = true -> defaults_guard sc ->
  po_introspection o = false ->
  no_location fl = true -> allow_type_system fl = true -> all_ws (po_indent o) ->
  print_schema intro spec o sc = Ok text ->
  exists d sc', parse_document fl text = Ok d
                /\ build_model (BOpts true []) d = Ok sc'
                /\ roundtrip_equiv sc' sc = true
                /\ print_schema intro spec o sc' = Ok text.
Proof. exact text_roundtrip_fixpoint_full. Qed.
Print Assumptions C12_fixpoint_partial.

(* any schema that declares [sc] again (sorted, equal up to applied directives
   named like specified ones) prints like [sc] *)
Theorem C12_fixpoint_declares_again : forall intro spec o sc sc',
  full_schema o sc -> all_ws (po_indent o) -> has_dup (map tdef_name (s_types sc)) = false -> declares_again sc sc' ->
  po_introspection o = false ->
  print_schema intro spec o sc' = print_schema intro spec o sc.
Proof. exact fixpoint_declares_again_full. Qed.
Print Assumptions C12_fixpoint_declares_again.

(* the printer is a function of (schema, options): the same arguments give the
   same text at any two positions of any two call histories *)
Theorem C12_pure : forall intro spec (h1 h2 : list (popts * schema)) o sc i j,
  nth_error h1 i = Some (o, sc) -> nth_error h2 j = Some (o, sc) ->
  nth_error (map (fun '(o, sc) => print_schema intro spec o sc) h1) i
  = nth_error (map (fun '(o, sc) => print_schema intro spec o sc) h2) j.
Proof. exact print_pure. Qed.
Print Assumptions C12_pure.

(* ---- non-vacuity / instances ------------------------------------------ *)

Definition ex_env : env :=
  [(s "Color", IEnum [(s "RED", PInt 1); (s "GREEN", PStr (s "g"))]); (s "Date", IScalar)].

Definition ex_env2 : env :=
  ex_env ++ [(s "In", IInput [IF (s "fooBar") (s "foo_bar") (RNamed (s "Int")) (DPv (PInt 1));
                               IF (s "color") (s "color") (RList (RNamed (s "Color"))) DNo;
                               IF (s "self") (s "self") (RNamed (s "In")) DNo])].

Example C12_conforms_instance :
  conforms ex_env (RNonNull (RList (RNamed (s "Color")))) (PList [PInt 1; PNone; PStr (s "g")])
  /\ conforms ex_env (RList (RNonNull (RNamed (s "Date")))) (PList [PStr (s "2020-01-01"); PBool true; PFloat (s "2.5")])
  /\ conforms ex_env (RNamed (s "Float")) (PFloat (s "1.5"))
  /\ conforms ex_env (RNonNull (RNamed (s "Int"))) (PInt (-2147483647))
  /\ conforms ex_env2 (RNamed (s "In"))
        (PDict [(s "foo_bar", PInt 7); (s "self", PDict [(s "foo_bar", PInt 1); (s "color", PList [PInt 1])])]).
Proof.
  repeat split.
  - exists 0. apply cf_nonnull; [reflexivity|discriminate|].
    apply cf_list_cons; [eapply cf_enum; try reflexivity; discriminate|].
    apply cf_list_cons; [apply cf_null; reflexivity|].
    apply cf_list_cons; [eapply cf_enum; try reflexivity; discriminate|apply cf_list_nil].
  - exists 0. apply cf_list_cons; [apply cf_nonnull; [reflexivity|discriminate|apply cf_custom_str; reflexivity]|].
    apply cf_list_cons; [apply cf_nonnull; [reflexivity|discriminate|apply cf_custom_bool; reflexivity]|].
    apply cf_list_cons; [apply cf_nonnull; [reflexivity|discriminate|apply cf_custom_float; reflexivity]|].
    apply cf_list_nil.
  - exists 0. apply cf_float; reflexivity.
  - exists 0. apply cf_nonnull; [reflexivity|discriminate|apply cf_int; reflexivity].
  - exists 2. eapply cf_input; try reflexivity.
    + repeat constructor; simpl; intuition discriminate.
    + intros fd [<-|[<-|[<-|[]]]]; split; cbn; intros; try discriminate; try (split; reflexivity).
      * inversion H; subst. apply cf_int; reflexivity.
      * inversion H; subst. eapply cf_input; try reflexivity.
        -- repeat constructor; simpl; intuition discriminate.
        -- intros fd [<-|[<-|[<-|[]]]]; split; cbn; intros; try discriminate; try (split; reflexivity).
           ++ inversion H0; subst. apply cf_int; reflexivity.
           ++ inversion H0; subst. apply cf_list_cons; [eapply cf_enum; try reflexivity; discriminate|apply cf_list_nil].
Qed.

(* multi-line descriptions, indentation, quotes and triple quotes: instances of
   the full statement, by computation *)
Example C12_description_instances :
  let o := POpts (s "    ") true false CustomOff in
  forallb (fun '(d, depth) => printable d (depth * 4) && description_roundtrips o d depth)
    [([102; 105; 114; 115; 116; 10; 32; 32; 105; 110; 100; 101; 110; 116; 101; 100; 10; 108; 97; 115; 116]%N, 0);
     ([101; 110; 100; 115; 32; 119; 105; 116; 104; 32; 34]%N, 1);
     ([116; 114; 105; 112; 108; 101; 32; 34; 34; 34; 32; 113]%N, 1);
     ([32; 32; 108; 101; 97; 100; 105; 110; 103]%N, 2);
     ([97; 10; 10; 98]%N, 1)] = true.
Proof. vm_compute; reflexivity. Qed.

Example C12_description_block_instance :
  let o := POpts (s "    ") true false CustomOff in
  let desc := [102; 105; 114; 115; 116; 10; 10; 115; 101; 99; 111; 110; 100; 32; 108; 105; 110; 101]%N in
  blank (ind o 1) = true /\ forallb clean_line (split_nl desc) = true
  /\ hd [] (split_nl desc) <> [] /\ last (split_nl desc) [] <> [] /\ 2 <= length (split_nl desc).
Proof. repeat split; try (vm_compute; reflexivity); try (vm_compute; discriminate). vm_compute; lia. Qed.

Example C12_members_instance :
  let sc := Sch [TObject (s "Query") (Some (s "root")) []
                   [SF (s "a") (s "a") [SIV (s "x") (s "x") (RList (RNamed (s "Int"))) (Some (PList [PInt 5])) None []]
                       (RNonNull (RNamed (s "E"))) None (Some (s "old")) []] [];
                 TEnum (s "E") None [SEV (s "A") (PStr (s "A")) None (Some default_deprecation) []] []]
                [] (Some (s "Query")) None None [] in
  schema_okb sc = true /\ members_roundtrip sc = true.
Proof. split; vm_compute; reflexivity. Qed.

(* the hypotheses of C12_text_roundtrip_partial / C12_fixpoint_partial hold of a
   schema with an object, an interface, arguments with defaults (Int, list of
   enum, input object, String with an escape), a deprecated field and a
   deprecated enum value, applied custom directives with arguments, a union,
   an input type with defaults and a directive definition, descriptions in the
   one-line and in the block layout on types, the directive definition, fields,
   an enum value and an input field ([plain_example], Proofs/SdlInstanceProofs.v);
   the conclusion is also checked by computation (text, document, rebuilt
   schema, second print) *)
Example C12_text_roundtrip_instance :
  full_schema example_opts plain_example /\ valid_locations plain_example
  /\ schema_okb plain_example = true /\ defaults_guard plain_example.
Proof. exact text_roundtrip_instance. Qed.

Example C12_fixpoint_instance :
  let o := example_opts in
  match print_schema introspection_types specified_ddefs o plain_example with
  | Ok text =>
      match parse_document (Flags true true false) text with
      | Ok d => match build_model (BOpts true []) d with
                | Ok sc' => roundtrip_equiv sc' plain_example
                            && match print_schema introspection_types specified_ddefs o sc' with
                               | Ok text' => str_eqb text' text
                               | _ => false
                               end
                | _ => false
                end
      | _ => false
      end
  | _ => false
  end = true.
Proof. exact fixpoint_instance. Qed.
