(* C01 -- the parser accepts exactly the GraphQL grammar and fails only with
   syntax errors.  Statements only; proofs are in Proofs/*.v.
   Model: Lang/Lexer.v, Lang/Parser.v, Lang/Loc.v.  Specs: Spec/LexSpec.v,
   Spec/GrammarSpec.v. *)
(* printer-side vocabulary first, so that the lexer / parser names below win *)
From PyGql Require Import Spec.PrinterSpec Proofs.PrinterExecRoundtrip.
From PyGql Require Import Lang.Parser Lang.Loc Spec.LexSpec Spec.GrammarSpec Spec.OutcomeSpec
  Proofs.LexProofs Proofs.LexTotal Proofs.ParserFramework Proofs.ParserTotal Proofs.ParserTop
  Proofs.GrammarProofs Proofs.EntryProofs Proofs.LocProofs
  Spec.DocGrammarSpec Proofs.DocGrammarSound Proofs.DocGrammarComplete Proofs.DocEntryProofs
  Spec.LexicalSpec Proofs.LexicalProofs Proofs.AcceptProofs
  Spec.SdlGrammarSpec Proofs.SdlGrammarSound Proofs.SdlGrammarComplete Proofs.SdlLookahead Proofs.SdlEntryProofs
  Spec.ExecOnlySpec Proofs.ParseOutputWf Proofs.FollowProofs Proofs.StrictAcceptProofs
  Spec.LexErrorSpec Proofs.LexErrorProofs Proofs.LexErrorComplete Proofs.ErrorOrigin
  Spec.ViablePrefixSpec Proofs.ViableTypeProofs Proofs.ViableValueProofs.

(* ---- numbers: the automaton of _read_number accepts exactly IntValue /
   FloatValue followed by an admissible character ---- *)

(* Whatever the lexer reads as a number is an IntValue (is_float = false) or a
   FloatValue (is_float = true) of the spec, taken verbatim from the text, and
   is followed by neither a digit, nor a NameStart character, nor -- for an
   IntValue -- a dot.  (A dot after a FloatValue is left to the next token:
   the one documented slack, see C01_follow_slack.) *)
Theorem C01_number_sound : forall rest pos fl r e,
  read_number rest pos = Ok (fl, r, e) ->
  exists lexeme, rest = lexeme ++ r /\ e = pos + length lexeme /\
    (fl = false -> IntValue lexeme) /\ (fl = true -> FloatValue lexeme) /\ follow_impl fl r.
Proof. exact read_number_sound. Qed.
Print Assumptions C01_number_sound.

(* Every IntValue / FloatValue of the spec followed by an admissible rest
   (not a digit, not a dot, not NameStart) is read, whole, with the right class. *)
Theorem C01_number_complete : forall lexeme r pos,
  follow_ok r ->
  (IntValue lexeme -> read_number (lexeme ++ r) pos = Ok (false, r, pos + length lexeme)) /\
  (FloatValue lexeme -> read_number (lexeme ++ r) pos = Ok (true, r, pos + length lexeme)).
Proof. exact read_number_complete. Qed.
Print Assumptions C01_number_complete.

(* ---- totality ---- *)

(* The lexer model, run with fuel S (length s), ends for every text with a
   token list (all offsets ordered and inside the text) or a syntax error. *)
Theorem C01_lexer_total : forall s,
  match lex s with
  | Ok ts => Forall (fun t => tstart t <= tend t /\ tend t <= length s) ts
  | Rejected k p => position_ok s k p
  | OutOfFuel => False
  | Crash _ => False
  end.
Proof. exact lexer_total. Qed.
Print Assumptions C01_lexer_total.

(* For every text, every flag triple and every entry point the model answers
   with a tree or with a syntax error: never any other failure, and the fuel
   S (number of tokens) always suffices. *)
Theorem C01_total_outcome : forall fl s,
  ok_or_rejected (parse_document fl s) /\ ok_or_rejected (parse_value_str fl s)
  /\ ok_or_rejected (parse_type_str fl s).
Proof. exact total_outcome. Qed.
Print Assumptions C01_total_outcome.

(* ---- error positions ---- *)

(* full strength (what the property demands): every reported position lies
   inside the text *)
Definition C01_error_position_full : Prop :=
  forall fl s k p, parse_value_str fl s = Rejected k p -> p <= length s.

(* proved: inside the text, except for a quoted string whose escape sequence is
   cut off by the end of the text (then NonTerminatedString at length + 1);
   see Spec/OutcomeSpec.v position_ok *)
Theorem C01_error_position_partial : forall fl s,
  rejected_at_ok s (parse_document fl s) /\ rejected_at_ok s (parse_value_str fl s)
  /\ rejected_at_ok s (parse_type_str fl s).
Proof. exact error_position. Qed.
Print Assumptions C01_error_position_partial.

(* the open finding: the text QUOTE BACKSLASH is rejected at position 3 *)
Theorem C01_error_position_refuted : ~ C01_error_position_full.
Proof.
  intros H. specialize (H (Flags false false false) [34%N; 92%N] E_NonTerminatedString 3 eq_refl).
  simpl in H. lia.
Qed.
Print Assumptions C01_error_position_refuted.

(* ---- rejections against a specification ----
   Where a rejection comes from: the parser itself only raises UnexpectedToken
   and UnexpectedEOF, at offsets inside the text; every other rejection of
   parse / parse_value / parse_type is the lexer's rejection of the same text,
   class and offset (all flag triples). *)
Theorem C01_rejection_origin : forall fl s,
  (forall k p, parse_document fl s = Rejected k p -> (syntactic k /\ p <= length s) \/ lex s = Rejected k p)
  /\ (forall k p, parse_value_str fl s = Rejected k p -> (syntactic k /\ p <= length s) \/ lex s = Rejected k p)
  /\ (forall k p, parse_type_str fl s = Rejected k p -> (syntactic k /\ p <= length s) \/ lex s = Rejected k p).
Proof. exact rejection_origin. Qed.
Print Assumptions C01_rejection_origin.

(* The lexer rejects a text with class k at offset p EXACTLY when the
   declarative table of Spec/LexErrorSpec.v gives (k, p) as the text's first
   lexical error: the text is cut into tokens of the lexical grammar as far
   as possible, and class and offset are those the table gives for the lexeme
   that cannot be completed (bad_dots / bad_string / bad_block / bad_number /
   invalid or unexpected character). *)
Theorem C01_lexer_rejection_spec : forall s k p, lex s = Rejected k p <-> lex_error s k p.
Proof. exact lex_error_iff. Qed.
Print Assumptions C01_lexer_rejection_spec.

(* the table is functional, and a text has a token sequence or a first
   lexical error, never both *)
Theorem C01_lex_error_functional : forall s k p k' p',
  lex_error s k p -> lex_error s k' p' -> k = k' /\ p = p'.
Proof. exact lex_error_functional. Qed.
Print Assumptions C01_lex_error_functional.

Theorem C01_lexes_or_lex_error : forall s,
  ((exists ts, lexes_slack s ts) \/ (exists k p, lex_error s k p))
  /\ (forall k p ts, lex_error s k p -> ~ lexes_slack s ts).
Proof. intros s. split; [apply lexes_or_lex_error|intros k p ts; apply lex_error_not_lexes]. Qed.
Print Assumptions C01_lexes_or_lex_error.

(* Together: class and offset of every rejection with a class only the lexer
   raises (InvalidCharacter, UnexpectedCharacter, NonTerminatedString,
   InvalidEscapeSequence) are specified. *)
Theorem C01_lexical_rejection_spec : forall fl s k p, lexical k ->
  (parse_document fl s = Rejected k p \/ parse_value_str fl s = Rejected k p \/ parse_type_str fl s = Rejected k p) ->
  lex_error s k p.
Proof. exact lexical_rejection_spec. Qed.
Print Assumptions C01_lexical_rejection_spec.

(* ---- which token the parser blames (Spec/ViablePrefixSpec.v) ----
   parse_type / parse_value: a rejection is the lexer's, or it is raised at the
   start of a token t of the text's token stream such that the tokens before t
   are a prefix of some sentence SOF Type EOF (resp. SOF Value EOF) and
   extended by t they are not: the first token at which the text stops being a
   viable prefix.  The class is UnexpectedToken, for values UnexpectedEOF when
   t is the EOF token and the value grammar (not a punctuator) expected more. *)
Theorem C01_type_blamed_token : forall fl s k p,
  parse_type_str fl s = Rejected k p ->
  lex s = Rejected k p
  \/ exists pre t post, lex_stream s = map LT pre ++ LT t :: post /\ p = tstart t /\ k = E_UnexpectedToken
                        /\ blamed (type_sentence (no_location fl)) pre t.
Proof. exact parse_type_blame. Qed.
Print Assumptions C01_type_blamed_token.

Theorem C01_value_blamed_token : forall fl s k p,
  parse_value_str fl s = Rejected k p ->
  lex s = Rejected k p
  \/ exists pre t post, lex_stream s = map LT pre ++ LT t :: post /\ p = tstart t
       /\ (k = E_UnexpectedToken \/ (k = E_UnexpectedEOF /\ tk t = KEOF))
       /\ blamed (value_sentence (no_location fl)) pre t.
Proof. exact parse_value_blame. Qed.
Print Assumptions C01_value_blamed_token.

(* on a text that lexes, in terms of its token sequence; and the blamed token is unique *)
Theorem C01_blamed_token_of_tokens : forall fl s ts k p, lex s = Ok ts ->
  (parse_type_str fl s = Rejected k p ->
     exists pre t post, ts = pre ++ t :: post /\ p = tstart t /\ blamed (type_sentence (no_location fl)) pre t)
  /\ (parse_value_str fl s = Rejected k p ->
     exists pre t post, ts = pre ++ t :: post /\ p = tstart t /\ blamed (value_sentence (no_location fl)) pre t).
Proof. exact blamed_token_of_tokens. Qed.
Print Assumptions C01_blamed_token_of_tokens.

Theorem C01_blamed_unique : forall (S : list ptok -> Prop) pre t post pre' t' post',
  pre ++ t :: post = pre' ++ t' :: post' -> blamed S pre t -> blamed S pre' t' -> pre = pre' /\ t = t'.
Proof. exact blamed_unique. Qed.
Print Assumptions C01_blamed_unique.

(* Rendering (str(e), to_dict()) uses min(position, len(source)): index_to_loc
   then never raises, line and column are at least 1, and the line exists in
   the list of lines highlight_location indexes. *)
Theorem C01_render_total : forall source position,
  exists l c, index_to_loc source (render_position source position) = Some (l, c)
              /\ 1 <= l /\ 1 <= c /\ l <= length (split_lines source).
Proof. exact render_total. Qed.
Print Assumptions C01_render_total.

(* ---- acceptance = derivability, for standalone types and values ---- *)

(* parse_type accepts a text only if its tokens are SOF body EOF with body
   derivable from Type, and returns the tree of that derivation *)
Theorem C01_type_sound : forall fl s t,
  parse_type_str fl s = Ok t ->
  exists ts body, lex s = Ok ts /\ whole ts body /\ D_type (no_location fl) body t.
Proof. exact parse_type_str_sound. Qed.
Print Assumptions C01_type_sound.

Theorem C01_type_complete : forall fl s ts body t,
  lex s = Ok ts -> whole ts body -> D_type (no_location fl) body t -> parse_type_str fl s = Ok t.
Proof. exact parse_type_str_complete. Qed.
Print Assumptions C01_type_complete.

Theorem C01_value_sound : forall fl s v,
  parse_value_str fl s = Ok v ->
  exists ts body, lex s = Ok ts /\ whole ts body /\ D_value (no_location fl) false body v.
Proof. exact parse_value_str_sound. Qed.
Print Assumptions C01_value_sound.

Theorem C01_value_complete : forall fl s ts body v,
  lex s = Ok ts -> whole ts body -> D_value (no_location fl) false body v -> parse_value_str fl s = Ok v.
Proof. exact parse_value_str_complete. Qed.
Print Assumptions C01_value_complete.

(* Value[Const] inside documents (default values, const directives): the
   production itself, on any token stream, for both values of Const *)
Theorem C01_value_production_sound : forall fl n c st v st',
  parse_value_literal fl n c st = Ok (v, st') ->
  exists ts, ts <> [] /\ toks st = map LT ts ++ toks st' /\ D_value (no_location fl) c ts v
             /\ last_end st' = lend ts (last_end st).
Proof. intros fl n c. exact (parse_value_sound fl n c). Qed.
Print Assumptions C01_value_production_sound.

Theorem C01_value_production_complete : forall fl c ts v,
  D_value (no_location fl) c ts v ->
  forall n rest e, length ts < n ->
    parse_value_literal fl n c (PSt (map LT ts ++ rest) e) = Ok (v, PSt rest (lend ts e)).
Proof. intros fl. exact (proj1 (parse_value_complete_all fl)). Qed.
Print Assumptions C01_value_production_complete.

(* ---- acceptance = derivability, for executable documents ---- *)

(* With type-system definitions disabled, parse accepts a text only if its
   token list derives an executable Document (Spec/DocGrammarSpec.v: operations
   incl. shorthand queries, variable definitions with defaults and constant
   directives, fragments -- with variable definitions exactly when
   experimental_fragment_variables is set --, fields, aliases, arguments,
   directives, spreads, inline fragments), and returns that derivation's tree. *)
Theorem C01_exec_sound : forall fl s d,
  allow_type_system fl = false ->
  parse_document fl s = Ok d ->
  exists ts, lex s = Ok ts /\ D_document_exec (no_location fl) (fragment_variables fl) ts d.
Proof. exact parse_document_exec_sound. Qed.
Print Assumptions C01_exec_sound.

(* Every executable Document derivation is accepted (whatever allow_type_system
   says) and yields exactly its tree. *)
Theorem C01_exec_complete : forall fl s ts d,
  lex s = Ok ts -> D_document_exec (no_location fl) (fragment_variables fl) ts d ->
  parse_document fl s = Ok d.
Proof. exact parse_document_exec_complete. Qed.
Print Assumptions C01_exec_complete.

(* the same on token streams, for any fuel n above the number of tokens *)
Theorem C01_exec_tokens_sound : forall fl n st d st',
  allow_type_system fl = false ->
  parse_document_p fl n st = Ok (d, st') ->
  exists ts, toks st = map LT ts ++ toks st' /\ last_end st' = lend ts (last_end st)
             /\ D_document_exec (no_location fl) (fragment_variables fl) ts d.
Proof.
  intros fl n st d st' Hts H. destruct (parse_document_p_sound fl n Hts st d st' H) as (ts & [H1 H2] & D).
  exists ts. auto.
Qed.
Print Assumptions C01_exec_tokens_sound.

Theorem C01_exec_tokens_complete : forall fl n ts d rest e,
  D_document_exec (no_location fl) (fragment_variables fl) ts d -> length ts < n ->
  parse_document_p fl n (PSt (map LT ts ++ rest) e) = Ok (d, PSt rest (lend ts e)).
Proof. intros fl n ts d rest e. exact (parse_document_p_complete fl n ts d rest e). Qed.
Print Assumptions C01_exec_tokens_complete.

(* ---- documents with type-system definitions: accepted => derivable ---- *)

(* For every flag triple, parse accepts a text only if its token list derives a
   Document of Spec/SdlGrammarSpec.v: executable definitions as above, and --
   only when allow_type_system is set -- schema / scalar / object / interface /
   union / enum / input object / directive definitions with descriptions,
   implements lists, argument and field definitions, default values, constant
   directives, directive locations, and the seven extension forms (each with at
   least one of its optional parts); the tree is the derivation's tree. *)
Theorem C01_document_sound : forall fl s d,
  parse_document fl s = Ok d ->
  exists ts, lex s = Ok ts /\
    D_document (no_location fl) (fragment_variables fl) (allow_type_system fl) ts d.
Proof. exact parse_document_sound_full. Qed.
Print Assumptions C01_document_sound.

(* The June-2018 grammar is ambiguous where a definition without its optional
   trailing { ... } block (type / interface / enum / input definitions and
   extensions, extend schema) is followed by a shorthand query; like later
   editions of the specification ([lookahead != {]) the library reads the braces
   as the block.  D_document_la is D_document with exactly that disambiguation.
   With it soundness and completeness meet: *)
Theorem C01_document_sound_la : forall fl s d,
  parse_document fl s = Ok d ->
  exists ts, lex s = Ok ts /\
    D_document_la (no_location fl) (fragment_variables fl) (allow_type_system fl) ts d.
Proof. exact parse_document_sound_la. Qed.
Print Assumptions C01_document_sound_la.

Theorem C01_document_complete : forall fl s ts d,
  lex s = Ok ts ->
  D_document_la (no_location fl) (fragment_variables fl) (allow_type_system fl) ts d ->
  parse_document fl s = Ok d.
Proof. exact parse_document_complete_full. Qed.
Print Assumptions C01_document_complete.

(* the same on token streams, any fuel above the number of tokens *)
Theorem C01_document_tokens_complete : forall fl n ts d rest e,
  D_document_la (no_location fl) (fragment_variables fl) (allow_type_system fl) ts d -> length ts < n ->
  parse_document_p fl n (PSt (map LT ts ++ rest) e) = Ok (d, PSt rest (lend ts e)).
Proof. intros fl n ts d rest e. exact (parse_document_p_complete_full fl n ts d rest e). Qed.
Print Assumptions C01_document_tokens_complete.

(* ---- the whole lexical grammar ---- *)

(* The lexer model returns a token list exactly when the text is related to it
   by the declarative maximal-munch lexical grammar of Spec/LexicalSpec.v
   (ignored: BOM, tab, space, LF, CR, comma, maximal comments; punctuators;
   maximal Names; IntValue / FloatValue with the follow restriction; quoted
   strings with their decoded value; block strings with BlockStringValue of
   their raw body; offsets of every token) -- [lexes_slack] being the grammar
   with the follow restriction exactly as the library implements it (a dot may
   directly follow a FloatValue). *)
Theorem C01_lex_sound : forall s ts, lex s = Ok ts -> lexes_slack s ts.
Proof. intros s ts. apply lex_lexes_slack. Qed.
Print Assumptions C01_lex_sound.

Theorem C01_lex_complete_slack : forall s ts, lexes_slack s ts -> lex s = Ok ts.
Proof. intros s ts. apply lex_lexes_slack. Qed.
Print Assumptions C01_lex_complete_slack.

(* against the documented grammar (no dot after any number) completeness is exact *)
Theorem C01_lex_complete : forall s ts, lexes s ts -> lex s = Ok ts.
Proof. exact lexes_lex. Qed.
Print Assumptions C01_lex_complete.

(* ---- end to end: text accepted <-> lexes to a derivable token sequence ---- *)
Theorem C01_accepts_exec : forall fl s d, allow_type_system fl = false ->
  (parse_document fl s = Ok d <->
   exists ts, lexes_slack s ts /\ D_document_exec (no_location fl) (fragment_variables fl) ts d).
Proof. exact accepts_exec. Qed.
Print Assumptions C01_accepts_exec.

(* every document, every flag triple: accepted <-> it lexes to a token sequence
   that derives a Document *)
Theorem C01_accepts_document : forall fl s d,
  parse_document fl s = Ok d <->
  exists ts, lexes_slack s ts /\
    D_document_la (no_location fl) (fragment_variables fl) (allow_type_system fl) ts d.
Proof. exact accepts_document. Qed.
Print Assumptions C01_accepts_document.

Theorem C01_accepts_exec_strict : forall fl s ts d,
  lexes s ts -> D_document_exec (no_location fl) (fragment_variables fl) ts d ->
  parse_document fl s = Ok d.
Proof. exact accepts_exec_strict. Qed.
Print Assumptions C01_accepts_exec_strict.

Theorem C01_accepts_value : forall fl s v,
  parse_value_str fl s = Ok v <->
  exists ts body, lexes_slack s ts /\ whole ts body /\ D_value (no_location fl) false body v.
Proof. exact accepts_value. Qed.
Print Assumptions C01_accepts_value.

Theorem C01_accepts_type : forall fl s t,
  parse_type_str fl s = Ok t <->
  exists ts body, lexes_slack s ts /\ whole ts body /\ D_type (no_location fl) body t.
Proof. exact accepts_type. Qed.
Print Assumptions C01_accepts_type.

(* ---- C01_follow: the slack of the number look-ahead is unobservable ---- *)

(* No derivable document (any flags, executable and type-system definitions),
   and no standalone value or type, has a Float token directly before an Ellip
   token: a FloatValue only occurs inside parentheses, brackets or braces, where
   it is followed by a closing punctuator, a Name, a $, an @, a string or
   another value. *)
Theorem C01_follow : forall nl fv en ts d, D_document nl fv en ts d -> nfe ts.
Proof. exact follow_document. Qed.
Print Assumptions C01_follow.

Theorem C01_follow_value_type : forall nl ts body,
  whole ts body -> (forall c v, D_value nl c body v -> nfe ts) /\ (forall t, D_type nl body t -> nfe ts).
Proof. intros nl ts body Hw. split; intros; [eapply whole_nfe_value|eapply whole_nfe_type]; eassumption. Qed.
Print Assumptions C01_follow_value_type.

(* Hence acceptance is characterised exactly by the DOCUMENTED lexical grammar
   (no digit, no dot, no NameStart after a number) as well: *)
Theorem C01_accepts_document_strict : forall fl s d,
  parse_document fl s = Ok d <->
  exists ts, lexes s ts /\
    D_document_la (no_location fl) (fragment_variables fl) (allow_type_system fl) ts d.
Proof. exact accepts_document_strict. Qed.
Print Assumptions C01_accepts_document_strict.

Theorem C01_accepts_exec_strict_iff : forall fl s d, allow_type_system fl = false ->
  (parse_document fl s = Ok d <->
   exists ts, lexes s ts /\ D_document_exec (no_location fl) (fragment_variables fl) ts d).
Proof. exact accepts_exec_strict_iff. Qed.
Print Assumptions C01_accepts_exec_strict_iff.

Theorem C01_accepts_value_strict : forall fl s v,
  parse_value_str fl s = Ok v <->
  exists ts body, lexes s ts /\ whole ts body /\ D_value (no_location fl) false body v.
Proof. exact accepts_value_strict. Qed.
Print Assumptions C01_accepts_value_strict.

Theorem C01_accepts_type_strict : forall fl s t,
  parse_type_str fl s = Ok t <->
  exists ts body, lexes s ts /\ whole ts body /\ D_type (no_location fl) body t.
Proof. exact accepts_type_strict. Qed.
Print Assumptions C01_accepts_type_strict.

(* ---- what the parser returns is well-formed in the sense of the printer
   round trip (C03) ---- *)

(* For every flag triple: a returned document without type-system definitions
   satisfies wf_exec_doc (Proofs/PrinterExecRoundtrip.v, the hypothesis of
   C03_exec_roundtrip): at least one definition; names are Names; fragment
   names and spreads are not "on"; type conditions are named types; selection
   sets are non-empty and present exactly when recorded; numbers are IntValue /
   FloatValue lexemes; enum values are not true / false / null; block string
   values are canonical and made of source characters; fragment variable
   definitions only with the flag.  The predicate ignores locations, so it holds
   of the tree and of the tree with locations erased. *)
Theorem C01_parse_output_wf : forall fl s d,
  parse_document fl s = Ok d -> exec_only d -> wf_exec_doc (fragment_variables fl) d.
Proof. exact parse_output_wf. Qed.
Print Assumptions C01_parse_output_wf.

Theorem C01_parse_output_wf_strip : forall fl s d,
  parse_document fl s = Ok d -> exec_only d -> wf_exec_doc (fragment_variables fl) (strip_doc d).
Proof. exact parse_output_wf_strip. Qed.
Print Assumptions C01_parse_output_wf_strip.

(* the one slack of the number look-ahead is real but harmless: "1.2..." lexes
   to Float, Ellip ... *)
Local Open Scope string_scope.
Example C01_follow_slack :
  match lex (str_of_string "1.2...") with
  | Ok [_; f; e; _] => tk f = KFloat /\ tk e = KEllip
  | _ => False
  end.
Proof. vm_compute. split; reflexivity. Qed.

(* non-vacuity: concrete texts on which the premises hold *)
Example C01_example_accept :
  let fl := Flags false true true in
  ok_or_rejected (parse_document fl (str_of_string
    "query Q($a: [Int!]! = [1, 2e05] @d) { a: b(x: {y: ""sA""}) @e ... on T { c } ...F } fragment F($z: Int) on T { d }
     extend schema @x type T implements A & B { ""doc"" f(a: Int = 1): [T!] }"))
  /\ (exists d, parse_document fl (str_of_string "{ a }") = Ok d)
  /\ (exists k p, parse_document fl (str_of_string "{ a(x: 1e) }") = Rejected k p /\ p = 9)
  /\ (exists v, parse_value_str fl (str_of_string "[1, {a: $b}]") = Ok v)
  /\ (exists t, parse_type_str fl (str_of_string "[[T!]]!") = Ok t).
Proof.
  vm_compute. repeat split; eauto.
Qed.

(* non-vacuity of the grammar relations: the mixed executable / type-system text
   above lexes (declarative lexical grammar) to a token sequence that derives a
   Document (declarative syntactic grammar, with the lookahead disambiguation) *)
Example C01_example_derivable :
  let fl := Flags false true true in
  exists ts d, lexes_slack (str_of_string
    "query Q($a: [Int!]! = [1, 2e05] @d) { a: b(x: {y: ""sA""}) @e ... on T { c } ...F } fragment F($z: Int) on T { d }
     extend schema @x type T implements A & B { ""doc"" f(a: Int = 1): [T!] } enum E { A } { shorthand }") ts
    /\ D_document_la false true true ts d.
Proof.
  intros fl.
  match goal with |- exists ts d, lexes_slack ?s ts /\ _ =>
    assert (H : exists d, parse_document fl s = Ok d) by (vm_compute; eexists; reflexivity) end.
  destruct H as [d H]. destruct (proj1 (accepts_document fl _ d) H) as (ts & Hl & Dd).
  exists ts, d. split; assumption.
Qed.
