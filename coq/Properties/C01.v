(* C01 -- the parser accepts exactly the GraphQL grammar and fails only with
   syntax errors.  Statements only; proofs are in Proofs/*.v.
   Model: Lang/Lexer.v, Lang/Parser.v, Lang/Loc.v.  Specs: Spec/LexSpec.v,
   Spec/GrammarSpec.v. *)
From PyGql Require Import Lang.Parser Lang.Loc Spec.LexSpec Spec.GrammarSpec Spec.OutcomeSpec
  Proofs.LexProofs Proofs.LexTotal Proofs.ParserFramework Proofs.ParserTotal Proofs.ParserTop
  Proofs.GrammarProofs Proofs.EntryProofs Proofs.LocProofs.

(* ---- numbers: the automaton of _read_number accepts exactly IntValue /
   FloatValue followed by an admissible character ---- *)

(* Whatever the lexer reads as a number is an IntValue (is_float = false) or a
   FloatValue (is_float = true) of the spec, taken verbatim from the text, and
   is followed by neither a digit, nor a NameStart character, nor -- for an
   IntValue -- a dot.  (A dot after a FloatValue is left to the next token:
   the one documented slack, see C01_follow_slack.) *)
Theorem C01_number_sound : forall rest pos fl r e,
  read_number rest pos = Ok (fl, r, e) ->
  exists lexeme, rest = lexeme ++ r /\ e = pos + length lexeme /\
    (fl = false -> IntValue lexeme) /\ (fl = true -> FloatValue lexeme) /\ follow_impl fl r.
Proof. exact read_number_sound. Qed.
Print Assumptions C01_number_sound.

(* Every IntValue / FloatValue of the spec followed by an admissible rest
   (not a digit, not a dot, not NameStart) is read, whole, with the right class. *)
Theorem C01_number_complete : forall lexeme r pos,
  follow_ok r ->
  (IntValue lexeme -> read_number (lexeme ++ r) pos = Ok (false, r, pos + length lexeme)) /\
  (FloatValue lexeme -> read_number (lexeme ++ r) pos = Ok (true, r, pos + length lexeme)).
Proof. exact read_number_complete. Qed.
Print Assumptions C01_number_complete.

(* ---- totality ---- *)

(* The lexer model, run with fuel S (length s), ends for every text with a
   token list (all offsets ordered and inside the text) or a syntax error. *)
Theorem C01_lexer_total : forall s,
  match lex s with
  | Ok ts => Forall (fun t => tstart t <= tend t /\ tend t <= length s) ts
  | Rejected k p => position_ok s k p
  | OutOfFuel => False
  | Crash _ => False
  end.
Proof. exact lexer_total. Qed.
Print Assumptions C01_lexer_total.

(* For every text, every flag triple and every entry point the model answers
   with a tree or with a syntax error: never any other failure, and the fuel
   S (number of tokens) always suffices. *)
Theorem C01_total_outcome : forall fl s,
  ok_or_rejected (parse_document fl s) /\ ok_or_rejected (parse_value_str fl s)
  /\ ok_or_rejected (parse_type_str fl s).
Proof. exact total_outcome. Qed.
Print Assumptions C01_total_outcome.

(* ---- error positions ---- *)

(* full strength (what the property demands): every reported position lies
   inside the text *)
Definition C01_error_position_full : Prop :=
  forall fl s k p, parse_value_str fl s = Rejected k p -> p <= length s.

(* proved: inside the text, except for a quoted string whose escape sequence is
   cut off by the end of the text (then NonTerminatedString at length + 1);
   see Spec/OutcomeSpec.v position_ok *)
Theorem C01_error_position_partial : forall fl s,
  rejected_at_ok s (parse_document fl s) /\ rejected_at_ok s (parse_value_str fl s)
  /\ rejected_at_ok s (parse_type_str fl s).
Proof. exact error_position. Qed.
Print Assumptions C01_error_position_partial.

(* the open finding: the text QUOTE BACKSLASH is rejected at position 3 *)
Theorem C01_error_position_refuted : ~ C01_error_position_full.
Proof.
  intros H. specialize (H (Flags false false false) [34%N; 92%N] E_NonTerminatedString 3 eq_refl).
  simpl in H. lia.
Qed.
Print Assumptions C01_error_position_refuted.

(* Rendering (str(e), to_dict()) uses min(position, len(source)): index_to_loc
   then never raises, line and column are at least 1, and the line exists in
   the list of lines highlight_location indexes. *)
Theorem C01_render_total : forall source position,
  exists l c, index_to_loc source (render_position source position) = Some (l, c)
              /\ 1 <= l /\ 1 <= c /\ l <= length (split_lines source).
Proof. exact render_total. Qed.
Print Assumptions C01_render_total.

(* ---- acceptance = derivability, for standalone types and values ---- *)

(* parse_type accepts a text only if its tokens are SOF body EOF with body
   derivable from Type, and returns the tree of that derivation *)
Theorem C01_type_sound : forall fl s t,
  parse_type_str fl s = Ok t ->
  exists ts body, lex s = Ok ts /\ whole ts body /\ D_type (no_location fl) body t.
Proof. exact parse_type_str_sound. Qed.
Print Assumptions C01_type_sound.

Theorem C01_type_complete : forall fl s ts body t,
  lex s = Ok ts -> whole ts body -> D_type (no_location fl) body t -> parse_type_str fl s = Ok t.
Proof. exact parse_type_str_complete. Qed.
Print Assumptions C01_type_complete.

Theorem C01_value_sound : forall fl s v,
  parse_value_str fl s = Ok v ->
  exists ts body, lex s = Ok ts /\ whole ts body /\ D_value (no_location fl) false body v.
Proof. exact parse_value_str_sound. Qed.
Print Assumptions C01_value_sound.

Theorem C01_value_complete : forall fl s ts body v,
  lex s = Ok ts -> whole ts body -> D_value (no_location fl) false body v -> parse_value_str fl s = Ok v.
Proof. exact parse_value_str_complete. Qed.
Print Assumptions C01_value_complete.

(* Value[Const] inside documents (default values, const directives): the
   production itself, on any token stream, for both values of Const *)
Theorem C01_value_production_sound : forall fl n c st v st',
  parse_value_literal fl n c st = Ok (v, st') ->
  exists ts, ts <> [] /\ toks st = map LT ts ++ toks st' /\ D_value (no_location fl) c ts v
             /\ last_end st' = lend ts (last_end st).
Proof. intros fl n c. exact (parse_value_sound fl n c). Qed.
Print Assumptions C01_value_production_sound.

Theorem C01_value_production_complete : forall fl c ts v,
  D_value (no_location fl) c ts v ->
  forall n rest e, length ts < n ->
    parse_value_literal fl n c (PSt (map LT ts ++ rest) e) = Ok (v, PSt rest (lend ts e)).
Proof. intros fl. exact (proj1 (parse_value_complete_all fl)). Qed.
Print Assumptions C01_value_production_complete.

(* the one slack of the number look-ahead is real but harmless: "1.2..." lexes
   to Float, Ellip ... *)
Local Open Scope string_scope.
Example C01_follow_slack :
  match lex (str_of_string "1.2...") with
  | Ok [_; f; e; _] => tk f = KFloat /\ tk e = KEllip
  | _ => False
  end.
Proof. vm_compute. split; reflexivity. Qed.

(* non-vacuity: concrete texts on which the premises hold *)
Example C01_example_accept :
  let fl := Flags false true true in
  ok_or_rejected (parse_document fl (str_of_string
    "query Q($a: [Int!]! = [1, 2e05] @d) { a: b(x: {y: ""sA""}) @e ... on T { c } ...F } fragment F($z: Int) on T { d }
     extend schema @x type T implements A & B { ""doc"" f(a: Int = 1): [T!] }"))
  /\ (exists d, parse_document fl (str_of_string "{ a }") = Ok d)
  /\ (exists k p, parse_document fl (str_of_string "{ a(x: 1e) }") = Rejected k p /\ p = 9)
  /\ (exists v, parse_value_str fl (str_of_string "[1, {a: $b}]") = Ok v)
  /\ (exists t, parse_type_str fl (str_of_string "[[T!]]!") = Ok t).
Proof.
  vm_compute. repeat split; eauto.
Qed.
