(* C04 -- execution yields the specified result for every valid operation.
   Statements only; proofs are in Proofs/Exec*Proofs.v. The model is
   Exec/ExecModel.v (+ Exec/Collect.v, Schema/SchemaModel.v, Exec/ExecCache.v),
   the specification Spec/ExecSpec.v. *)
From PyGql Require Import Spec.ExecSpec Exec.ExecCache Proofs.ExecTopProofs.
From PyGql Require Import Proofs.DepthTermination Proofs.ExecTermination.
From PyGql Require Import Proofs.ExecCollectFull Proofs.ExecSpecFull Proofs.ExecTerminates.
From PyGql Require Import Proofs.ExecSpecDet Proofs.ExecCollectReach Proofs.ExecCoerceC07 Proofs.ExecSpecComplete.
From PyGql Require Exec.CoerceModel Spec.CoerceSpec.

(* Response keys: the keys of every response object are the keys of the
   grouped fields the object type defines, in grouping order; the groups have
   pairwise distinct keys and each holds exactly field nodes with that
   response key (aliases honoured, same-key fields merged). For every call,
   at every depth, every fuel. *)
Theorem C04_key_order :
  forall sch frags vs coerce_args world tyres cfuel fuel tname v p sels kvs es,
    exec_sel sch frags vs coerce_args world tyres cfuel fuel tname v p sels = Ok (PDict kvs, es) ->
    exists g, collect_for sch frags vs cfuel tname sels = Ok g /\
              map fst kvs = keys (filter (defined sch tname) g) /\
              NoDup (keys g) /\ Forall group_ok g.
Proof. exact exec_sel_keys. Qed.
Print Assumptions C04_key_order.

(* ... and that grouping order is document order: on selections whose
   named-fragment spreads are at the top level (none inside a fragment or an
   inline fragment; in particular selections without spreads) the groups are
   the specification's CollectFields, whose keys come at their first
   occurrence in the flattened selection. *)
Theorem C04_keys_first_occurrence :
  forall sch frags vs cfuel tname sels g,
    top_spreads frags sels = true ->
    collect_for sch frags vs cfuel tname sels = Ok g ->
    exists fs V', SFlat (applies sch tname) frags vs sels [] fs V' /\
                  g = spec_groups fs /\ keys g = first_occ (map field_key fs).
Proof. exact collect_keys_first_occurrence. Qed.
Print Assumptions C04_keys_first_occurrence.

(* Errors and nulls: in every result no two errors carry the same path, and
   the data is null at the path of every error or already at a prefix of it
   (null_on_path; the prefix case only occurs below a field that was nulled
   because a sub-selection could not be collected, see
   C04_collect_failure_is_local). *)
Theorem C04_null_error_bijection :
  forall sch frags vs coerce_args world tyres cfuel fuel tname v p sels d es,
    schema_nn_ok sch ->
    exec_sel sch frags vs coerce_args world tyres cfuel fuel tname v p sels = Ok (d, es) ->
    NoDup (map e_path es) /\
    Forall (fun e => exists q, e_path e = p ++ q /\ null_on_path d q) es.
Proof. exact exec_sel_errors_nulls. Qed.
Print Assumptions C04_null_error_bijection.

(* ... and vice versa, every failure is a null at exactly that position with
   exactly one error: a resolver raising the library's error, a failed
   argument coercion, and a null completing a non-null type each yield
   (null, [one error with that path and the field location(s)]); a non-null
   value passes through a non-null type untouched. *)
Theorem C04_failure_is_local_null :
  forall sch coerce_args world tyres sub_exec,
    (forall tname parent fd node nodes p args m x,
        coerce_args fd node = Ok args -> world p parent tname (f_name fd) args = RErr m x ->
        resolve_field sch coerce_args world tyres sub_exec tname parent FUser fd (node :: nodes) p =
        Ok (PNone, [Err p [sel_loc node] (EResolver m x)])) /\
    (forall tname parent k fd node nodes p c q,
        coerce_args fd node = Rejected c q ->
        resolve_field sch coerce_args world tyres sub_exec tname parent k fd (node :: nodes) p =
        Ok (PNone, [Err p [sel_loc node] ECoercion])) /\
    ((forall tn v p sels r, sub_exec tn v p sels = Ok r -> wf_res p r /\ fst r <> PNone) ->
     forall nodes t p v es,
       nn_ok (RNonNull t) = true ->
       complete_value sch tyres sub_exec nodes (RNonNull t) p v = Ok (PNone, es) ->
       es = [Err p (map sel_loc nodes) ENonNull]) /\
    (forall nodes t p v r es,
        complete_value sch tyres sub_exec nodes (RNonNull t) p v = Ok (r, es) -> r <> PNone ->
        complete_value sch tyres sub_exec nodes t p v = Ok (r, es)).
Proof.
  intros. split; [|split; [|split]].
  - apply resolver_error_local.
  - apply coercion_error_local.
  - apply nonnull_null_local.
  - apply nonnull_value_passes.
Qed.
Print Assumptions C04_failure_is_local_null.

(* Third failure kind (since /repo 5d4e174): invalid @skip / @include
   arguments met while collecting fields. Nested: when completing a field's
   value is rejected (which only a failing collect of a sub-selection causes),
   the field is null with exactly one more error, at the field's path, and the
   errors recorded before by completed list items remain, strictly below that
   path. Root: a selection set is rejected exactly when collecting its own
   fields is (the request is aborted, no data). *)
Theorem C04_collect_failure_is_local :
  (forall sch tyres sub_exec nodes t p v k q,
      (forall tn x p' ss k' q', sub_exec tn x p' ss = Rejected k' q' -> k' = REJ_COERCION) ->
      nn_ok t = true ->
      (forall tn x p' sels r, sub_exec tn x p' sels = Ok r -> wf_res p' r /\ fst r <> PNone) ->
      complete_value sch tyres sub_exec nodes t p v = Rejected k q ->
      complete_field sch tyres sub_exec nodes t p v =
        Ok (PNone, complete_value_partial sch tyres sub_exec nodes t p v ++ [Err p [] ECoercion]) /\
      Forall (below p) (complete_value_partial sch tyres sub_exec nodes t p v)) /\
  (forall sch frags vs coerce_args world tyres cfuel fuel tname v p sels k q,
      (exec_sel sch frags vs coerce_args world tyres cfuel fuel tname v p sels = Rejected k q ->
       collect_for sch frags vs cfuel tname sels = Rejected k q /\ k = REJ_COERCION) /\
      (collect_for sch frags vs cfuel tname sels = Rejected k q ->
       exec_sel sch frags vs coerce_args world tyres cfuel (S fuel) tname v p sels = Rejected k q)).
Proof. split; [exact subselection_abort_local|exact root_collect_rejection]. Qed.
Print Assumptions C04_collect_failure_is_local.

(* Siblings undisturbed: two resolver worlds that agree everywhere except at
   or below the response path q0 give results that agree everywhere except at
   or below q0 -- same keys in the same order, same list lengths, equal values
   off the path, and the same errors off the path (in the same order). For
   runs in which no sub-selection failed to collect (no_abort: no error of
   kind coercion with an empty location list). *)
Theorem C04_error_locality :
  forall sch frags vs coerce_args tyres cfuel w1 w2 q0,
    schema_nn_ok sch ->
    (forall p', prefixb q0 p' = false -> forall a b c d, w1 p' a b c d = w2 p' a b c d) ->
    forall fuel tname v sels d1 es1 d2 es2,
      exec_sel sch frags vs coerce_args w1 tyres cfuel fuel tname v [] sels = Ok (d1, es1) ->
      exec_sel sch frags vs coerce_args w2 tyres cfuel fuel tname v [] sels = Ok (d2, es2) ->
      no_abort es1 -> no_abort es2 ->
      same_outside q0 d1 d2 /\ errors_off q0 es1 = errors_off q0 es2.
Proof. exact exec_sel_locality. Qed.
Print Assumptions C04_error_locality.

(* History: with the memo tables of the Schema object (possible types, literal
   types) in any state in which every entry is what the schema determines, a
   request returns what the table-free executor returns and leaves such a
   state; the per-execution tables (grouped fields, field definitions,
   argument values) start empty and are transparent too -- for every sound
   notion of key identity. *)
Theorem C04_history_invariant :
  forall sch coerce_args world tyres sels_eqb argkey_eqb cfuel fuel,
    (forall a b, sels_eqb a b = true -> a = b) ->
    (forall a b, argkey_eqb a b = true -> a = b) ->
    forall d opname vs root c,
      schema_inv sch c ->
      fst (execute_c sch coerce_args world tyres sels_eqb argkey_eqb cfuel fuel d opname vs root c) =
        execute sch coerce_args world tyres cfuel fuel d opname vs root /\
      schema_inv sch (snd (execute_c sch coerce_args world tyres sels_eqb argkey_eqb cfuel fuel d opname vs root c)).
Proof. exact execute_c_transparent. Qed.
Print Assumptions C04_history_invariant.

(* The per-execution tables in any state whose entries are what the request
   determines (not only empty) are transparent as well, at every call. *)
Theorem C04_history_tables :
  forall sch frags vs coerce_args world tyres cfuel sels_eqb argkey_eqb,
    (forall a b, sels_eqb a b = true -> a = b) ->
    (forall a b, argkey_eqb a b = true -> a = b) ->
    forall fuel tname v p sels c,
      cache_inv sch frags vs coerce_args cfuel c ->
      exists c',
        exec_sel_c sch frags vs coerce_args world tyres cfuel sels_eqb argkey_eqb fuel tname v p sels c =
          (exec_sel sch frags vs coerce_args world tyres cfuel fuel tname v p sels, c') /\
        cache_inv sch frags vs coerce_args cfuel c'.
Proof.
  intros sch frags vs coerce_args world tyres cfuel se ae H1 H2 fuel tname v p sels c Hc.
  exact (exec_sel_c_pure sch frags vs coerce_args world tyres cfuel se ae H1 H2 fuel tname v p sels c Hc).
Qed.
Print Assumptions C04_history_tables.

(* ... hence after any sequence of earlier requests (any documents, variables,
   worlds, also failing ones) on the same Schema object. *)
Theorem C04_history :
  forall sch c coerce_args world tyres sels_eqb argkey_eqb cfuel fuel d opname vs root,
    (forall a b, sels_eqb a b = true -> a = b) ->
    (forall a b, argkey_eqb a b = true -> a = b) ->
    reachable sch c ->
    fst (execute_c sch coerce_args world tyres sels_eqb argkey_eqb cfuel fuel d opname vs root c) =
    execute sch coerce_args world tyres cfuel fuel d opname vs root.
Proof. exact execute_history_free. Qed.
Print Assumptions C04_history.

(* CollectFields: on selections whose named-fragment spreads are at the top
   level, of fragments without spreads of their own (plus inline fragments
   with and without type conditions, @skip/@include, aliases, merges, the
   same fragment spread several times) the code's grouping IS the
   specification's. Full statement: C04_collect_full
   (Proofs/ExecTopProofs.v); missing: spreads nested inside fragments or inline
   fragments, where the seen-set quirk may list a node twice. *)
Theorem C04_collect_partial :
  forall applies frags vs mc fuel ss g,
    top_spreads frags ss = true ->
    collect applies frags vs mc fuel ss = Ok g ->
    SCollect applies frags vs ss g.
Proof. exact collect_is_spec_collect_top. Qed.
Print Assumptions C04_collect_partial.

(* Fuel adequacy of collect_fields (typed and untyped, any fragment-type
   test): when the document's fragments are acyclic -- some rank decreases
   along every spread, which is what NoFragmentCycles guarantees -- the
   traversal of any selection list never runs out of fuel once it has enough,
   i.e. the code's recursion terminates and "= Ok g" in the theorems above is
   not vacuous for want of fuel. *)
Theorem C04_collect_fuel_adequate :
  forall applies frags vs mc rank,
    acyclic frags rank ->
    forall ss, exists f0, forall f g l,
      f0 <= f -> collect_into applies frags vs mc f ss g l <> OutOfFuel.
Proof. exact collect_fuel_adequate. Qed.
Print Assumptions C04_collect_fuel_adequate.

(* The result is one the specification's ExecuteSelectionSet / ExecuteField /
   CompleteValue allow, with the grouping at each level the code's
   collect_fields -- which is the specification's CollectFields at every level
   whose named-fragment spreads are at the top level (top_spreads). Full
   statement: C04_exec_eq_spec_full. *)
Theorem C04_exec_eq_spec_partial :
  forall sch frags vs coerce_args world tyres cfuel fuel tname v p sels r,
    exec_sel sch frags vs coerce_args world tyres cfuel fuel tname v p sels = Ok r ->
    SSel sch coerce_args world tyres (G sch frags vs cfuel) tname v p sels (fst r) (snd r).
Proof. exact exec_sel_spec. Qed.
Print Assumptions C04_exec_eq_spec_partial.

(* ---- full strength under acyclic fragments (what NoFragmentCycles gives) *)

(* CollectFields, arbitrary nesting of spreads inside fragments and inline
   fragments: the code's grouping (with its seen-set quirk) has the keys of
   the specification's CollectFields in the same order, per key the same set
   of nodes, and per key the code's node list is the specification's node
   list (document order) with extra occurrences of nodes that occur earlier
   in it ([Ext []]; in particular the first node is the same). This is the
   body of C04_collect_full, plus the ordering half. *)
Theorem C04_collect_full_acyclic :
  forall applies frags vs rank mc fuel ss g,
    acyclic frags rank ->
    collect applies frags vs mc fuel ss = Ok g ->
    exists g', SCollect applies frags vs ss g' /\ keys g = keys g' /\
               Forall2 (fun a b => incl (snd a) (snd b) /\ incl (snd b) (snd a)) g g' /\
               Forall2 (fun a b => Ext [] (snd b) (snd a)) g g'.
Proof. exact collect_full. Qed.
Print Assumptions C04_collect_full_acyclic.

(* The executor's result IS a result of the specification's algorithm with
   the specification's CollectFields at every level: same ordered data, same
   errors in the same order with the same paths and kinds, the locations
   inside an error equal as sets (repeated nodes repeat a location). This is
   the body of C04_exec_eq_spec_full (its schema hypothesis is not needed). *)
Theorem C04_exec_eq_spec_full_acyclic :
  forall sch frags vs coerce_args world tyres cfuel rank,
    acyclic frags rank ->
    forall fuel tname v p sels r,
      exec_sel sch frags vs coerce_args world tyres cfuel fuel tname v p sels = Ok r ->
      no_abort (snd r) ->
      exists es',
        SSel sch coerce_args world tyres (fun tn ss g => SCollect (applies sch tn) frags vs ss g)
             tname v p sels (fst r) es' /\
        Forall2 (fun e e' => e_path e = e_path e' /\ e_kind e = e_kind e' /\
                             incl (e_locs e) (e_locs e') /\ incl (e_locs e') (e_locs e)) (snd r) es'.
Proof. exact exec_eq_spec_full. Qed.
Print Assumptions C04_exec_eq_spec_full_acyclic.

(* Fuel adequacy of the whole executor: for every request -- any schema,
   selections, variables, resolver world, type resolvers, root value -- with
   acyclic fragments and an argument coercion that itself terminates, there
   are amounts of object-level fuel and collect fuel from which on the run
   never ends in OutOfFuel: it yields a result, a rejection or a crash. *)
Theorem C04_exec_terminates :
  forall sch frags vs coerce_args world tyres rank,
    acyclic frags rank ->
    (forall fd node, coerce_args fd node <> OutOfFuel) ->
    forall ss tname v p,
      exists F CF, forall fuel cfuel, F <= fuel -> CF <= cfuel ->
        exec_sel sch frags vs coerce_args world tyres cfuel fuel tname v p ss <> OutOfFuel.
Proof. exact exec_terminates. Qed.
Print Assumptions C04_exec_terminates.

(* ---- the specification relations are functional *)

(* CollectFields has at most one result, and so have ExecuteSelectionSet /
   ExecuteField / CompleteValue for any functional CollectFields. *)
Theorem C04_spec_is_functional :
  (forall applies frags vs ss g g',
      SCollect applies frags vs ss g -> SCollect applies frags vs ss g' -> g = g') /\
  (forall sch coerce_args world tyres (G : str -> list selection -> groups -> Prop),
      (forall tn ss g g', G tn ss g -> G tn ss g' -> g = g') ->
      forall tn v p sels d es d' es',
        SSel sch coerce_args world tyres G tn v p sels d es ->
        SSel sch coerce_args world tyres G tn v p sels d' es' -> d = d' /\ es = es').
Proof. split; [exact SCollect_det|exact SSel_det]. Qed.
Print Assumptions C04_spec_is_functional.

(* Hence the executor's result is THE result of the specification's algorithm
   (acyclic fragments, no failed sub-selection collect): a specification
   result exists with the executor's data and errors (locations inside an
   error equal as sets), and every specification result is that one. *)
Theorem C04_exec_is_the_spec_result :
  forall sch frags vs coerce_args world tyres cfuel rank,
    acyclic frags rank ->
    forall fuel tname v p sels r,
      exec_sel sch frags vs coerce_args world tyres cfuel fuel tname v p sels = Ok r ->
      no_abort (snd r) ->
      (exists es', SSel sch coerce_args world tyres (fun tn ss g => SCollect (applies sch tn) frags vs ss g)
                        tname v p sels (fst r) es' /\ errs_sim (snd r) es') /\
      (forall d es', SSel sch coerce_args world tyres (fun tn ss g => SCollect (applies sch tn) frags vs ss g)
                          tname v p sels d es' ->
                     d = fst r /\ errs_sim (snd r) es').
Proof. exact exec_is_the_spec_result. Qed.
Print Assumptions C04_exec_is_the_spec_result.

(* Completeness, for the grouping the code computes (G of
   Proofs/ExecSpecProofs.v: the code's collect_fields, which is the spec's
   CollectFields wherever top_spreads holds): whenever the declarative
   relation has a result without a failed sub-selection collect, exec_sel
   returns exactly that result from some amount of object-level fuel on; with
   soundness, the Ok results of the model are exactly the relation's results. *)
Theorem C04_exec_complete :
  forall sch frags vs coerce_args world tyres cfuel tn v p sels d es,
    SSel sch coerce_args world tyres (G sch frags vs cfuel) tn v p sels d es -> no_abort es ->
    exists F, forall fuel, F <= fuel ->
      exec_sel sch frags vs coerce_args world tyres cfuel fuel tn v p sels = Ok (d, es).
Proof. exact exec_sel_complete. Qed.
Print Assumptions C04_exec_complete.

Theorem C04_exec_characterised :
  forall sch frags vs coerce_args world tyres cfuel tn v p sels d es,
    no_abort es ->
    (SSel sch coerce_args world tyres (G sch frags vs cfuel) tn v p sels d es <->
     exists fuel, exec_sel sch frags vs coerce_args world tyres cfuel fuel tn v p sels = Ok (d, es)).
Proof. exact exec_sel_characterised. Qed.
Print Assumptions C04_exec_characterised.

(* Query and mutation root fields are executed by the same function, in
   grouping order (blocking executor). *)
Theorem C04_serial_is_parallel :
  forall sch coerce_args world tyres cfuel fuel d opname vs root k sels rt,
    get_operation d opname = Ok (k, sels) -> k <> OpSubscription ->
    match k with OpQuery => s_query sch | OpMutation => s_mutation sch | OpSubscription => s_subscription sch end = Some rt ->
    execute sch coerce_args world tyres cfuel fuel d opname vs root =
    exec_sel sch (frag_table_of (doc_defs d)) vs (coerce_args vs) world tyres cfuel fuel rt root [] sels.
Proof. exact execute_serial_is_parallel. Qed.
Print Assumptions C04_serial_is_parallel.

(* ---- fragment cycles *)

(* C04_collect_full with acyclicity required only among the fragments the
   selection list can reach (rs: a set of fragment names containing every
   spread of ss and closed under the spreads of its members' bodies); the rest
   of the table may contain cycles. *)
Theorem C04_collect_full_reachable :
  forall applies frags vs rs rank mc fuel ss g,
    covered frags rs ss -> rs_closed frags rs -> acyclic (restrict frags rs) rank ->
    collect applies frags vs mc fuel ss = Ok g ->
    exists g', SCollect applies frags vs ss g' /\ ExecProofs.keys g = ExecProofs.keys g' /\
               Forall2 (fun a b => incl (snd a) (snd b) /\ incl (snd b) (snd a)) g g' /\
               Forall2 (fun a b => Ext [] (snd b) (snd a)) g g'.
Proof. exact collect_full_reachable. Qed.
Print Assumptions C04_collect_full_reachable.

(* A reachable cycle (fragment F on T { ...F }, spread where it applies): the
   traversal runs out of every amount of fuel -- in Python, RecursionError; no
   result exists, which is why the full-strength statements are about acyclic
   (validated) documents. *)
Theorem C04_reachable_cycle_no_result :
  forall applies vs mc fuel g local,
    ~ In (str_of_string "F"%string) local ->
    collect_into applies cyc_frags vs mc fuel [cyc_spread] g local = OutOfFuel \/
    applies (Some (TNamed (Name (str_of_string "T"%string) None) None)) = false.
Proof. exact reachable_cycle_runs_out_of_fuel. Qed.
Print Assumptions C04_reachable_cycle_no_result.

(* ---- with the real argument coercion (C07's model, Exec/CoerceModel.v) as
   the coerce_args parameter; isch: the input-side schema description, closed,
   input types only, its scalars' parsers raising nothing but ValueError /
   TypeError (scalars_behaved), every argument type of every object field
   usable in it *)
Theorem C04_exec_terminates_with_C07_coercion :
  forall sch isch,
    CoerceSpec.schema_closed isch -> CoerceSpec.schema_inputs isch -> CoerceSpec.scalars_behaved isch ->
    args_usable sch isch ->
    forall frags vs world tyres rank,
      acyclic frags rank ->
      forall ss tname v p,
        exists F CF, forall fuel cfuel, F <= fuel -> CF <= cfuel ->
          exec_sel sch frags vs (coerce_args_c07 isch vs) world tyres cfuel fuel tname v p ss <> OutOfFuel.
Proof. exact exec_terminates_c07. Qed.
Print Assumptions C04_exec_terminates_with_C07_coercion.

Theorem C04_exec_eq_spec_full_with_C07_coercion :
  forall sch isch frags vs world tyres cfuel rank,
    acyclic frags rank ->
    forall fuel tname v p sels r,
      exec_sel sch frags vs (coerce_args_c07 isch vs) world tyres cfuel fuel tname v p sels = Ok r ->
      no_abort (snd r) ->
      exists es',
        SSel sch (coerce_args_c07 isch vs) world tyres
             (fun tn ss g => SCollect (applies sch tn) frags vs ss g) tname v p sels (fst r) es' /\
        Forall2 (fun e e' => e_path e = e_path e' /\ e_kind e = e_kind e' /\
                             incl (e_locs e) (e_locs e') /\ incl (e_locs e') (e_locs e)) (snd r) es'.
Proof. exact exec_eq_spec_full_c07. Qed.
Print Assumptions C04_exec_eq_spec_full_with_C07_coercion.

Theorem C04_null_error_bijection_with_C07_coercion :
  forall sch isch frags vs world tyres cfuel fuel tname v p sels d es,
    schema_nn_ok sch ->
    exec_sel sch frags vs (coerce_args_c07 isch vs) world tyres cfuel fuel tname v p sels = Ok (d, es) ->
    NoDup (map e_path es) /\
    Forall (fun e => exists q, e_path e = p ++ q /\ null_on_path d q) es.
Proof. exact null_error_bijection_c07. Qed.
Print Assumptions C04_null_error_bijection_with_C07_coercion.

(* on a field the object type defines, the real coercion either yields the
   resolver's kwargs or the field is null with one coercion error at its path
   and location -- it never crashes or diverges *)
Theorem C04_argument_failure_with_C07_coercion :
  forall sch isch,
    CoerceSpec.schema_closed isch -> CoerceSpec.schema_inputs isch -> CoerceSpec.scalars_behaved isch ->
    args_usable sch isch ->
    forall vs world tyres sub_exec tn name k fd tname parent node nodes p,
      field_definition sch tn name = Ok (Some (k, fd)) ->
      (exists args, coerce_args_c07 isch vs fd node = Ok args) \/
      resolve_field sch (coerce_args_c07 isch vs) world tyres sub_exec tname parent k fd (node :: nodes) p =
        Ok (PNone, [Err p [sel_loc node] ECoercion]).
Proof. exact argument_failure_c07. Qed.
Print Assumptions C04_argument_failure_with_C07_coercion.

(* ------------------------------------------------------------ non-vacuity *)
Local Open Scope string_scope.
Definition ex_s (x : string) : str := str_of_string x.
Definition ex_schema : schema :=
  Schema [ (ex_s "String", TScalar SString); (ex_s "Int", TScalar SInt);
           (ex_s "T", TObject [MkField (ex_s "n") (ex_s "n") (RNonNull (RNamed (ex_s "Int"))) [];
                               MkField (ex_s "s") (ex_s "s") (RNamed (ex_s "String")) []] []);
           (ex_s "Query", TObject [MkField (ex_s "t") (ex_s "t") (RNamed (ex_s "T")) [];
                                   MkField (ex_s "l") (ex_s "l") (RList (RNonNull (RNamed (ex_s "Int")))) []] []) ]
         (Some (ex_s "Query")) None None.
Definition ex_field n sub := SField None (Name (ex_s n) None) [] [] (match sub with [] => None | _ => Some None end) sub None.
Definition ex_sels : list selection :=
  [ex_field "l" []; SInline None [] None [ex_field "t" [ex_field "s" []; ex_field "n" []]] None; ex_field "l" []].
Definition ex_world (bad : bool) : world_t :=
  fun p _ _ fname _ =>
    if path_eqb p [PKey (ex_s "t")] then RVal (PDict [(ex_s "n", PNone)])
    else if path_eqb p [PKey (ex_s "t"); PKey (ex_s "s")] then
      (if bad then RErr (ex_s "boom") PNone else RVal (PInt 5))
    else if str_eqb fname (ex_s "l") then RVal (PList [PInt 1; PNone])
    else RDefault.
Definition ex_run (bad : bool) :=
  exec_sel ex_schema [] [] (fun _ _ => Ok []) (ex_world bad) (fun _ => None) 50 10 (ex_s "Query") PNone [] ex_sels.

(* keys in document order with the merged key once; a resolver error, a null
   in a non-null field and a null list item each give null + one error *)
Example C04_example_run :
  ex_run true =
  Ok (PDict [(ex_s "l", PList [PInt 1; PNone]);
             (ex_s "t", PDict [(ex_s "s", PNone); (ex_s "n", PNone)])],
      [Err [PKey (ex_s "l"); PIdx 1] [None; None] ENonNull;
       Err [PKey (ex_s "t"); PKey (ex_s "s")] [None] (EResolver (ex_s "boom") PNone);
       Err [PKey (ex_s "t"); PKey (ex_s "n")] [None] ENonNull]).
Proof. vm_compute. reflexivity. Qed.

(* the premises of the locality theorem hold for two worlds that differ at t.s only *)
Example C04_example_locality :
  schema_nn_ok ex_schema /\
  (forall p', prefixb [PKey (ex_s "t"); PKey (ex_s "s")] p' = false ->
              forall a b c d, ex_world true p' a b c d = ex_world false p' a b c d) /\
  (exists r, ex_run false = Ok r) /\ top_spreads [] ex_sels = true.
Proof.
  split; [|split; [|split]].
  - intros tn fs ifs f Hg Hi. unfold get_type in Hg. simpl in Hg.
    repeat match type of Hg with
           | (if ?b then _ else _) = _ => destruct b; [inversion Hg; subst; clear Hg|]
           end; try discriminate;
      simpl in Hi; repeat (destruct Hi as [<-|Hi]; [reflexivity|]); destruct Hi.
  - intros p' Hp a b c d. unfold ex_world.
    destruct (path_eqb p' [PKey (ex_s "t")]); [reflexivity|].
    destruct (path_eqb p' [PKey (ex_s "t"); PKey (ex_s "s")]) eqn:E; [|reflexivity].
    apply path_eqb_prefixb in E. congruence.
  - eexists. vm_compute. reflexivity.
  - reflexivity.
Qed.

(* the history theorem applies after a served request (never-hit key identity is sound) *)
Example C04_example_history :
  reachable ex_schema
    (snd (execute_c ex_schema (fun _ _ _ => Ok []) (ex_world true) (fun _ => None)
            (fun _ _ => false) (fun _ _ => false) 50 10
            (Doc [DOperation OpQuery None [] [] None ex_sels None] None) None [] PNone empty_cache)).
Proof. apply Reach_served; try discriminate. apply Reach_new. Qed.

(* acyclic fragment tables exist beyond the empty one: F spreads G *)
Example C04_example_acyclic :
  acyclic [(ex_s "F", (TNamed (Name (ex_s "T") None) None,
                       [SSpread (Name (ex_s "G") None) [] None; ex_field "s" []]));
           (ex_s "G", (TNamed (Name (ex_s "T") None) None, [ex_field "n" []]))]
          (fun n => if str_eqb n (ex_s "F") then 1 else 0).
Proof.
  unfold acyclic, bounded. intros n tc fsels H m Hm Hd. cbn [alookup] in H.
  destruct (str_eqb n (ex_s "F")) eqn:E1.
  - inversion H; subst. vm_compute in Hm. destruct Hm as [<-|[]]. vm_compute. lia.
  - destruct (str_eqb n (ex_s "G")); [|discriminate]. inversion H; subst. vm_compute in Hm. destruct Hm.
Qed.

(* a sub-selection whose @skip argument is a null variable: the enclosing
   field is null with one coercion error at its path; on the root selection
   set the request is rejected *)
Example C04_example_collect_failure :
  let skip_s := Dir (Name (ex_s "skip") None)
                    [Arg (Name (ex_s "if") None) (VVar (Name (ex_s "s") None) None) None] None in
  let bad := SField None (Name (ex_s "s") None) [] [skip_s] None [] None in
  exec_sel ex_schema [] [(ex_s "s", PNone)] (fun _ _ => Ok []) (ex_world false) (fun _ => None) 50 10
           (ex_s "Query") PNone [] [ex_field "t" [bad]; ex_field "l" []] =
    Ok (PDict [(ex_s "t", PNone); (ex_s "l", PList [PInt 1; PNone])],
        [Err [PKey (ex_s "t")] [] ECoercion; Err [PKey (ex_s "l"); PIdx 1] [None] ENonNull]) /\
  exec_sel ex_schema [] [(ex_s "s", PNone)] (fun _ _ => Ok []) (ex_world false) (fun _ => None) 50 10
           (ex_s "Query") PNone [] [bad] = Rejected REJ_COERCION 0.
Proof. vm_compute. split; reflexivity. Qed.

(* the premises of the C07 instantiation are satisfiable: the example schema
   (its fields take no arguments) with an input side of scalars *)
Example C04_example_c07_premises :
  let isch : CoerceModel.schema := [(ex_s "Int", CoerceModel.TDScalar CoerceModel.KInt)] in
  CoerceSpec.schema_closed isch /\ CoerceSpec.schema_inputs isch /\ CoerceSpec.scalars_behaved isch /\
  args_usable ex_schema isch.
Proof.
  cbv zeta. split; [|split; [|split]].
  - intros n fs f H. cbn [alookup] in H. destruct (str_eqb n (ex_s "Int")); discriminate H.
  - intros n fs f H. cbn [alookup] in H. destruct (str_eqb n (ex_s "Int")); discriminate H.
  - intros n k H. cbn [alookup] in H. destruct (str_eqb n (ex_s "Int")); [inversion H; reflexivity|discriminate H].
  - intros tn fs ifs f a Hg Hi Ha. unfold get_type in Hg. simpl in Hg.
    repeat match type of Hg with
           | (if ?b then _ else _) = _ => destruct b; [inversion Hg; subst; clear Hg|]
           end; try discriminate;
      simpl in Hi; repeat (destruct Hi as [<-|Hi]; [destruct Ha|]); destruct Hi.
Qed.
