(* C20 -- schema diffing reports every difference with a severity matching
   client impact.  Statements only; proofs are in Proofs/DifferProofs.v. *)
From PyGql Require Import Schema.SchemaFull Schema.DifferModel Spec.DifferSpec Proofs.DifferProofs
  Proofs.DifferEditProofs Proofs.DifferSoundProofs.
From Coq Require Import Permutation.

(* Output positions: when the differ's (repaired) output predicate calls a
   type change safe, every value the new type can produce was already a
   possible value of the old type ("at least as strict as before") -- for
   every typing [base] of the named types and all wrapper depths. *)
Theorem C20_safe_output : forall (base : str -> pv -> Prop) o n,
  safe_out o n = true -> forall v, out_value base n v -> out_value base o v.
Proof. intros base o n; exact (safe_out_sound base n o). Qed.
Print Assumptions C20_safe_output.

(* Input positions: every value accepted by the old type is accepted by the
   new one ("at least as permissive"). *)
Theorem C20_safe_input : forall (base : str -> pv -> Prop) o n,
  safe_in o n = true -> forall v, in_value base o v -> in_value base n v.
Proof. exact safe_in_sound. Qed.
Print Assumptions C20_safe_input.

(* The output predicate of the unchanged tree (list items compared with the
   input rule) violates the statement: [Int!] -> [Int] is called safe although
   [null] is a value of the new type only. *)
Theorem C20_unfixed_output_rule_refuted :
  exists o n, safe_out_unfixed o n = true /\
    exists v, out_value (fun _ v => v = PInt 1) n v /\ ~ out_value (fun _ v => v = PInt 1) o v.
Proof. eexists; eexists; exact safe_out_unfixed_unsound. Qed.
Print Assumptions C20_unfixed_output_rule_refuted.

(* Diffing a schema against itself reports nothing. *)
Theorem C20_reflexive : forall s, wf_schema s -> diff_model s s = [].
Proof. exact diff_model_refl. Qed.
Print Assumptions C20_reflexive.

(* The multiset of changes does not depend on the order of type definitions. *)
Theorem C20_order : forall o n o' n',
  names_unique t_name (s_types o) -> names_unique t_name (s_types n) ->
  Permutation (s_types o) (s_types o') -> Permutation (s_types n) (s_types n') ->
  s_dirs o = s_dirs o' -> s_dirs n = s_dirs n' ->
  Permutation (diff_model o n) (diff_model o' n').
Proof. exact diff_model_order. Qed.
Print Assumptions C20_order.

(* Every elementary edit (30 kinds: adding, removing, retyping a type, field,
   argument, input field, enum value, union member, interface implementation,
   directive, location, default, deprecation) that really changes its element
   is reported by a change whose path names exactly that element -- except
   retypes that the differ's own predicate calls safe, which are not reported
   at all (open finding "safe-retype-unreported", guard [reportable]). *)
Definition C20_edit_reported_full : Prop := forall e s,
  applicable e s ->
  exists c, In c (diff_model s (apply_edit e s)) /\ c_path c = edit_path e.

Theorem C20_edit_reported_partial : forall e s,
  applicable e s -> reportable e s ->
  exists c, In c (diff_model s (apply_edit e s)) /\ c_path c = edit_path e.
Proof. exact edit_reported. Qed.
Print Assumptions C20_edit_reported_partial.

Local Open Scope string_scope.
Definition S (x : string) : str := str_of_string x.
Definition ex_schema (t : ty) : schema :=
  mkSchema [ mkType (S "Int") false true BScalar;
             mkType (S "Query") false false
               (BObject [] [mkField (S "f") t [mkArg (S "x") (S "x") (TyNonNull (TyNamed (S "Int"))) None]
                                    None None] None) ]
           [] (Some (S "Query")) None None None.

(* the full statement fails: Query.f : Int -> Int! is applicable and unreported *)
Theorem C20_edit_reported_full_refuted : ~ C20_edit_reported_full.
Proof.
  intros H.
  destruct (H (ERetypeField (S "Query") (S "f") (TyNonNull (TyNamed (S "Int")))) (ex_schema (TyNamed (S "Int"))))
    as (c & Hc & _).
  - eexists. eexists. split; [reflexivity|]. split; [reflexivity|]. discriminate.
  - vm_compute in Hc. exact Hc.
Qed.
Print Assumptions C20_edit_reported_full_refuted.

(* non-vacuity: a reportable edit and what the model reports for it *)
Example C20_example_edit :
  diff_model (ex_schema (TyList (TyNonNull (TyNamed (S "Int")))))
             (apply_edit (ERetypeField (S "Query") (S "f") (TyList (TyNamed (S "Int"))))
                         (ex_schema (TyList (TyNonNull (TyNamed (S "Int"))))))
  = [mkChange CFieldChangedType Breaking [S "Query"; S "f"]]
  /\ diff_model (ex_schema (TyNamed (S "Int")))
                (apply_edit (EDefaultArg (S "Query") (S "f") (S "x") (Some (PInt 3))) (ex_schema (TyNamed (S "Int"))))
     = [mkChange CFieldArgumentDefaultValueChange Dangerous [S "Query"; S "f"; S "x"]]
  /\ diff_model (apply_edit (EDefaultArg (S "Query") (S "f") (S "x") (Some (PInt 3))) (ex_schema (TyNamed (S "Int"))))
                (ex_schema (TyNamed (S "Int")))
     = [mkChange CFieldArgumentDefaultValueChange Breaking [S "Query"; S "f"; S "x"]].
Proof. vm_compute. repeat split; reflexivity. Qed.

(* Whenever the differ reports no change of severity BREAKING, every query
   operation valid against the old schema stays valid against the new one, for
   the rule core of Spec/DifferSpec.v (FieldsOnCorrectType, KnownArgumentNames,
   ProvidedRequiredArguments, known composite type conditions, ScalarLeafs), all
   selection depths.  Partial: the rule core only (not the full validation
   rule set, no variables/values/directives, query root only); hypotheses: the
   new schema has unique member names (it passed validate()), both schemas
   agree on which names are introspection types, same query root. *)
Theorem C20_no_breaking_sound_partial : forall o n op,
  has_breaking (diff_model o n) = false ->
  same_builtins o n -> wf_schema n -> s_query o = s_query n ->
  client_ok o op -> client_ok n op.
Proof.
  intros o n op H Hb Hw Hq. apply no_breaking_sound; try assumption.
  apply has_breaking_false; exact H.
Qed.
Print Assumptions C20_no_breaking_sound_partial.

Example C20_example_client :
  let o := ex_schema (TyNamed (S "Int")) in
  let n := apply_edit (ERetypeArg (S "Query") (S "f") (S "x") (TyNamed (S "Int")))
             (apply_edit (ERetypeField (S "Query") (S "f") (TyNonNull (TyNamed (S "Int")))) o) in
  has_breaking (diff_model o n) = false
  /\ client_ok o [SelField (S "f") [S "x"] []]
  /\ has_breaking (diff_model n o) = true.
Proof.
  split; [vm_compute; reflexivity|]. split; [|vm_compute; reflexivity].
  exists (S "Query"). split; [reflexivity|]. split; [vm_compute; discriminate|].
  constructor; [|constructor]. simpl.
  eexists. eexists. split; [vm_compute; reflexivity|]. split; [vm_compute; reflexivity|].
  split; [|split].
  - intros a [<-|[]]. vm_compute. discriminate.
  - intros a [<-|[]] _. left; reflexivity.
  - vm_compute. reflexivity.
Qed.
