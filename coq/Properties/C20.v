(* C20 -- schema diffing reports every difference with a severity matching
   client impact.  Statements only; proofs are in Proofs/DifferProofs.v. *)
From PyGql Require Import Schema.SchemaFull Schema.DifferModel Spec.DifferSpec Spec.DifferClientSpec
  Spec.DifferChangeSpec Proofs.DifferProofs Proofs.DifferEditProofs Proofs.DifferSoundProofs
  Proofs.DifferClientProofs Proofs.DifferTrueProofs Proofs.DifferGuardProofs
  Proofs.DifferSafeRetypeProofs Spec.DifferShapeSpec.
From Coq Require Import Permutation.

(* Output positions: when the differ's (repaired) output predicate calls a
   type change safe, every value the new type can produce was already a
   possible value of the old type ("at least as strict as before") -- for
   every typing [base] of the named types and all wrapper depths. *)
Theorem C20_safe_output : forall (base : str -> pv -> Prop) o n,
  safe_out o n = true -> forall v, out_value base n v -> out_value base o v.
Proof. intros base o n; exact (safe_out_sound base n o). Qed.
Print Assumptions C20_safe_output.

(* Input positions: every value accepted by the old type is accepted by the
   new one ("at least as permissive"). *)
Theorem C20_safe_input : forall (base : str -> pv -> Prop) o n,
  safe_in o n = true -> forall v, in_value base o v -> in_value base n v.
Proof. exact safe_in_sound. Qed.
Print Assumptions C20_safe_input.

(* The output predicate of the unchanged tree (list items compared with the
   input rule) violates the statement: [Int!] -> [Int] is called safe although
   [null] is a value of the new type only. *)
Theorem C20_unfixed_output_rule_refuted :
  exists o n, safe_out_unfixed o n = true /\
    exists v, out_value (fun _ v => v = PInt 1) n v /\ ~ out_value (fun _ v => v = PInt 1) o v.
Proof. eexists; eexists; exact safe_out_unfixed_unsound. Qed.
Print Assumptions C20_unfixed_output_rule_refuted.

(* Diffing a schema against itself reports nothing. *)
Theorem C20_reflexive : forall s, wf_schema s -> diff_model s s = [].
Proof. exact diff_model_refl. Qed.
Print Assumptions C20_reflexive.

(* The multiset of changes does not depend on the order of the type
   definitions nor on the order of the directive definitions. *)
Theorem C20_order : forall o n o' n',
  names_unique t_name (s_types o) -> names_unique t_name (s_types n) ->
  names_unique d_name (s_dirs o) -> names_unique d_name (s_dirs n) ->
  Permutation (s_types o) (s_types o') -> Permutation (s_types n) (s_types n') ->
  Permutation (s_dirs o) (s_dirs o') -> Permutation (s_dirs n) (s_dirs n') ->
  Permutation (diff_model o n) (diff_model o' n').
Proof. exact diff_model_order_full. Qed.
Print Assumptions C20_order.

(* Every elementary edit (30 kinds: adding, removing, retyping a type, field,
   argument, input field, enum value, union member, interface implementation,
   directive, location, default, deprecation) that really changes its element
   is reported by a change whose path names exactly that element -- except
   retypes that the differ's own predicate calls safe, which are not reported
   at all (open finding "safe-retype-unreported", guard [reportable]). *)
Definition C20_edit_reported_full : Prop := forall e s,
  applicable e s ->
  exists c, In c (diff_model s (apply_edit e s)) /\ c_path c = edit_path e.

Theorem C20_edit_reported_partial : forall e s,
  applicable e s -> reportable e s ->
  exists c, In c (diff_model s (apply_edit e s)) /\ c_path c = edit_path e.
Proof. exact edit_reported. Qed.
Print Assumptions C20_edit_reported_partial.

Local Open Scope string_scope.
Definition S (x : string) : str := str_of_string x.
Definition ex_schema (t : ty) : schema :=
  mkSchema [ mkType (S "Int") false true BScalar;
             mkType (S "Query") false false
               (BObject [] [mkField (S "f") t [mkArg (S "x") (S "x") (TyNonNull (TyNamed (S "Int"))) None]
                                    None None] None) ]
           [] (Some (S "Query")) None None None.

(* the full statement fails: Query.f : Int -> Int! is applicable and unreported *)
Theorem C20_edit_reported_full_refuted : ~ C20_edit_reported_full.
Proof.
  intros H.
  destruct (H (ERetypeField (S "Query") (S "f") (TyNonNull (TyNamed (S "Int")))) (ex_schema (TyNamed (S "Int"))))
    as (c & Hc & _).
  - eexists. eexists. split; [reflexivity|]. split; [reflexivity|]. discriminate.
  - vm_compute in Hc. exact Hc.
Qed.
Print Assumptions C20_edit_reported_full_refuted.

(* non-vacuity: a reportable edit and what the model reports for it *)
Example C20_example_edit :
  diff_model (ex_schema (TyList (TyNonNull (TyNamed (S "Int")))))
             (apply_edit (ERetypeField (S "Query") (S "f") (TyList (TyNamed (S "Int"))))
                         (ex_schema (TyList (TyNonNull (TyNamed (S "Int"))))))
  = [mkChange CFieldChangedType Breaking [S "Query"; S "f"]]
  /\ diff_model (ex_schema (TyNamed (S "Int")))
                (apply_edit (EDefaultArg (S "Query") (S "f") (S "x") (Some (PInt 3))) (ex_schema (TyNamed (S "Int"))))
     = [mkChange CFieldArgumentDefaultValueChange Dangerous [S "Query"; S "f"; S "x"]]
  /\ diff_model (apply_edit (EDefaultArg (S "Query") (S "f") (S "x") (Some (PInt 3))) (ex_schema (TyNamed (S "Int"))))
                (ex_schema (TyNamed (S "Int")))
     = [mkChange CFieldArgumentDefaultValueChange Breaking [S "Query"; S "f"; S "x"]].
Proof. vm_compute. repeat split; reflexivity. Qed.

(* The guard of C20_edit_reported_partial is exactly the complement of the open
   finding: an applicable edit is reportable or it is a retype to a different
   type that the differ's predicate calls safe -- never both.  Any third class
   of unreported edits would contradict C20_edit_reported_partial. *)
Theorem C20_reportable_exact : forall e s,
  applicable e s ->
  (reportable e s \/ safe_retype e s) /\ ~ (reportable e s /\ safe_retype e s).
Proof.
  intros e s Ha. split; [apply reportable_or_safe_retype; exact Ha|].
  intros [H1 H2]. exact (reportable_excludes_safe_retype e s H1 H2).
Qed.
Print Assumptions C20_reportable_exact.

(* No spurious change: every change the differ reports names an element whose
   description, read by plain lookups ([descr]: kind of the type, membership in
   the union / interface list / locations, the enum value, the argument, the
   field's type and deprecation reason, the input field), really differs
   between the two schemas -- for all 34 change classes.  Together with
   C20_reflexive: the differ reports nothing for equal schemas and only true
   differences otherwise.  Hypothesis: unique names (dict keys / validated). *)
Theorem C20_no_spurious_change : forall o n c,
  wf_schema o -> wf_schema n -> In c (diff_model o n) -> truthful o n c.
Proof. intros o n c Ho Hn. apply changes_truthful; assumption. Qed.
Print Assumptions C20_no_spurious_change.

(* The value-level clause at schema level: when nothing BREAKING is reported,
   every output position present in both schemas is at least as strict as
   before (fields of object and interface types) and every input position at
   least as permissive (field arguments, input object fields, directive
   arguments) -- for every typing of the named types. *)
Theorem C20_positions_sound : forall (base : str -> pv -> Prop) o n,
  has_breaking (diff_model o n) = false ->
  output_positions_ok base o n /\ argument_positions_ok base o n
  /\ input_field_positions_ok base o n /\ directive_argument_positions_ok base o n.
Proof.
  intros base o n H. apply has_breaking_false in H. repeat split.
  - apply output_positions_sound; exact H.
  - apply argument_positions_sound; exact H.
  - apply input_field_positions_sound; exact H.
  - apply directive_argument_positions_sound; exact H.
Qed.
Print Assumptions C20_positions_sound.

(* Whenever the differ reports no change of severity BREAKING, every operation
   (query, mutation or subscription) valid against the old schema is valid
   against the new one, for the schema-dependent rules of
   Spec/DifferClientSpec.v [op_ok]: FieldsOnCorrectType, ScalarLeafs,
   KnownArgumentNames and ProvidedRequiredArguments (fields and directives),
   ValuesOfCorrectType (literals, enum values, input objects, list coercion),
   VariablesInAllowedPosition, KnownTypeNames / VariablesAreInputTypes
   (variable definitions), KnownTypeNames / FragmentsOnCompositeTypes (type
   conditions and fragment definitions), PossibleFragmentSpreads (inline
   fragments and named spreads), KnownDirectives (name, location), at every
   selection depth, named fragments included.  Each rule is a lemma of its
   own in Proofs/DifferClientProofs.v (rule_*_kept, args_ok_kept, csel_ok_kept).
   Partial: OverlappingFieldsCanBeMerged is the one schema-dependent rule not
   in [op_ok] (a field becoming non-null can make two same-key fields of one
   merged scope conflict); see C20_no_breaking_sound_guarded for the documents
   on which even that rule is covered.  Hypotheses: the new schema has unique member names (it
   passed validate()); both schemas agree on the introspection names and on
   the specified directives; same root operation types (roots are not compared
   by the differ and are not an elementary edit of the statement). *)
Theorem C20_no_breaking_sound_partial : forall scalar_lit o n op,
  has_breaking (diff_model o n) = false ->
  same_builtins o n -> wf_schema n ->
  (forall dn d, find_dir (s_dirs o) dn = Some d -> d_specified d = true -> find_dir (s_dirs n) dn = Some d) ->
  (forall k, root_of o k = root_of n k) ->
  op_ok scalar_lit o op -> op_ok scalar_lit n op.
Proof.
  intros scalar_lit o n op H. apply operations_kept. apply has_breaking_false; exact H.
Qed.
Print Assumptions C20_no_breaking_sound_partial.

(* The exclusion, precisely.  OverlappingFieldsCanBeMerged constrains the
   response keys that occur at two different positions of one selection set
   after flattening inline fragments and named spreads ([merge_rule cond], for
   ANY pairwise condition [cond]: same response shape, same field and
   arguments, mergeable sub-selections).  For every document whose selection
   sets have pairwise distinct keys -- the decidable guard [doc_distinct_keys]
   -- that rule holds against every schema, so for those documents validity
   INCLUDING that rule is preserved when nothing BREAKING is reported. *)
Theorem C20_no_breaking_sound_guarded : forall scalar_lit cond_o cond_n fuel o n op,
  has_breaking (diff_model o n) = false ->
  same_builtins o n -> wf_schema n ->
  (forall dn d, find_dir (s_dirs o) dn = Some d -> d_specified d = true -> find_dir (s_dirs n) dn = Some d) ->
  (forall k, root_of o k = root_of n k) ->
  doc_distinct_keys fuel op = true ->
  op_ok scalar_lit o op /\ merge_rule cond_o fuel op ->
  op_ok scalar_lit n op /\ merge_rule cond_n fuel op.
Proof.
  intros scalar_lit cond_o cond_n fuel o n op H Hb Hw Hs Hr Hg [Hop _]. split.
  - eapply C20_no_breaking_sound_partial; eassumption.
  - apply guard_merge_rule. exact Hg.
Qed.
Print Assumptions C20_no_breaking_sound_guarded.

(* The open finding, bounded from both sides.
   (a) Every retype of an existing field / argument / input field / directive
       argument that the differ's predicate calls safe yields NO change at all
       (converse of C20_edit_reported_partial + C20_reportable_exact: the
       unreported edits are exactly the safe retypes). *)
Theorem C20_safe_retype_unreported : forall e s,
  wf_schema s -> safe_retype e s -> diff_model s (apply_edit e s) = [].
Proof. exact safe_retype_unreported. Qed.
Print Assumptions C20_safe_retype_unreported.

(* (b) Such a retype is really safe for every operation and every rule of
       [op_ok] (all schema-dependent rules but OverlappingFieldsCanBeMerged),
       input positions and output positions alike. *)
Theorem C20_safe_retype_really_safe : forall scalar_lit e s op,
  wf_schema s -> safe_retype e s ->
  same_builtins s (apply_edit e s) -> wf_schema (apply_edit e s) ->
  (forall dn d, find_dir (s_dirs s) dn = Some d -> d_specified d = true ->
                find_dir (s_dirs (apply_edit e s)) dn = Some d) ->
  (forall k, root_of s k = root_of (apply_edit e s) k) ->
  op_ok scalar_lit s op -> op_ok scalar_lit (apply_edit e s) op.
Proof.
  intros scalar_lit e s op Hw Hs Hb Hw' Hd Hr. apply C20_no_breaking_sound_partial; try assumption.
  rewrite (safe_retype_unreported e s Hw Hs). reflexivity.
Qed.
Print Assumptions C20_safe_retype_really_safe.

(* (c) ... and NOT for OverlappingFieldsCanBeMerged: the safe output retype
       A.x : Int -> Int! is unreported, the operation
         { u { ... on A { x } ... on B { x } } }
       is valid for [op_ok] and satisfies SameResponseShape against the old
       schema, and violates SameResponseShape against the new one (x: Int! vs
       x: Int in one merged scope).  A documented exception (graphql-js has the
       same one); it concerns output retypes only -- the rule never looks at
       argument or input-field types. *)
Definition shape_schema (t : ty) : schema :=
  let fld n ty_ := mkField (S n) ty_ [] None None in
  mkSchema [ mkType (S "Int") false true BScalar;
             mkType (S "A") false false (BObject [] [fld "x" t] None);
             mkType (S "B") false false (BObject [] [fld "x" (TyNamed (S "Int"))] None);
             mkType (S "U") false false (BUnion [S "A"; S "B"]);
             mkType (S "Query") false false (BObject [] [fld "u" (TyNamed (S "U"))] None) ]
           [] (Some (S "Query")) None None None.
Definition shape_op : operation :=
  mkOp OQuery [] []
    [CField (S "u") [] []
       [CInline (Some (S "A")) [] [CField (S "x") [] [] []];
        CInline (Some (S "B")) [] [CField (S "x") [] [] []]]] [].

Theorem C20_same_response_shape_refuted :
  let o := shape_schema (TyNamed (S "Int")) in
  let e := ERetypeField (S "A") (S "x") (TyNonNull (TyNamed (S "Int"))) in
  safe_retype e o /\ diff_model o (apply_edit e o) = []
  /\ op_ok (fun _ _ => false) o shape_op
  /\ same_response_shape o 5 shape_op = true
  /\ same_response_shape (apply_edit e o) 5 shape_op = false.
Proof.
  split; [|split; [vm_compute; reflexivity|split; [|split; vm_compute; reflexivity]]].
  - eexists. eexists. split; [vm_compute; reflexivity|]. split; [vm_compute; reflexivity|].
    split; [discriminate|vm_compute; reflexivity].
  - assert (Hx : forall vars frs p, (p = S "A" \/ p = S "B") ->
              csel_ok (fun _ _ => false) (shape_schema (TyNamed (S "Int"))) vars frs
                      (CField (S "x") [] [] []) p).
    { intros vars frs p [->| ->]; simpl; eexists; eexists;
        (split; [split; vm_compute; reflexivity|]);
        (split; [split; [constructor|intros a []]|]);
        (split; [constructor|vm_compute; reflexivity]). }
    assert (Hp : forall obj, (obj = S "A" \/ obj = S "B") ->
              possible_of (shape_schema (TyNamed (S "Int"))) (S "U") obj
              /\ possible_of (shape_schema (TyNamed (S "Int"))) obj obj).
    { intros obj [->| ->]; split; eexists; eexists; eexists;
        (split; [vm_compute; reflexivity|]); try (left; reflexivity);
        right; left; eexists; (split; [vm_compute; reflexivity|]); simpl; auto. }
    exists (S "Query"). split; [reflexivity|]. split; [vm_compute; discriminate|].
    split; [constructor|]. split; [constructor|]. split; [|constructor].
    constructor; [|constructor]. simpl. eexists. eexists.
    split; [split; vm_compute; reflexivity|].
    split; [split; [constructor|intros a []]|]. split; [constructor|].
    change (is_leaf (shape_schema (TyNamed (S "Int"))) (unwrap (TyNamed (S "U")))) with false. cbv iota.
    split; [discriminate|]. split; [vm_compute; discriminate|].
    split; [|split; [|exact I]].
    + split; [vm_compute; discriminate|]. split; [exists (S "A"); apply Hp; left; reflexivity|].
      split; [constructor|]. split; [apply (Hx _ []); left; reflexivity|exact I].
    + split; [vm_compute; discriminate|]. split; [exists (S "B"); apply Hp; right; reflexivity|].
      split; [constructor|]. split; [apply (Hx _ []); right; reflexivity|exact I].
Qed.
Print Assumptions C20_same_response_shape_refuted.

(* non-vacuity: query ($v: Int!) { f(x: $v) ... on Query { f(x: 3) } ...F }
                 fragment F on Query { f(x: 3) }
   (it has the same response key twice in one scope: the guard [doc_distinct_keys]
   of the one rule left out, OverlappingFieldsCanBeMerged, rejects it, and
   accepts the document without the inline fragment and the spread) *)
Definition ex_lit (n : str) (v : value) : bool :=
  match v with VInt => str_eqb n (S "Int") | _ => false end.
Definition ex_frag : fragment_def := mkFrag (S "F") (S "Query") [] [CField (S "f") [(S "x", VInt)] [] []].
Definition ex_op (sel : list csel) : operation :=
  mkOp OQuery [(S "v", (TyNonNull (TyNamed (S "Int")), false))] [] sel [ex_frag].
Example C20_example_operation :
  let o := ex_schema (TyNamed (S "Int")) in
  op_ok ex_lit o
    (ex_op [CField (S "f") [(S "x", VVar (S "v"))] [] [];
            CInline (Some (S "Query")) [] [CField (S "f") [(S "x", VInt)] [] []];
            CSpread (S "F") []])
  /\ doc_distinct_keys 5 (ex_op [CField (S "f") [(S "x", VVar (S "v"))] [] []; CSpread (S "F") []]) = false
  /\ doc_distinct_keys 5 (ex_op [CField (S "f") [(S "x", VVar (S "v"))] [] []]) = true.
Proof.
  split; [|split; vm_compute; reflexivity].
  assert (Hreq : forall given, In (S "x") (map fst given) ->
            required_args_given [mkArg (S "x") (S "x") (TyNonNull (TyNamed (S "Int"))) None] given).
  { intros given Hin a [<-|[]] _. exact Hin. }
  assert (Hov : overlap (ex_schema (TyNamed (S "Int"))) (S "Query") (S "Query")).
  { exists (S "Query"). split; eexists; eexists; eexists; (split; [vm_compute; reflexivity|left; reflexivity]). }
  assert (Hlit : forall vars frs, csel_ok ex_lit (ex_schema (TyNamed (S "Int"))) vars frs
                                     (CField (S "f") [(S "x", VInt)] [] []) (S "Query")).
  { intros vars frs. simpl. eexists. eexists. split; [split; vm_compute; reflexivity|].
    split; [|split; [constructor|vm_compute; reflexivity]].
    split; [|apply Hreq; left; reflexivity].
    constructor; [|constructor]. eexists. split; [vm_compute; reflexivity|].
    apply vo_non_null; [discriminate|intros x; discriminate|].
    apply vo_scalar; [vm_compute; reflexivity|vm_compute; reflexivity]. }
  exists (S "Query"). split; [reflexivity|]. split; [vm_compute; discriminate|].
  split.
  { constructor; [|constructor]. eexists. split; [vm_compute; reflexivity|]. left; reflexivity. }
  split; [constructor|].
  split.
  - constructor; [|constructor; [|constructor; [|constructor]]].
    + simpl. eexists. eexists. split; [split; vm_compute; reflexivity|].
      split; [|split; [constructor|vm_compute; reflexivity]].
      split; [|apply Hreq; left; reflexivity].
      constructor; [|constructor]. eexists. split; [vm_compute; reflexivity|].
      eapply vo_var; [vm_compute; reflexivity|vm_compute; reflexivity].
    + simpl. split; [vm_compute; discriminate|]. split; [exact Hov|].
      split; [constructor|]. split; [apply (Hlit _ [ex_frag])|exact I].
    + simpl. exists ex_frag. split; [vm_compute; reflexivity|]. split; [exact Hov|constructor].
  - constructor; [|constructor]. split; [vm_compute; discriminate|]. split; [constructor|].
    constructor; [apply (Hlit _ [ex_frag])|constructor].
Qed.
