(* C16 -- instrumentation and middlewares see every field exactly once,
   properly nested.  Statements only; proofs are in Proofs/TraceProofs.v.
   Spec: Spec/TraceSpec.v (trace_spec / trace_ok).  Model: Exec/TraceModel.v. *)
From Coq Require Import List NArith ZArith Arith Bool.
Import ListNotations.
From PyGql Require Import Spec.TraceSpec Exec.TraceModel Proofs.TraceProofs.
From PyGql Require Import Exec.RuntimeMachine Exec.TraceDeferred Proofs.TraceDeferredProofs.
From PyGql Require Import Exec.TraceTracer Proofs.TraceTracerProofs.
From PyGql Require Import Exec.TraceLift Proofs.TraceLiftProofs Exec.TraceRequest Proofs.TraceRequestProofs.
From PyGql Require Import Exec.TraceListModel Proofs.TraceListProofs.

(* The executable checker used by the correspondence decides the declarative
   specification, for every configuration and every event sequence. *)
Theorem C16_checker_decides : forall c t, trace_ok c t = true <-> trace_spec c t.
Proof. exact trace_ok_decides. Qed.
Print Assumptions C16_checker_decides.

(* For every request outcome class, document form, number k of stacked
   instrumentations and whatever field-level events the executor emits, the
   stage hooks fired by the model of process_graphql_query form a word of
   Q+ (P+ P-)? (V+ V- (E+ E-)?)? Q-  (parsing iff text, execution iff
   validated and coerced; every X+ matched by its X-, each once); and for the
   outcomes that never execute, the whole trace is accepted. *)
Theorem C16_stage_bracket : forall k n text oc mwa ns fields,
  wf_request text oc ->
  Forall (fun x => is_stage x = false) fields ->
  stage_spec (mkConfig k n text oc mwa ns) (filter is_stage (process (stack k) text oc fields))
  /\ (is_exec oc = false ->
      trace_ok (mkConfig k n text oc mwa ns) (process (stack k) text oc fields) = true).
Proof.
  intros k n text oc mwa ns fields Hwf Hf. split.
  - exact (stage_bracket k n text oc mwa ns fields Hwf Hf).
  - exact (stage_only_ok k n text oc mwa ns fields Hwf).
Qed.
Print Assumptions C16_stage_bracket.

(* apply_middlewares over n recording middlewares turns any call into the
   bracket word  m(n-1)+ .. m0+ <call> m0- .. m(n-1)-  (last listed
   outermost), every middleware entered and left exactly once. *)
Theorem C16_middleware : forall n (f : callable) o p,
  apply_middlewares f (rec_mws n) o p = enters n p ++ f o p ++ exits n p
  /\ NoDup (enters n p) /\ NoDup (exits n p)
  /\ (forall j, In (MwEnter j p) (enters n p) <-> j < n)
  /\ (forall j, In (MwExit j p) (exits n p) <-> j < n).
Proof. exact middleware_once. Qed.
Print Assumptions C16_middleware.

(* ... also through the resolver cache: whatever sequence of fields asks
   field_resolver for its (possibly shared, memoised) resolver, starting from a
   fresh executor, every callable handed out brackets the call it is used for. *)
Theorem C16_middleware_cache : forall n rs,
  Forall (fun w : callable => forall o p, w o p = enters n p ++ resolver_body o p ++ exits n p)
         (fr_all n [] rs).
Proof. intros n rs. exact (fr_all_ok n rs [] (cache_ok_nil n)). Qed.
Print Assumptions C16_middleware_cache.

(* MultiInstrumentation, however nested: start hooks fire in flattening order,
   end hooks in exactly the reverse order; k stacked leaves are 0..k-1. *)
Theorem C16_multi : forall mk x,
  fire_start mk x = map mk (inst_ids x) /\ fire_end mk x = map mk (rev (inst_ids x)).
Proof. intros mk x. split; [exact (fire_start_ids mk x)|exact (fire_end_ids mk x)]. Qed.
Print Assumptions C16_multi.
Theorem C16_multi_stack : forall k, inst_ids (stack k) = seq 0 k.
Proof. exact stack_ids. Qed.
Print Assumptions C16_multi_stack.

(* The sequential executors (BlockingExecutor, and Executor under the blocking
   runtime, which emit the same trace): for every tree of fields with distinct
   response paths, every assignment of value / null / resolver error /
   argument error to the fields, every k, n, sharing of base resolvers and
   request outcome, the model's whole trace satisfies the specification. *)
Theorem C16_field_once_blocking : forall k n rid_of text oc ts,
  wf_request text oc ->
  NoDup (map nd_path (expected_roots ts)) ->
  trace_spec (mkConfig k n text oc true (expected_roots ts)) (request_blocking k n rid_of text oc ts)
  /\ request_generic k n rid_of text oc ts = request_blocking k n rid_of text oc ts.
Proof.
  intros k n rid_of text oc ts Hwf Hnd. split.
  - apply trace_ok_decides. exact (blocking_ok k n rid_of text oc ts Hwf Hnd).
  - exact (generic_same k n rid_of text oc ts).
Qed.
Print Assumptions C16_field_once_blocking.

(* Every runtime and completion order: ANY interleaving of per-field event
   words -- each satisfying that field's own order -- that keeps
   parent-Return before the sub-field's events, placed between the stage
   prefix and suffix, satisfies the specification and is accepted by the
   checker. *)
Theorem C16_interleave : forall c (W : node -> list event) mid,
  NoDup (map nd_path (nodes_of c)) ->
  (forall nd, In nd (nodes_of c) ->
     word_spec c nd (W nd) /\ Forall (fun x => about (nd_path nd) x = true) (W nd)) ->
  interleave_all (map W (nodes_of c)) mid ->
  (forall nd, In nd (nodes_of c) -> parent_spec mid nd) ->
  trace_spec c (stage_pre c ++ mid ++ stage_post c)
  /\ trace_ok c (stage_pre c ++ mid ++ stage_post c) = true.
Proof.
  intros c W mid H1 H2 H3 H4.
  pose proof (interleave_ok_std c W mid H1 H2 H3 H4) as H.
  split; [apply trace_ok_decides|]; exact H.
Qed.
Print Assumptions C16_interleave.

(* The deferred executor (thread pool / asyncio), as modelled by the C08/C09
   machine Exec/RuntimeMachine.v: in every complete run -- every program whose
   resolvers raise nothing but ResolverError, every admissible schedule of
   completions, every choice of calls that complete eagerly inside submit, any
   nesting depth of deferred values, queries and (serial) mutations -- the
   resolver events that the machine logs are a linearisation of the program's
   obligations: per field  call, level 0 done, level 1 submitted, .., last
   level done  in this order and exactly once; the sub-fields of a field only
   after its last level is done; sibling fields interleaved arbitrarily
   (top-level mutation fields: one after the other). *)
Theorem C16_machine_linearises : forall sigma pr s,
  crash_free pr -> run sigma pr = Some s -> pending (ms s) = [] ->
  sp_lin (ob_prog pr) (events_of (log (ms s))).
Proof. exact machine_linearises. Qed.
Print Assumptions C16_machine_linearises.

(* ... hence the machine's log, decorated with the field hooks where
   Executor.resolve_field fires them (on_field_start just before the call is
   made / submitted, on_field_end as soon as the last level of the field's value
   is there; Exec/TraceDeferred.v [dec]) and placed between the stage prefix and
   suffix of an executed request, satisfies the specification: every resolved
   field exactly one FieldStart, Invoke, Return|Raise, FieldEnd in this order,
   sub-fields after their parent's Return -- in every completion order. *)
Theorem C16_field_once_deferred : forall sigma pr s text oc,
  crash_free pr -> NoDup (map nd_path (nodes_prog pr)) -> is_exec oc = true ->
  run sigma pr = Some s -> pending (ms s) = [] ->
  let c := cfg_prog text oc pr in
  let t := stage_pre c ++ decorate (recs_prog pr) (log (ms s)) ++ stage_post c in
  trace_spec c t /\ trace_ok c t = true.
Proof.
  intros sigma pr s text oc H1 H2 H3 H4 H5 c t.
  pose proof (deferred_ok sigma pr s text oc H1 H2 H3 H4 H5) as H.
  split; [apply trace_ok_decides|]; exact H.
Qed.
Print Assumptions C16_field_once_deferred.

(* From one instrumentation and no middleware to k stacked instrumentations and
   n middlewares, as a homomorphism on event words ([lift]: every hook fans out
   over the stack -- starts 0..k-1, ends k-1..0 --, every resolver call gets
   the bracket m(n-1)+..m0+ <call> m0-..m(n-1)-; sync middlewares around a
   runtime-deferred resolver are left at submission, awaiting ones after the
   value is there): the image of ANY trace that satisfies the specification
   for (1, 0) satisfies it for (k, n). The images of the per-field words are
   exactly the words of C16_middleware / C16_multi. *)
Theorem C16_lift_preserves : forall k n aw ns text oc t,
  1 <= k -> NoDup (map nd_path ns) ->
  trace_spec (mkConfig 1 0 text oc aw ns) t ->
  trace_spec (mkConfig k n text oc aw ns) (flat_map (lift k n aw ns) t).
Proof. exact lift_preserves. Qed.
Print Assumptions C16_lift_preserves.

(* An argument-coercion failure is a resolver failure whose resolver and
   middleware events are erased ([erase], fields start and end only): erasing
   them in any trace that satisfies the specification gives a trace that
   satisfies it with those fields re-classified as argument errors. *)
Theorem C16_argerr_erase : forall m c t,
  (forall nd, In nd (nodes_of c) -> m (nd_path nd) = true -> nd_out nd = OErr) ->
  trace_spec c t -> trace_spec (remark_config m c) (erase m t).
Proof. exact erase_preserves. Qed.
Print Assumptions C16_argerr_erase.

(* The deferred executor with k stacked instrumentations, n middlewares
   (sync, or awaiting: aw) and argument-coercion failures: the decorated log
   of every complete run of the C08/C09 machine -- every crash-free program
   with distinct response paths, every admissible schedule, eager completions,
   nested deferred values, mutations --, with the marked fields' resolver
   events erased and lifted to (k, n), satisfies the specification. *)
Theorem C16_field_once_deferred_full : forall k n aw argerr pr sigma s text oc,
  1 <= k -> crash_free pr -> NoDup (map nd_path (nodes_prog pr)) -> argerr_ok argerr pr ->
  is_exec oc = true -> run sigma pr = Some s -> pending (ms s) = [] ->
  let c := cfg_full k n aw argerr pr text oc in
  trace_spec c (stage_pre c ++ deferred_fields k n aw argerr pr s ++ stage_post c).
Proof.
  intros k n aw argerr pr sigma s text oc H1 H2 H3 H4 H5 H6 H7.
  exact (deferred_full_ok k n aw argerr pr H1 H2 H3 H4 sigma s text oc H5 H6 H7).
Qed.
Print Assumptions C16_field_once_deferred_full.

(* The whole request under a deferred runtime, as one theorem about the
   composed model (stage machine of process_graphql_query around the lifted,
   decorated machine log): for every outcome class (syntax, validation,
   unknown operation, variable coercion, directive-argument coercion, success,
   partial failure), text or AST, every k >= 1, n, sync or awaiting
   middlewares, every program, schedule and eager-completion choice, the trace
   satisfies the specification -- "in every runtime and completion order". *)
Theorem C16_stage_and_fields : forall k n aw argerr pr sigma s text oc,
  1 <= k -> crash_free pr -> NoDup (map nd_path (nodes_prog pr)) -> argerr_ok argerr pr ->
  wf_request text oc -> run sigma pr = Some s -> pending (ms s) = [] ->
  trace_spec (cfg_full k n aw argerr pr text oc) (request_deferred k n aw argerr pr text oc s)
  /\ trace_ok (cfg_full k n aw argerr pr text oc) (request_deferred k n aw argerr pr text oc s) = true.
Proof.
  intros k n aw argerr pr sigma s text oc H1 H2 H3 H4 H5 H6 H7.
  pose proof (request_deferred_ok k n aw argerr pr H1 H2 H3 H4 sigma s text oc H5 H6 H7) as H.
  split; [exact H|apply trace_ok_decides; exact H].
Qed.
Print Assumptions C16_stage_and_fields.

(* C16_interleave / the specification leave the middleware exits of a
   runtime-deferred resolver unordered with respect to the resolver body
   (clause 4, [submit_mode]). That freedom is needed only under the hypothesis
   that a submitted resolver may start before `submit` returns (real worker
   threads). In the composed model, where a submitted resolver runs when the
   schedule completes it, nothing is left open: the events of every resolved
   field are EXACTLY the word [Wk] --
     deferred resolver, non-awaiting middlewares:
        F+0..F+(k-1)  m(n-1)+..m0+  m0-..m(n-1)-  Invoke Return|Raise  F-(k-1)..F-0
     otherwise (synchronous resolver, or awaiting middlewares):
        F+0..F+(k-1)  m(n-1)+..m0+  Invoke Return|Raise  m0-..m(n-1)-  F-(k-1)..F-0
   for every program, schedule, k, n, argument-error marking. *)
Theorem C16_deferred_words_exact : forall k n aw argerr pr sigma s text oc,
  1 <= k -> crash_free pr -> NoDup (map nd_path (nodes_prog pr)) -> argerr_ok argerr pr ->
  is_exec oc = true -> run sigma pr = Some s -> pending (ms s) = [] ->
  let c := cfg_full k n aw argerr pr text oc in
  forall nd, In nd (nodes_of c) ->
  filter (about (nd_path nd)) (stage_pre c ++ deferred_fields k n aw argerr pr s ++ stage_post c)
  = Wk k n aw nd.
Proof.
  intros k n aw argerr pr sigma s text oc H1 H2 H3 H4 H5 H6 H7.
  exact (deferred_words_exact k n aw argerr pr H2 H3 H4 sigma s text oc H5 H6 H7).
Qed.
Print Assumptions C16_deferred_words_exact.

(* Value completion in the generic Executor after commit 60b475c
   (Exec/TraceListModel.v: complete_value on objects, complete_list_value with
   items that cannot be completed, the field-level error handler), for an
   ARBITRARY delay of every deferred resolver, i.e. every completion order:
   (a) whatever value is completed -- objects, lists, lists of lists to any
   depth, with failing items anywhere -- every field started underneath fires
   its on_field_end hook before the value (or its failure) is delivered to
   whoever waits for it; for the whole operation: before on_execution_end.
   Needs only that the [nested] flags are the ones the types give (wf). *)
Theorem C16_list_fields_end_before_delivery : forall delay v, wf v -> forall e p,
  e <= c_time (complete delay e p v) /\
  Forall (fun qt => snd qt <= c_time (complete delay e p v)) (c_started (complete delay e p v)).
Proof. exact list_timely. Qed.
Print Assumptions C16_list_fields_end_before_delivery.

Theorem C16_operation_hooks_before_execution_end : forall delay fs, wf_fields fs ->
  c_fail (operation delay fs) = false /\
  Forall (fun qt => snd qt <= c_time (operation delay fs)) (c_started (operation delay fs)).
Proof. exact operation_timely. Qed.
Print Assumptions C16_operation_hooks_before_execution_end.

(* (b) the items after one whose completion raises at once are never started:
   the result (started fields, times, errors, failure) does not depend on them *)
Theorem C16_list_items_after_failure_not_started : forall delay pre e p nested x post,
  raises_now delay e p (lv_len pre) x = true ->
  complete delay e p (LList nested (lv_app pre (LVCons x post)))
  = complete delay e p (LList nested (lv_app pre (LVCons x LVNil))).
Proof. exact list_after_failure. Qed.
Print Assumptions C16_list_items_after_failure_not_started.

(* (c) a field whose value cannot be completed records exactly one error at its
   own path (every other error recorded underneath has a strictly longer path);
   and a list fails exactly when one of the items it reached fails *)
Theorem C16_list_field_error_once : forall delay (e : nat) (p : path) (k : N) (dfr : bool) (v : lval) (rest : lfields),
  let q := p ++ [k] in
  let r := complete delay (if dfr then e + S (delay q) else e) q v in
  (exists others,
     f_errs (fields delay e p (LFCons k dfr v rest))
     = (if c_fail r then [q] else []) ++ others ++ f_errs (fields delay e p rest)
     /\ ~ In q others)
  /\ (forall nested its, v = LList nested its ->
        c_fail r = existsb c_fail (fst (items delay (if dfr then e + S (delay q) else e) q 0%N its))
                   || match snd (items delay (if dfr then e + S (delay q) else e) q 0%N its) with
                      | Some _ => true | None => false end).
Proof.
  intros delay e p k dfr v rest q r. split.
  - exact (field_error_once delay e p k dfr v rest).
  - intros nested its ->. apply list_fails_iff.
Qed.
Print Assumptions C16_list_field_error_once.

(* ApolloTracer / TimingTracer at any position i of the instrumentation stack:
   on every trace that satisfies the specification its hooks never fail
   (on_field_end never meets a field that was not started) and the resolver
   list of its payload is a function of the event word: exactly the resolved
   fields, once each, in the order their start hook fired, every one with its
   end set (started fields = ended fields). *)
Theorem C16_apollo : forall c t i, trace_spec c t -> i < c_k c ->
  tracer_fields i t = Some (map (fun p => (p, true)) (start_paths i t))
  /\ NoDup (start_paths i t)
  /\ (forall p, In p (start_paths i t) <-> In p (map nd_path (nodes_of c))).
Proof. exact apollo_resolvers. Qed.
Print Assumptions C16_apollo.

(* ---------------------------------------------------------------- examples *)
Local Open Scope N_scope.

(* non-vacuity: a request with two stacked instrumentations, two middlewares,
   a nested field raising a resolver error; the blocking model's trace, and a
   different (deferred-style) interleaving of the same per-field words *)
Definition ex_tree : list ftree :=
  [FNode [0] OVal false [FNode [2] OErr false []; FNode [4] ONull false []]; FNode [6] OVal false []].
Example C16_example_blocking :
  NoDup (map nd_path (expected_roots ex_tree))
  /\ trace_ok (mkConfig 2 2 true OCPartial true (expected_roots ex_tree))
              (request_blocking 2 2 (fun _ => O) true OCPartial ex_tree) = true
  /\ length (request_blocking 2 2 (fun _ => O) true OCPartial ex_tree) = 56%nat.
Proof. split; [repeat constructor; cbn; intuition discriminate|]. vm_compute. split; reflexivity. Qed.

Example C16_example_interleaved :
  let c := mkConfig 1 0 false OCSuccess false (expected_roots ex_tree) in
  trace_ok c (stage_pre c ++
     [FieldStart 0 [0]; FieldStart 0 [6]; Invoke [6]; Invoke [0]; Return [0]; FieldEnd 0 [0];
      FieldStart 0 [0;2]; FieldStart 0 [0;4]; Return [6]; Invoke [0;4]; Invoke [0;2]; Raise [0;2];
      FieldEnd 0 [0;2]; FieldEnd 0 [6]; Return [0;4]; FieldEnd 0 [0;4]] ++ stage_post c) = true.
Proof. vm_compute. reflexivity. Qed.

(* the checker is not trivially true: a sub-field starting before its parent
   returned, a field end hook fired twice, middlewares applied in reverse, a
   missing on_validation_end are all rejected *)
Example C16_example_rejects :
  let c := mkConfig 1 2 false OCSuccess true (expected_roots [FNode [0] OVal false [FNode [2] OVal false []]]) in
  let ok := request_blocking 1 2 (fun _ => O) false OCSuccess [FNode [0] OVal false [FNode [2] OVal false []]] in
  trace_ok c ok = true
  /\ trace_ok c (ok ++ [FieldEnd 0 [0]]) = false
  /\ trace_ok c (removelast ok) = false
  /\ trace_ok c (stage_pre c ++
       [FieldStart 0 [0]; MwEnter 0 [0]; MwEnter 1 [0]; Invoke [0]; Return [0]; MwExit 1 [0]; MwExit 0 [0]; FieldEnd 0 [0];
        FieldStart 0 [0;2]; MwEnter 1 [0;2]; MwEnter 0 [0;2]; Invoke [0;2]; Return [0;2]; MwExit 0 [0;2]; MwExit 1 [0;2]; FieldEnd 0 [0;2]]
       ++ stage_post c) = false
  /\ trace_ok c (stage_pre c ++
       [FieldStart 0 [0]; MwEnter 1 [0]; MwEnter 0 [0]; Invoke [0]; FieldStart 0 [0;2]; Return [0]; MwExit 0 [0]; MwExit 1 [0]; FieldEnd 0 [0];
        MwEnter 1 [0;2]; MwEnter 0 [0;2]; Invoke [0;2]; Return [0;2]; MwExit 0 [0;2]; MwExit 1 [0;2]; FieldEnd 0 [0;2]]
       ++ stage_post c) = false.
Proof. vm_compute. repeat split; reflexivity. Qed.

(* DESIGN.md section 6 row 35 (repaired by fixes/C16-01): the code before the
   repair fired on_query_end before on_parsing_end on a syntax error; that
   trace is outside the stage language *)
Example C16_unrepaired_syntax_error_rejected :
  process_unrepaired (stack 1) true OCSyntax []
    = [StageStart SQ 0; StageStart SP 0; StageEnd SQ 0; StageEnd SP 0]
  /\ trace_ok (mkConfig 1 0 true OCSyntax true []) (process_unrepaired (stack 1) true OCSyntax []) = false
  /\ trace_ok (mkConfig 1 0 true OCSyntax true []) (process (stack 1) true OCSyntax []) = true.
Proof. vm_compute. repeat split; reflexivity. Qed.

(* non-vacuity of C16_field_once_deferred: a query with nested deferred values
   and a ResolverError under a non-trivial completion order, and a mutation
   with a list, eager completions and two levels of deferred values *)
Example C16_example_deferred :
  let leaf k d z := Fld k d false (BInt z) in
  let pr := Prog false (FCons (Fld 0 (Some (O, O)) false (BObj (FCons (leaf 1 (Some (1%nat, O)) 11%Z) (FCons (leaf 2 None 12%Z) FNil))))
                       (FCons (Fld 3 (Some (O, O)) true BErr) (FCons (leaf 4 (Some (O, O)) 14%Z) FNil))) in
  let sigma : list tid := [([4], O); ([0], O); ([0; 1], O); ([3], O); ([0; 1], 1%nat)] in
  crash_free pr /\ NoDup (map nd_path (nodes_prog pr)) /\
  match run sigma pr with
  | Some s => pending (ms s) = [] /\
      decorate (recs_prog pr) (log (ms s)) =
      [FieldStart 0 [0]; FieldStart 0 [3]; FieldStart 0 [4]; Invoke [4]; Return [4]; FieldEnd 0 [4];
       Invoke [0]; Return [0]; FieldEnd 0 [0]; FieldStart 0 [0; 1]; FieldStart 0 [0; 2];
       Invoke [0; 2]; Return [0; 2]; FieldEnd 0 [0; 2]; Invoke [3]; Raise [3]; FieldEnd 0 [3];
       Invoke [0; 1]; Return [0; 1]; FieldEnd 0 [0; 1]]
  | None => False
  end.
Proof.
  split; [reflexivity|]. split; [repeat constructor; cbn; intuition discriminate|].
  vm_compute. split; reflexivity.
Qed.

Example C16_example_deferred_mutation :
  let leaf k d z := Fld k d false (BInt z) in
  let pr := Prog true (FCons (Fld 0 (Some (1%nat, 1%nat)) false
                                  (BList false (ICons (ItObj (FCons (leaf 1 (Some (O, O)) 1%Z) FNil))
                                               (ICons ItNull (ICons (ItObj (FCons (leaf 1 None 1%Z) FNil)) INil)))))
                      (FCons (leaf 5 (Some (O, 1%nat)) 1%Z) (FCons (leaf 6 (Some (O, O)) 1%Z) FNil))) in
  let c := cfg_prog true OCSuccess pr in
  crash_free pr /\ NoDup (map nd_path (nodes_prog pr)) /\
  match run [([0], 1%nat); ([0; 0; 1], O); ([6], O)] pr with
  | Some s => pending (ms s) = [] /\
              trace_ok c (stage_pre c ++ decorate (recs_prog pr) (log (ms s)) ++ stage_post c) = true
  | None => False
  end.
Proof.
  split; [reflexivity|]. split; [repeat constructor; cbn; intuition discriminate|].
  vm_compute. split; reflexivity.
Qed.

(* the tracer model on the blocking model's trace, as third of three stacked
   instrumentations; and its failure (KeyError) on a trace outside the spec *)
Example C16_example_apollo :
  tracer_fields 2 (request_blocking 3 1 (fun _ => O) true OCPartial ex_tree)
    = Some [([0], true); ([0; 2], true); ([0; 4], true); ([6], true)]
  /\ tracer_fields 0 [FieldEnd 0 [0]; FieldStart 0 [0]] = None.
Proof. vm_compute. split; reflexivity. Qed.

(* non-vacuity of C16_stage_and_fields: two stacked instrumentations, two sync
   middlewares, a deferred field, a synchronous one, an argument-coercion
   failure ([5]) and a deferred ResolverError under the thread pool *)
Example C16_example_request_deferred :
  let pr := Prog false (FCons (Fld 0 (Some (O, O)) false (BObj (FCons (Fld 1 None false (BInt 1%Z)) FNil)))
                       (FCons (Fld 5 None false BErr) (FCons (Fld 3 (Some (O, O)) false BErr) FNil))) in
  let argerr := fun p => if path_eq_dec p [5] then true else false in
  crash_free pr /\ NoDup (map nd_path (nodes_prog pr)) /\ argerr_ok argerr pr /\
  match run [([3], O); ([0], O)] pr with
  | Some s => pending (ms s) = [] /\
      deferred_fields 2 2 false argerr pr s =
      [FieldStart 0 [0]; FieldStart 1 [0]; MwEnter 1 [0]; MwEnter 0 [0]; MwExit 0 [0]; MwExit 1 [0];
       FieldStart 0 [5]; FieldStart 1 [5]; FieldEnd 1 [5]; FieldEnd 0 [5];
       FieldStart 0 [3]; FieldStart 1 [3]; MwEnter 1 [3]; MwEnter 0 [3]; MwExit 0 [3]; MwExit 1 [3];
       Invoke [3]; Raise [3]; FieldEnd 1 [3]; FieldEnd 0 [3];
       Invoke [0]; Return [0]; FieldEnd 1 [0]; FieldEnd 0 [0];
       FieldStart 0 [0; 1]; FieldStart 1 [0; 1]; MwEnter 1 [0; 1]; MwEnter 0 [0; 1];
       Invoke [0; 1]; Return [0; 1]; MwExit 0 [0; 1]; MwExit 1 [0; 1]; FieldEnd 1 [0; 1]; FieldEnd 0 [0; 1]]
      /\ trace_ok (cfg_full 2 2 false argerr pr true OCPartial) (request_deferred 2 2 false argerr pr true OCPartial s) = true
      /\ request_deferred 2 2 false argerr pr true OCDirective s =
         [StageStart SQ 0; StageStart SQ 1; StageStart SP 0; StageStart SP 1; StageEnd SP 1; StageEnd SP 0;
          StageStart SV 0; StageStart SV 1; StageEnd SV 1; StageEnd SV 0; StageEnd SQ 1; StageEnd SQ 0]
  | None => False
  end.
Proof.
  split; [reflexivity|]. split; [repeat constructor; cbn; intuition discriminate|].
  split.
  { intros nd Hin Hm. cbn in Hin. destruct Hin as [<-|[<-|[<-|[<-|[]]]]]; cbn in Hm |- *; try discriminate; reflexivity. }
  vm_compute. repeat split; reflexivity.
Qed.

(* the list shapes of seed C16-f: a list of non-null rows `[[I]!]`; row 0 = an
   object with a deferred sub-field, then an item that cannot be typed; row 1 =
   an object with a slower deferred sub-field. With the flag the code computes
   after 60b475c (nested = true) the list is delivered (failing) at time 5,
   after both sub-fields ended (times 1 and 5), with one error at the list
   field. With the flag of the seeded change (nested = false, NonNull not
   unwrapped; not wf) the failure is delivered at time 1 while the sub-field of
   row 1 only ends at time 5: hooks after on_execution_end. *)
Example C16_example_list_failure :
  let delay := fun p : path => match p with [7; 1; 0; 3] => 4%nat | _ => 0%nat end in
  let obj := LObj (LFCons 3 true LLeaf LFNil) in
  let rows nested := LList nested (LVCons (LList false (LVCons obj (LVCons LBad LVNil)))
                                  (LVCons (LList false (LVCons obj LVNil)) LVNil)) in
  let run nested := fields delay 0%nat [] (LFCons 7 false (rows nested) LFNil) in
  wf (rows true) /\
  f_started (run true) = [([7], 0%nat); ([7; 0; 0; 3], 1%nat); ([7; 1; 0; 3], 5%nat)] /\
  f_time (run true) = 5%nat /\ f_errs (run true) = [[7]] /\
  f_time (run false) = 1%nat /\ f_started (run false) = f_started (run true).
Proof. vm_compute. repeat split; auto. all: intros H; try exact I; discriminate H. Qed.
