(* C13 -- schema validation accepts valid schemas and rejects each rule
   violation.  Statements only; proofs are in Proofs/SchemaValProofs.v. *)
From PyGql Require Import Schema.SchemaFull Schema.SchemaValidateModel Spec.SchemaValidSpec
  Proofs.SchemaValProofs Proofs.SchemaVerdictProofs Spec.SchemaReportSpec Proofs.SchemaReportProofs
  Proofs.SchemaStructuralProofs Proofs.SchemaSoundProofs
  Proofs.SchemaMemberOrderProofs Spec.SchemaClaimSpec Proofs.SchemaClaimProofs.
From Coq Require Import Permutation.

(* The covariance check used for interface implementations decides exactly
   the specification's subtype relation (June-2018 3.6.1), at every wrapper
   depth, for every type map. *)
Theorem C13_subtype : forall ts t u, wf_ty t ->
  (is_subtype_model ts t u = true <-> subtype ts t u).
Proof. exact subtype_iff. Qed.
Print Assumptions C13_subtype.

(* A resolver is accepted exactly when every call the executor may make,
   resolver(root, context, info, **arguments), binds without TypeError (and no
   argument is named like a positional-only parameter): accepted resolvers
   cannot fail at call time, rejected ones can. *)
Theorem C13_signature : forall path sg args,
  NoDup (map p_name sg) -> NoDup (map a_pyname args) ->
  (resolver_errors path sg args = [] <-> sig_ok sg args).
Proof. intros path sg args H1 H2. apply signature_iff; assumption. Qed.
Print Assumptions C13_signature.

(* For every sequence of register_resolver / register_default_resolver /
   register_subscription / assignment to schema.default_resolver /
   schema.validate() / direct validate_schema(schema,
   enable_resolver_validation=b) calls on a fresh schema: each schema.validate()
   answers what a fresh full validator says about the state it runs in --
   whatever validate_schema calls with either flag came before -- and each
   direct call answers the fresh verdict for the rule set it asked for (all
   rules, or all but the resolver signatures). *)
Theorem C13_memo : forall s ops st,
  (forall r, In (st, OpValidate, r) (trace (initial s) ops) -> r = fresh_verdict (m_schema st))
  /\ (forall rv r, In (st, OpValidateSchema rv, r) (trace (initial s) ops) ->
                   r = direct_verdict rv (m_schema st)).
Proof.
  intros s ops st. split.
  - intros r. apply memo_recomputed. apply initial_memo_ok.
  - intros rv r. apply direct_fresh.
Qed.
Print Assumptions C13_memo.

(* The multiset of reported violations does not depend on the order in which
   the types (and the directives) were supplied. *)
Theorem C13_perm : forall s s',
  NoDup (map t_name (s_types s)) -> Permutation (s_types s) (s_types s') ->
  Permutation (s_dirs s) (s_dirs s') -> s_query s = s_query s' -> s_mutation s = s_mutation s' ->
  s_subscription s = s_subscription s' -> s_default_resolver s = s_default_resolver s' ->
  Permutation (validate_model s) (validate_model s').
Proof. exact validate_perm_full. Qed.
Print Assumptions C13_perm.

(* The validator accepts exactly the schemas that satisfy every rule of the
   statement (Spec/SchemaValidSpec.v [schema_ok]: root types, well-formed names,
   non-empty types, unique members, input/output positions, interface
   implementation with covariant field types and compatible arguments, union
   members being object types, resolver signatures) -- no false rejection, no
   false acceptance.  Hypotheses are facts Python guarantees: parameter names of
   a signature and python names of a field's arguments are unique; no type is
   doubly non-null. *)
Theorem C13_verdict : forall s,
  sigs_wf s -> types_wf s -> (validate_model s = [] <-> schema_ok s).
Proof. exact verdict_full. Qed.
Print Assumptions C13_verdict.

(* Violations are reported together: the errors of one type never hide the
   errors of another, and a malformed field name is reported whatever else is
   wrong with its type.  Partial: masking inside one member loop follows the
   code's [continue]s (a duplicate member is not checked further; a field whose
   type breaks covariance is not checked for its arguments) and is not
   characterised label by label. *)
Theorem C13_all_reported_partial : forall s,
  (forall t e, In t (s_types s) -> In e (validate_type s t) -> In e (validate_model s))
  /\ (forall tn dr fields f, In f fields -> ~ name_ok (f_name f) ->
        In (err LInvalidName [f_name f]) (validate_fields s tn dr fields)).
Proof.
  intros s. split.
  - intros t e. apply type_errors_reported.
  - intros tn dr fields f. apply bad_field_name_reported.
Qed.
Print Assumptions C13_all_reported_partial.

(* Violations are reported together, label by label.  [validate_all] lists
   every violated rule instance (the validator's walk with every [continue]
   removed).  Each of them is in the reported list, unless a reported error of
   the same member hides it and [masked_by] -- the table read off the code's
   [continue]s: an invalid type name hides the rest of that type, a duplicate
   field / argument hides that member's own checks, 'implement once' and
   'expects type' hide the dependent interface checks, 'expects object types'
   hides 'only once' -- allows it.  Conversely nothing is reported that is not
   a violated rule instance. *)
Theorem C13_all_reported : forall s,
  (forall e, In e (validate_all s) ->
     In e (validate_model s)
     \/ exists m, In m (validate_model s) /\ masked_by (v_label m) (v_label e) /\ same_member m e)
  /\ (forall e, In e (validate_model s) -> In e (validate_all s)).
Proof.
  intros s. split.
  - intros e He. destruct (all_reported s e He) as [H|(m & Hm & Hk & Hs)]; [left; exact H|right; eauto].
  - apply reported_are_violations.
Qed.
Print Assumptions C13_all_reported.

(* Structural mode, validate_schema(schema, enable_resolver_validation=False):
   exactly the errors of the default mode that are not resolver-signature
   errors, in the same order -- every other rule (duplicate members included)
   fires as in the default mode, for every schema.  (Exact because resolver
   errors are the last check of a field and never mask another check.) *)
Theorem C13_structural_mode : forall s,
  validate_structural s = filter not_resolver_error (validate_model s).
Proof. exact structural_mode. Qed.
Print Assumptions C13_structural_mode.

(* Soundness of what is reported: every error comes from the root types, from
   one type, or from the directives, and that part of the schema really violates
   the Spec's rules for it ([roots_ok], [type_ok], [directives_ok] fail there) --
   the validator never blames a part of the schema that is in order. *)
Theorem C13_errors_sound : forall s e,
  sigs_wf s -> types_wf s -> In e (validate_model s) ->
  (In e (validate_roots s) /\ ~ roots_ok s)
  \/ (exists t, In t (s_types s) /\ In e (validate_type s t) /\ ~ type_ok_with s (implementation_ok s) t)
  \/ (In e (validate_directives (s_types s) (s_dirs s)) /\ ~ directives_ok s).
Proof. exact errors_sound. Qed.
Print Assumptions C13_errors_sound.

(* The verdict is a function of the schema's structure: it does not depend on
   the order in which the members of a type are declared (fields, input fields,
   enum values, union members, implemented interfaces) -- on top of C13_perm for
   the order of types and directives.  The reported LIST does depend on the
   field order (which of two same-named fields is "the duplicate" and gets
   masked): C13_example_field_order. *)
Theorem C13_verdict_member_order : forall s s',
  member_order_rel s s' -> sigs_wf s -> types_wf s -> sigs_wf s' -> types_wf s' ->
  (validate_model s = [] <-> validate_model s' = []).
Proof. exact verdict_member_order. Qed.
Print Assumptions C13_verdict_member_order.

(* Label by label.  [claim s e] (Spec/SchemaClaimSpec.v, one constructor per
   error kind and position) says what the error asserts about the element it
   names: the root is missing / not an object type, the name is not a GraphQL
   name, the member list is empty, the member is repeated, the type is not an
   output / input type at that position, the chosen resolver does not fit the
   field's arguments, the listed "interface" is not one / is listed twice, the
   interface field is missing / not covariantly typed / its argument missing /
   differently typed / an extra argument is required, the union member is not an
   object type / repeated.
   Every reported error's claim is true. *)
Theorem C13_errors_sound_by_label : forall s e,
  types_wf s -> In e (validate_model s) -> claim s e.
Proof.
  intros s e Hw He. apply claims_sound; [exact Hw|]. apply reported_are_violations. exact He.
Qed.
Print Assumptions C13_errors_sound_by_label.

(* Conversely every true claim is reported -- unless a reported error of the
   same member masks it, and only along [masked_by] (Spec/SchemaReportSpec.v):
   an invalid type name masks everything about that type; a duplicate field
   masks that field's output-position, argument and resolver errors (and an input
   field's position error); a duplicate argument masks its input-position error;
   'implement once' masks the five interface-implementation errors of that
   interface; 'expects type' masks the three argument errors of that interface
   field; 'expects object types' masks 'only once' for that member.  No other
   label masks any other. *)
Theorem C13_claims_reported : forall s e,
  claim s e ->
  In e (validate_model s)
  \/ exists m, In m (validate_model s) /\ masked_by (v_label m) (v_label e) /\ same_member m e.
Proof.
  intros s e Hc. apply claims_complete in Hc.
  destruct (all_reported s e Hc) as [H|(m & Hm & Hk & Hs)]; [left; exact H|right; eauto].
Qed.
Print Assumptions C13_claims_reported.

(* non-vacuity *)
Local Open Scope string_scope.
Definition S (x : string) : str := str_of_string x.
Definition ex_types : list type_def :=
  [ mkType (S "Int") false true BScalar;
    mkType (S "I") false false (BInterface [mkField (S "x") (TyList (TyNamed (S "I"))) [] None None]);
    mkType (S "A") false false
      (BObject [S "I"] [mkField (S "x") (TyNonNull (TyList (TyNonNull (TyNamed (S "A")))))
                           [mkArg (S "n") (S "n") (TyNamed (S "Int")) None] None
                           (Some [mkParam (S "root") PosOrKw false; mkParam (S "ctx") PosOrKw false;
                                  mkParam (S "info") PosOrKw false; mkParam (S "n") KwOnly true])] None) ].
Definition ex_schema : schema := mkSchema ex_types [] (Some (S "A")) None None None.

Example C13_example_subtype :
  is_subtype_model ex_types (TyNonNull (TyList (TyNonNull (TyNamed (S "A"))))) (TyList (TyNamed (S "I"))) = true
  /\ is_subtype_model ex_types (TyList (TyNamed (S "A"))) (TyList (TyNonNull (TyNamed (S "I")))) = false.
Proof. vm_compute. split; reflexivity. Qed.

Example C13_example_valid : validate_model ex_schema = [].
Proof. vm_compute. reflexivity. Qed.

Example C13_example_signature :
  resolver_errors [S "A"; S "x"]
    [mkParam (S "root") PosOrKw false; mkParam (S "n") PosOrKw false; mkParam (S "info") PosOrKw false]
    [mkArg (S "n") (S "n") (TyNamed (S "Int")) None] <> []
  /\ binds [mkParam (S "root") PosOrKw false; mkParam (S "n") PosOrKw false; mkParam (S "info") PosOrKw false]
           [S "n"] = false.
Proof. vm_compute. split; [discriminate|reflexivity]. Qed.

(* a resolver that only the resolver rule rejects: a structural-only call
   accepts, the schema.validate() after it still rejects *)
Example C13_example_memo_structural :
  run (initial ex_schema)
      [OpRegisterResolver (S "A") (S "x") [mkParam (S "root") PosOrKw false] true;
       OpValidateSchema false; OpValidate; OpValidateSchema true]
  = [RDone; RAccepted;
     RInvalid [mkErr LResMissing [S "A"; S "x"; S "n"]; mkErr LResPositional [S "A"; S "x"]];
     RInvalid [mkErr LResMissing [S "A"; S "x"; S "n"]; mkErr LResPositional [S "A"; S "x"]]].
Proof. vm_compute. reflexivity. Qed.

Example C13_example_memo :
  run (initial ex_schema)
      [OpValidate; OpRegisterResolver (S "A") (S "x") [mkParam (S "root") PosOrKw false] true; OpValidate]
  = [RAccepted; RDone;
     RInvalid [mkErr LResMissing [S "A"; S "x"; S "n"]; mkErr LResPositional [S "A"; S "x"]]].
Proof. vm_compute. reflexivity. Qed.

Example C13_example_schema_ok : schema_ok ex_schema.
Proof.
  apply verdict_full; [| |vm_compute; reflexivity].
  - intros t Ht tdr fields Hb f Hf sg Hr.
    simpl in Ht. destruct Ht as [<-|[<-|[<-|[]]]]; simpl in Hb.
    + destruct Hb as [(ifaces & Hb)|[Hb _]]; discriminate Hb.
    + destruct Hb as [(ifaces & Hb)|[Hb ->]]; [discriminate Hb|].
      injection Hb as <-. destruct Hf as [<-|[]]. discriminate Hr.
    + destruct Hb as [(ifaces & Hb)|[Hb _]]; [|discriminate Hb].
      injection Hb as _ <- <-. destruct Hf as [<-|[]]. injection Hr as <-.
      split; repeat constructor; simpl; intuition discriminate.
  - intros t ifaces fields dr Ht Hb g Hg.
    simpl in Ht. destruct Ht as [<-|[<-|[<-|[]]]]; try discriminate Hb.
    injection Hb as _ <- _. destruct Hg as [<-|[]]. simpl. tauto.
Qed.

(* a duplicate field with an input type in output position: only the duplicate
   is reported, and it is allowed to hide the position error *)
Example C13_example_masking :
  let f t := mkField (S "x") t [] None None in
  let sch := mkSchema [ mkType (S "Int") false true BScalar;
                        mkType (S "In") false false (BInput [mkInput (S "a") (TyNamed (S "Int")) None]);
                        mkType (S "Q") false false (BObject [] [f (TyNamed (S "Int")); f (TyNamed (S "In"))] None) ]
                      [] (Some (S "Q")) None None None in
  validate_model sch = [mkErr LDuplicateField [S "Q"; S "x"]]
  /\ validate_all sch = [mkErr LDuplicateField [S "Q"; S "x"]; mkErr LFieldNotOutput [S "Q"; S "x"]].
Proof. vm_compute. split; reflexivity. Qed.

(* The verdict and the error multiset do not depend on the order of the types
   (C13_perm).  The order of the FIELDS of one type does not change the verdict
   either, but it decides which of two same-named fields is the "duplicate":
   the reported list differs (masking follows the declaration order). *)
Example C13_example_field_order :
  let f t := mkField (S "x") t [] None None in
  let sch fs := mkSchema [ mkType (S "Int") false true BScalar;
                           mkType (S "In") false false (BInput [mkInput (S "a") (TyNamed (S "Int")) None]);
                           mkType (S "Q") false false (BObject [] fs None) ]
                         [] (Some (S "Q")) None None None in
  validate_model (sch [f (TyNamed (S "Int")); f (TyNamed (S "In"))]) = [mkErr LDuplicateField [S "Q"; S "x"]]
  /\ validate_model (sch [f (TyNamed (S "In")); f (TyNamed (S "Int"))])
     = [mkErr LFieldNotOutput [S "Q"; S "x"]; mkErr LDuplicateField [S "Q"; S "x"]].
Proof. vm_compute. split; reflexivity. Qed.
