(* C09 -- top-level mutation fields run strictly one after another in document
   order. Statements only; proofs are in Proofs/RuntimeSerialProofs.v (and
   Proofs/RuntimeMachineWf.v for the confluence they build on). The machine is
   Exec/RuntimeMachine.v, the vocabulary Spec/SchedSpec.v. *)
From Coq Require Import List NArith ZArith Bool Arith Permutation.
Import ListNotations.
From PyGql Require Import Exec.RuntimeMachine Spec.SchedSpec
  Proofs.RuntimeMachineProofs Proofs.RuntimeMachineWf Proofs.RuntimeSerialProofs.

(* For a mutation, under every admissible schedule and at every point of it
   (complete or not), the trace of resolver events and field errors is serial:
   every entry belongs to a top-level field and the document positions of those
   fields never decrease along the trace. *)
Theorem C09_serial :
  forall sigma fs s,
    NoDup (keys_of fs) -> run sigma (Prog true fs) = Some s ->
    serial_trace (keys_of fs) (log (ms s)).
Proof. exact mutation_serial. Qed.
Print Assumptions C09_serial.

(* the reading of the property text: nothing that belongs to a later top-level
   field (in particular the Invoke of its resolver) occurs before anything that
   belongs to an earlier one (its resolver's Invoke/Finish, those of its whole
   sub-selection, its errors) *)
Theorem C09_serial_pairwise :
  forall sigma fs s l1 e l2 e' i j,
    NoDup (keys_of fs) -> run sigma (Prog true fs) = Some s ->
    log (ms s) = l1 ++ e :: l2 -> In e' l2 ->
    key_index (keys_of fs) e = Some i -> key_index (keys_of fs) e' = Some j -> i <= j.
Proof.
  intros sigma fs s l1 e l2 e' i j Hnd H.
  apply serial_trace_pairwise. apply (mutation_serial sigma fs s Hnd H).
Qed.
Print Assumptions C09_serial_pairwise.

(* when no resolver raises an unexpected exception, every top-level field is
   invoked in every complete run -- whatever happened to the earlier ones -- and
   a top-level field whose resolver raises a ResolverError is null in the data *)
Theorem C09_continue_after_error :
  forall sigma fs s v es f,
    run sigma (Prog true fs) = Some s -> pending (ms s) = [] ->
    bs_prog (Prog true fs) = (Some v, es) -> In f (flds_list fs) ->
    In (LInvoke ([key_of f], O)) (log (ms s)) /\
    (forall k dfr nn, f = Fld k dfr nn BErr ->
       exists kvs, term s = Val (VObj kvs) /\ In (k, VNull) kvs).
Proof.
  intros sigma fs s v es f H Hp Hb Hin.
  destruct (all_fields_invoked sigma true fs s v es f H Hp Hb Hin) as [A (kvs & w & Ht & _ & Hw & Hk)].
  split; [exact A|]. intros k dfr nn ->. exists kvs. split; [exact Ht|].
  rewrite bs_field_err in Hw. inversion Hw; subst w. exact Hk.
Qed.
Print Assumptions C09_continue_after_error.

(* the response lists the fields in document order (queries and mutations) *)
Theorem C09_key_order :
  forall sigma mut fs s v es,
    run sigma (Prog mut fs) = Some s -> pending (ms s) = [] ->
    bs_prog (Prog mut fs) = (Some v, es) ->
    exists kvs, term s = Val (VObj kvs) /\ map fst kvs = keys_of fs.
Proof.
  intros sigma mut fs s v es H Hp Hb.
  destruct (run_confluent sigma (Prog mut fs) s v es H Hp Hb) as (Ht & _ & _).
  unfold bs_prog in Hb. destruct (bs_fields [] fs) as [r es0] eqn:Ef.
  destruct r as [kvs|]; [|discriminate]. cbn in Hb. inversion Hb; subst v es0.
  exists kvs. split; [exact Ht|]. apply (bs_fields_keys fs []). rewrite Ef. reflexivity.
Qed.
Print Assumptions C09_key_order.

(* non-vacuity: the same machine does interleave the sub-selections of
   different top-level fields when the operation is a query, so C09_serial is
   not a consequence of the machine being sequential *)
Local Open Scope N_scope.
Definition overlap_fields : flds :=
  FCons (Fld 0 (Some (O, O)) false (BObj (FCons (Fld 1 (Some (O, O)) false (BInt 1%Z)) FNil)))
 (FCons (Fld 2 (Some (O, O)) false (BObj (FCons (Fld 3 (Some (O, O)) false (BInt 3%Z)) FNil))) FNil).
Definition overlap_sigma : list tid := [([2], O); ([0], O); ([2; 3], O); ([0; 1], O)].

Theorem C09_query_may_overlap :
  exists s, run overlap_sigma (Prog false overlap_fields) = Some s /\ pending (ms s) = [] /\
            ~ serial_trace (keys_of overlap_fields) (log (ms s)).
Proof.
  destruct (run overlap_sigma (Prog false overlap_fields)) as [s|] eqn:E; [|vm_compute in E; discriminate].
  exists s. split; [reflexivity|]. vm_compute in E. inversion E; subst s. cbn [ms pending log].
  split; [reflexivity|]. intros Hs.
  pose proof (serial_trace_pairwise _ _ Hs
                [LInvoke ([0], O); LInvoke ([2], O)] (LFinish ([2], O))
                [LInvoke ([2; 3], O); LFinish ([0], O); LInvoke ([0; 1], O); LFinish ([2; 3], O); LFinish ([0; 1], O)]
                (LFinish ([0], O)) 1%nat 0%nat eq_refl) as H.
  assert (Hc : (1 <= 0)%nat).
  { apply H; [right; left; reflexivity|reflexivity|reflexivity]. }
  inversion Hc.
Qed.
Print Assumptions C09_query_may_overlap.

(* the same fields as a mutation admit one schedule only *)
Example C09_example_mutation :
  match run [([0], O); ([0; 1], O); ([2], O); ([2; 3], O)] (Prog true overlap_fields) with
  | Some s => pending (ms s) = [] /\ serialb (keys_of overlap_fields) (log (ms s)) = true /\
              term s = Val (VObj [(0, VObj [(1, VInt 1)]); (2, VObj [(3, VInt 3)])])
  | None => False
  end /\ run [([2], O)] (Prog true overlap_fields) = None.
Proof. vm_compute. repeat split. Qed.
