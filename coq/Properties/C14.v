(* C14 -- extending, cloning and transforming schemas keeps them closed and
   intact. Statements only; proofs are in Proofs/Store*.v; the model is
   Schema/StoreModel.v, the vocabulary Spec/StoreSpec.v. *)
From PyGql Require Import Spec.StoreSpec Proofs.StoreProofs Proofs.StoreHeal Proofs.StoreLoop
     Proofs.StoreFrame Proofs.StoreClone Proofs.StoreOps Proofs.StoreTerm Proofs.StoreObserve
     Spec.StoreExtSpec Proofs.StoreExtendP Proofs.StoreExtPres Proofs.StoreVis Proofs.StoreVisM Proofs.StoreCloneP Proofs.StoreDesc Proofs.StoreXform Proofs.StoreCamelC Proofs.StoreGen Proofs.StoreVisC Proofs.StoreSim Proofs.StoreCloneO Proofs.StoreReloc Proofs.StoreBuildO Proofs.StoreBuildS.
Local Open Scope N_scope.

(* Schema(query, mutation, subscription, directives, types): whenever the
   constructor accepts its arguments, every reference reachable from the
   registry -- field, argument and input field types, interfaces, union
   members, directive arguments, the roots, implementations, possible types --
   is the object registered under its name; for every heap and fuel. *)
Theorem C14_build_closed : forall fuel m q mu su dirs types s,
  builtins_ok m ->
  build fuel m q mu su dirs types = Ok s ->
  closed m s /\ names_ok m (s_types s).
Proof. exact build_closed. Qed.
Print Assumptions C14_build_closed.

(* fix_type_references (after fix C14-04): whenever its loop "until no type
   needs to be updated" returns, the schema is closed -- whatever stale
   references the heap held before. *)
Theorem C14_heal_closed : forall fuel m s m' s',
  fresh_ok m -> wf_reg m (s_types s) -> NoDup (map fst (s_dirs s)) ->
  fix_type_references fuel m s = Ok (m', s') -> closed m' s'.
Proof. exact fix_type_references_closed. Qed.
Print Assumptions C14_heal_closed.

(* _replace_types_and_directives (busted_cache accumulating, fix C14-02):
   whenever at least one entry really replaces or removes a registered type,
   the resulting schema is closed. *)
Theorem C14_replace_closed : forall fuel m s tu du m' s' tm',
  fresh_ok m -> wf_reg m (s_types s) -> NoDup (map fst (s_dirs s)) ->
  (forall n y, In (n, Some y) tu -> tname m y = Some n) ->
  replace_types m tu (s_types s) false = Ok (tm', true) ->
  replace_and_heal fuel m s tu du = Ok (m', s') -> closed m' s'.
Proof. exact replace_busted_closed. Qed.
Print Assumptions C14_replace_closed.

(* Schema.clone (after fixes C14-01, C14-03): no type, field, argument, input
   field, enum value or directive object that the clone can reach existed in
   the heap before the call -- nothing is shared with the source. *)
Theorem C14_clone_disjoint : forall fuel m s m' s',
  fresh_ok m -> builtins_ok m -> closed m s -> wf_schema m s -> wf_builtins s ->
  clone fuel m s = Ok (m', s') ->
  forall o, In o (schema_objects m' s') -> mget m o = None.
Proof.
  intros fuel m s m' s' Hf Hb Hcl Hwf Hbi Hc o Hin.
  destruct (clone_owned _ _ _ _ _ Hf Hb Hcl Hwf Hbi Hc) as (F & Hown).
  apply Hf. apply (own_objects_above (m_next m) m' s'); auto; [|exact (fr_deep _ _ _ F)].
  intros n b Hnb.
  assert (Hlt : b < m_next m).
  { destruct (N.lt_ge_cases b (m_next m)) as [Hlt|Hle]; [assumption|].
    pose proof (Hb n b Hnb) as Hg. rewrite (Hf b Hle) in Hg. discriminate. }
  rewrite (fr_frame _ _ _ F b Hlt). apply Hb. exact Hnb.
Qed.
Print Assumptions C14_clone_disjoint.

(* Clone-based transforms leave the source unmodified: after clone followed
   by any sequence of visibility transforms (any predicates), camel-casing
   (any renaming), schema-directive applications (any directive
   implementations that return the element, None, or an element they built
   from it) and healing passes on the clone, every object that was in the heap
   before -- hence every object of the source schema and of every other
   schema -- is exactly what it was. *)
Theorem C14_source_untouched : forall fuel m s ops m1 c m' c',
  fresh_ok m -> builtins_ok m -> closed m s -> wf_schema m s -> wf_builtins s ->
  Forall (vop_ok (m_next m)) ops ->
  clone fuel m s = Ok (m1, c) -> run_vops fuel ops m1 c = Ok (m', c') ->
  (forall o, o < m_next m -> mget m' o = mget m o) /\
  own_schema (m_next m) c' /\ deep (m_next m) m'.
Proof. exact clone_then_ops_frame. Qed.
Print Assumptions C14_source_untouched.

(* ... hence the observable dump of the source (and of any schema s0 whose
   cells all exist, i.e. without dangling references) is the same before and
   after: [observe] only reads the cells of its footprint. *)
Theorem C14_source_untouched_observe : forall fuel m s ops m1 c m' c' s0,
  fresh_ok m -> builtins_ok m -> closed m s -> wf_schema m s -> wf_builtins s ->
  Forall (vop_ok (m_next m)) ops ->
  clone fuel m s = Ok (m1, c) -> run_vops fuel ops m1 c = Ok (m', c') ->
  Forall (fun o => mget m o <> None) (footprint m (touch_poss m s0)) ->
  observe m' (touch_poss m' s0) = observe m (touch_poss m s0).
Proof.
  intros fuel m s ops m1 c m' c' s0 Hf Hb Hcl Hwf Hbi Hok Hc Hops Hex.
  destruct (clone_then_ops_frame _ _ _ _ _ _ _ _ Hf Hb Hcl Hwf Hbi Hok Hc Hops) as (Hfr & _).
  eapply frame_observe; eauto.
Qed.
Print Assumptions C14_source_untouched_observe.

(* extend_schema (strict mode, without its final validate()): being the result
   of Schema(...) over the rebuilt types, the extended schema is closed. *)
Theorem C14_extend_closed : forall fuel m s doc m' s',
  fresh_ok m -> builtins_ok m -> extend fuel m s doc = Ok (m', s') ->
  closed m' s' /\ names_ok m' (s_types s').
Proof. exact extend_closed. Qed.
Print Assumptions C14_extend_closed.

(* extend_schema builds the extended schema next to the source: every object
   that was in the heap before is unchanged, and so is the observable dump of
   every schema without dangling references -- for every extension document. *)
Theorem C14_extend_source_untouched : forall fuel m s doc m' s',
  extend fuel m s doc = Ok (m', s') ->
  (forall o, o < m_next m -> mget m' o = mget m o) /\
  forall s0, fresh_ok m -> Forall (fun o => mget m o <> None) (footprint m (touch_poss m s0)) ->
             observe m' (touch_poss m' s0) = observe m (touch_poss m s0).
Proof.
  intros fuel m s doc m' s' H. pose proof (extend_frame _ _ _ _ _ _ H) as Hfr. split; [exact Hfr|].
  intros s0 Hf Hex. eapply frame_observe; eauto.
Qed.
Print Assumptions C14_extend_source_untouched.

(* Everything the extension document does not mention is preserved: every
   non-specified type of the source is registered again under its name, with
   its kind, description, default / type resolver and directives (followed by
   those of its extensions), and its fields / input fields -- as copies that
   keep name, python name, description, deprecation reason, default, resolver,
   subscription resolver, directives, and argument by argument the same for
   their arguments -- or its enum values (the same objects), in order, before
   anything the document adds; a type without extension gets nothing added. *)
Theorem C14_extend_preserved : forall fuel m s doc m' s',
  fresh_ok m -> builtins_ok m -> wf_schema m s ->
  extend fuel m s doc = Ok (m', s') ->
  forall n t, In (n, t) (s_types s) -> is_builtin t = false ->
    exists self, alookup n (s_types s') = Some self /\ type_preserved doc m' n t self.
Proof. exact extend_preserved. Qed.
Print Assumptions C14_extend_preserved.

(* The same for operations applied in place to any schema that owns its
   objects above a watermark (e.g. an earlier clone): nothing below the
   watermark changes. *)
Theorem C14_in_place_frame : forall n0 fuel ops m s m' s',
  Forall (vop_ok n0) ops -> st_ok n0 m -> own_schema n0 s -> run_vops fuel ops m s = Ok (m', s') ->
  fr n0 m m' /\ own_schema n0 s'.
Proof. exact run_vops_fr. Qed.
Print Assumptions C14_in_place_frame.

(* Removed elements: a type for which a visitor returned None is not in the
   registry of the result, whatever the healing loop rebuilds afterwards. With
   C14_replace_closed nothing reachable refers to an unregistered type. *)
Theorem C14_visibility_partial : forall fuel m s tu du m' s' n,
  NoDup (map fst (s_types s)) -> NoDup (map fst tu) -> In (n, None) tu ->
  replace_and_heal fuel m s tu du = Ok (m', s') -> ~ In n (map fst (s_types s')).
Proof. exact removed_stays_removed. Qed.
Print Assumptions C14_visibility_partial.

(* VisibilitySchemaTransform, for every predicate record: after the transform
   and all the healing it triggers, every registered type was registered
   before and is a specified scalar or accepted by is_type_visible -- the
   rejected types are gone. Together with closedness (C14_replace_closed:
   every type reachable through fields, arguments, input fields, interfaces,
   union members, roots, implementations and possible types is a registered
   one) rejected types are unreachable. *)
Theorem C14_visibility_types : forall fuel p m s m' s',
  fresh_ok m -> builtins_ok m -> NoDup (map fst (s_types s)) ->
  (forall n o, In (n, o) (s_types s) -> tname m o = Some n) ->
  on_schema fuel (vis_visitor p) m s = Ok (m', s') ->
  forall n, In n (map fst (s_types s')) ->
    exists o, In (n, o) (s_types s) /\ (is_builtin o = true \/ vp_type p n = true).
Proof. exact vis_types_removed. Qed.
Print Assumptions C14_visibility_types.

(* ... and the rejected members are gone too: after the transform and all the
   healing it triggers, every registered (non-specified) type of kind object /
   interface holds only fields accepted by is_field_visible (under the name the
   type is registered as) whose arguments are all accepted by the argument
   predicate; every input object only input fields accepted by
   is_input_field_visible; every enum only accepted values; every directive
   only accepted arguments ([regood] / [dsgood] of Proofs/StoreVisM.v:
   [tgood m n o] = all members x of o satisfy [nameok (qmem k n) m x], fields
   moreover [Forall (nameok vp_arg m) (args_of m x)]). With C14_visibility_types
   and closedness, removed elements are unreachable from the registry, hence
   from queries and introspection. *)
Theorem C14_visibility_members : forall fuel p m s m' s',
  fresh_ok m -> builtins_ok m -> NoDup (map fst (s_types s)) ->
  (forall n o, In (n, o) (s_types s) -> tname m o = Some n) ->
  NoDup (map fst (s_dirs s)) ->
  on_schema fuel (vis_visitor p) m s = Ok (m', s') ->
  regood p m' (s_types s') /\ dsgood p m' (s_dirs s').
Proof. intros fuel p. exact (vis_members_removed p fuel). Qed.
Print Assumptions C14_visibility_members.

(* Preservation: healing keeps, for every object of the heap, its name, kind,
   python name, description, deprecation reason, default, resolver,
   subscription resolver, default / type resolver, applied directives and its
   member and argument lists; only type references change. *)
Theorem C14_preserved_partial : forall fuel m s m' s',
  fresh_ok m -> wf_reg m (s_types s) -> NoDup (map fst (s_dirs s)) ->
  fix_type_references fuel m s = Ok (m', s') -> keeps_attrs m m'.
Proof. exact fix_type_references_keeps. Qed.
Print Assumptions C14_preserved_partial.

(* Schema.clone preserves everything: every non-specified type of the source
   is registered in the clone under its name as a new object with the same
   name, kind, description, default / type resolver and directives, whose
   members correspond one for one, in order, to the source's members -- each a
   copy with the same name, python name, description, deprecation reason,
   default, resolver, subscription resolver and directives (enum values: the
   same value), and argument by argument the same for the arguments of fields.
   [type_linked]: the type reference of every member / argument of the clone
   has the list / non-null wrappers of its source's and refers to the type
   registered in the clone under the name of the type the source refers to
   (or is the very same reference: the specified scalars are shared).
   [IK]: the interface list of an object type / the member list of a union of
   the clone is the source's ONE FOR ONE and in order, each entry replaced by
   the type of the same name, every entry registered in the clone (healing a
   clone of a closed schema drops no interface); for the other kinds the list
   is untouched.
   [dir_cloned]: every directive of the source is registered in the clone
   under its name as a new object with the same name, description and
   locations, whose arguments are copies of the source's one for one (same
   attributes, linked type references).
   Structure (for a schema with at least one non-specified type): the clone is
   closed; its registry has the keys, in the order, of the registry
   Schema(...) builds from the source's types; its directive registry the
   source's keys in order; its roots are the types registered under the names
   of the source's roots; its implementations index is the one computed from
   its own registry and its possible-types cache starts empty. *)
Theorem C14_clone_preserved : forall fuel m s m' s',
  fresh_ok m -> builtins_ok m -> closed m s -> wf_schema m s -> wf_builtins s ->
  clone fuel m s = Ok (m', s') ->
  (fresh_ok m' /\ wf_reg m' (s_types s') /\
   forall n o, In (n, o) (s_types s') -> is_builtin o = false -> exists t, In (n, t) (s_types s) /\ is_builtin t = false) /\
  (forall n t, In (n, t) (s_types s) -> is_builtin t = false ->
    exists t', alookup n (s_types s') = Some t' /\ type_cloned m' n t t' /\ type_linked (s_types s') m' t t' /\
      forall k d ms ifs r ds, mget m t = Some (OType n k d ms ifs r ds) -> IK (s_types s') m' t' ifs) /\
  (forall n d, In (n, d) (s_dirs s) ->
    exists d', alookup n (s_dirs s') = Some d' /\ dir_cloned (s_types s') m' d d') /\
  ((exists n o, In (n, o) (s_types s) /\ is_builtin o = false) ->
   closed m' s' /\
   (forall s0, build fuel m (s_query s) (s_mut s) (s_sub s) (map snd (s_dirs s)) (map snd (s_types s)) = Ok s0 ->
      map fst (s_types s') = map fst (s_types s0)) /\
   map fst (s_dirs s') = map fst (s_dirs s) /\
   s_query s' = reroot m (s_types s') (s_query s) /\ s_mut s' = reroot m (s_types s') (s_mut s) /\
   s_sub s' = reroot m (s_types s') (s_sub s) /\
   s_impls s' = fold_left (impls_of_type m') (s_types s') [] /\ s_poss s' = []).
Proof. exact clone_preserved_core. Qed.
Print Assumptions C14_clone_preserved.

(* transform_schema(schema, VisibilitySchemaTransform), for every predicate
   record: every non-specified type registered in the result descends from the
   source's type of that name ([redesc]/[tdesc] of Proofs/StoreDesc.v): same
   name, kind, description, default / type resolver, directives, and its member
   list is obtained from the source's by dropping members and replacing each
   of the others by an element with the same name, python name, description,
   deprecation reason, default, resolver, subscription resolver and directives
   -- in the same relative order; likewise, member by member, for the
   arguments of fields. Nothing is invented, altered or reordered. *)
Theorem C14_vis_preserved : forall fuel p m s m' s',
  fresh_ok m -> builtins_ok m -> closed m s -> wf_schema m s -> wf_builtins s ->
  transform fuel (vis_visitor p) m s = Ok (m', s') ->
  redesc (mget m) (fun n => n) (s_types s) m' (s_types s').
Proof. exact transform_vis_desc. Qed.
Print Assumptions C14_vis_preserved.

(* transform_schema(schema, CamelCaseSchemaTransform), for every renaming
   function [c]: the same, with every field, argument and input field carrying
   the name [c old_name] and python_name = the old python_name, every other
   attribute equal, enum values unchanged ([src_sorted]: in the source, input
   objects hold input fields, enums enum values). Two members whose names
   collide after renaming both reappear (under the same name): the result is
   then refused by transform_schema's final validate() ('Duplicate field'),
   checked against the implementation. *)
Theorem C14_camel_preserved : forall fuel c m s m' s',
  fresh_ok m -> builtins_ok m -> closed m s -> wf_schema m s -> wf_builtins s ->
  (forall n t, In (n, t) (s_types s) -> is_builtin t = false -> src_sorted (mget m) t) ->
  transform fuel (camel_visitor c) m s = Ok (m', s') ->
  redesc (mget m) c (s_types s) m' (s_types s').
Proof. exact transform_camel_desc. Qed.
Print Assumptions C14_camel_preserved.

(* Completeness of camel-casing: nothing is lost. Every non-specified type of
   the source is registered in the result under its name, and ([tfull] of
   Proofs/StoreCamelC.v) the registered object has the source's name, kind,
   description, resolver and directives and its members are the source's
   members ONE FOR ONE and in order, each with the renamed name and the other
   attributes of its source, and each field with the source field's arguments
   one for one and in order. (The healing pass that follows the renaming
   drops nothing because renamed copies keep their type reference, and the
   order-preserving descent of C14_camel_preserved between lists of equal
   length is one-for-one.) *)
Theorem C14_camel_complete : forall fuel c m s m' s',
  fresh_ok m -> builtins_ok m -> closed m s -> wf_schema m s -> wf_builtins s ->
  (forall n t, In (n, t) (s_types s) -> is_builtin t = false -> src_sorted (mget m) t) ->
  transform fuel (camel_visitor c) m s = Ok (m', s') ->
  forall n t, In (n, t) (s_types s) -> is_builtin t = false ->
    exists o, alookup n (s_types s') = Some o /\ is_builtin o = false /\ tfull (mget m) c m' n o t.
Proof. exact transform_camel_complete. Qed.
Print Assumptions C14_camel_complete.

(* Completeness of the visibility transform: exactly the members rejected by
   a predicate, or whose type was removed, are missing. Every non-specified
   type registered in the result descends from the source's type t of that
   name ([ctd] of Proofs/StoreVisC.v) so that every member s of t either
   - was rejected: is_field_visible / is_input_field_visible (type name, member
     name) resp. the enum-value predicate returned False for its name, or
   - refers to a type that is_type_visible hides ([thidden], input fields) or
     that is not registered in the result ([tgone]), or
   - has a descendant y among the members of the result (same attributes,
     C14_vis_preserved), and then every argument of s either was rejected by
     the argument predicate, or refers to a type not registered in the result,
     or has a descendant among the arguments of y.
   (Soundness -- nothing rejected or dangling is kept -- is
   C14_visibility_members / C14_heal_closed.) *)
Theorem C14_visibility_complete : forall fuel p m s m' s',
  fresh_ok m -> builtins_ok m -> closed m s -> wf_schema m s -> wf_builtins s ->
  transform fuel (vis_visitor p) m s = Ok (m', s') ->
  forall n o, In (n, o) (s_types s') -> is_builtin o = false ->
    exists t, In (n, t) (s_types s) /\
      ctd (mget m) p (fun nm => In nm (map fst (s_types s'))) m' n o t.
Proof. exact transform_vis_complete. Qed.
Print Assumptions C14_visibility_complete.

(* The observable dump of a clone is the observable dump of its source:
   [observe (clone s) = observe s] -- roots, every type with its members,
   arguments, type references (wrappers, name, "is the registered object"),
   interfaces, resolvers and applied schema directives, the directives, the
   implementations index and the possible types of every abstract type.
   Hypotheses ([clone_ok], Proofs/StoreCloneO.v): the source is closed and
   well-formed, has a non-specified type, its registry is in the order
   Schema(...) produces from its own types (so that clone and source list
   their types in the same order; true of every schema the library built --
   assumed here, compared by the harness on every run), its derived indexes
   are up to date, only objects / unions carry interface / member lists, it is
   well sorted and has no dangling reference.  Proof: the element-wise
   correspondence of C14_clone_preserved and the closedness of both schemas
   align the two registries entry by entry in the heap after the clone
   (Proofs/StoreSim.v: observe_sim), and the frame property says that the
   source's own dump is what it was before (C14_source_untouched_observe). *)
Theorem C14_clone_observe_equal : forall fuel m s m' s',
  clone_ok fuel m s -> clone fuel m s = Ok (m', s') ->
  observe m' (touch_poss m' s') = observe m (touch_poss m s).
Proof. exact clone_observe_equal_ok. Qed.
Print Assumptions C14_clone_observe_equal.

(* The registry-order premise of [clone_ok] holds of every schema the
   constructor built: rebuilding Schema(...) from the types of a registry that
   _build_type_map produced lists them in the same order (the pre-order
   traversal is idempotent: Proofs/StoreBuildO.v, StoreBuildS.v).  So for a
   built schema C14_clone_observe_equal has no assumed premise left, only
   well-formedness ones. *)
Theorem C14_build_order_stable : forall f1 f2 m q mu su ds ts s s0,
  builtins_ok m ->
  build f1 m q mu su ds ts = Ok s ->
  build f2 m (s_query s) (s_mut s) (s_sub s) (map snd (s_dirs s)) (map snd (s_types s)) = Ok s0 ->
  s_types s0 = s_types s.
Proof. exact build_order_stable. Qed.
Print Assumptions C14_build_order_stable.

(* Repeatability at full strength: the observable result of an operation on a
   source does not depend on the heap it is run in -- in particular not on the
   operations applied to the same source, or to anything else, before.  For
   every two heaps m (before) and m' (later): if m' kept every cell below m's
   allocation pointer (what C14_source_untouched / C14_in_place_frame /
   C14_extend_source_untouched establish for every clone-based or owned
   in-place operation), both are heaps (nothing at or above the allocation
   pointer; [heap_below]: no cell of m mentions an oid that is not allocated
   yet) and the source's record only mentions objects of m, then
   transform_schema(source, t) run in m' gives the same [observe] dump as run
   in m -- for every visitor that commutes with relocation of fresh objects
   ([relocatable]: it does not inspect object identities beyond equality),
   which VisibilitySchemaTransform under any predicates and
   CamelCaseSchemaTransform under any renaming are.  No closedness or
   well-formedness of the source is needed.  Proof (Proofs/StoreReloc.v): every
   function of the model -- Schema(...), clone, the visitor combinators, the
   healing visitor, _replace_types_and_directives, the loop, the cache
   rebuild, observe itself -- commutes with the relocation "identity below
   the old allocation pointer, shift above" ([msim]); the later heap holds the
   image of the earlier one ([later_msim]). *)
Theorem C14_repeatable : forall fuel v m m' s ma ra mb rb,
  fresh_ok m -> fresh_ok m' -> heap_below m -> 5 < m_next m -> m_next m <= m_next m' ->
  (forall o, o < m_next m -> mget m' o = mget m o) -> schema_below (m_next m) s ->
  relocatable v ->
  transform fuel v m s = Ok (ma, ra) -> transform fuel v m' s = Ok (mb, rb) ->
  observe mb (touch_poss mb rb) = observe ma (touch_poss ma ra).
Proof. exact transform_relocatable. Qed.
Print Assumptions C14_repeatable.

Theorem C14_repeatable_vis : forall p, relocatable (vis_visitor p).
Proof. exact vis_relocatable. Qed.
Print Assumptions C14_repeatable_vis.
Theorem C14_repeatable_camel : forall c, relocatable (camel_visitor c).
Proof. exact camel_relocatable. Qed.
Print Assumptions C14_repeatable_camel.

(* the same for Schema.clone: a clone taken later has the dump of a clone
   taken before (no [clone_ok] needed) *)
Theorem C14_clone_repeatable : forall fuel m m' s ma ra mb rb,
  fresh_ok m -> fresh_ok m' -> heap_below m -> 5 < m_next m -> m_next m <= m_next m' ->
  (forall o, o < m_next m -> mget m' o = mget m o) -> schema_below (m_next m) s ->
  clone fuel m s = Ok (ma, ra) -> clone fuel m' s = Ok (mb, rb) ->
  observe mb (touch_poss mb rb) = observe ma (touch_poss ma ra).
Proof. exact clone_relocatable. Qed.
Print Assumptions C14_clone_repeatable.

(* The healing loop "recursive calls until no type needs to be updated"
   terminates: any fuel above the measure [mu] -- the number of fields, input
   fields and field arguments held by the registered types -- suffices. (The
   number of stale references is not a measure: it grows again whenever a
   rebuilt type is registered.) [grounded]: the registered types and their
   members exist in the heap. *)
Theorem C14_heal_terminates : forall fuel m s,
  fresh_ok m -> wf_reg m (s_types s) -> grounded m (s_types s) ->
  (mu m (s_types s) < fuel)%nat -> fix_type_references fuel m s <> OutOfFuel.
Proof. exact fix_type_references_terminates. Qed.
Print Assumptions C14_heal_terminates.

(* ------------------------------------------------------------ non-vacuity *)
Local Open Scope string_scope.
Definition ex_heap : heap :=
  ([(10, OType (str_of_string "Query") Kobject None [11; 12] [] None []);
   (11, OField (str_of_string "a_b") (str_of_string "a_b") (RNamed 1) [13] None None (Some 7) None []);
   (12, OField (str_of_string "e") (str_of_string "e") (RList (RNamed 14)) [] None None None None []);
   (13, OInput true (str_of_string "x") (str_of_string "x") (RNamed 14) (Some (PInt 1%Z)) None []);
   (14, OType (str_of_string "E") Kenum None [15] [] None []);
   (15, OEnumV (str_of_string "A") (PStr (str_of_string "A")) None None [])]%N
  ++ builtin_heap)%list.
Definition ex_mem : mem := MkMem ex_heap 16.

Lemma ex_fresh : fresh_ok ex_mem.
Proof.
  intros o Ho. unfold mget, ex_mem, ex_heap. simpl in *.
  repeat (match goal with |- context [N.eqb o ?k] => destruct (N.eqb_spec o k); [lia|] end). reflexivity.
Qed.
Lemma ex_builtins : builtins_ok ex_mem.
Proof.
  intros n o Hin. simpl in Hin.
  repeat (destruct Hin as [Heq|Hin]; [inversion Heq; subst; reflexivity|]). destruct Hin.
Qed.

(* the example schema is accepted by the constructor; clone followed by a
   visibility transform hiding E and camel-casing runs to completion *)
Example C14_example :
  exists s m1 c m2 c2,
    build 50 ex_mem (Some 10) None None [] [] = Ok s /\
    clone 50 ex_mem s = Ok (m1, c) /\
    run_vops 50 [VVis (MkVis (fun n => negb (str_eqb n (str_of_string "E"))) (fun _ => true)
                             (fun _ _ => true) (fun _ _ => true) (fun _ => true) (fun _ => true));
                 VCamel (fun n => (n ++ [65%N])%list)] m1 c = Ok (m2, c2) /\
    map fst (s_types c2) = (map fst builtin_types ++ [str_of_string "Query"])%list /\
    closed ex_mem s.
Proof.
  destruct (build 50 ex_mem (Some 10) None None [] []) as [s| | |] eqn:Hb; try (vm_compute in Hb; discriminate).
  destruct (clone 50 ex_mem s) as [[m1 c]| | |] eqn:Hc;
    try (vm_compute in Hb; inversion Hb; subst; vm_compute in Hc; discriminate).
  exists s, m1, c.
  pose proof (proj1 (C14_build_closed _ _ _ _ _ _ _ _ ex_builtins Hb)) as Hcl.
  vm_compute in Hb. inversion Hb; subst s. vm_compute in Hc. inversion Hc; subst m1 c.
  eexists. eexists. split; [reflexivity|]. split; [reflexivity|]. split; [vm_compute; reflexivity|].
  split; [vm_compute; reflexivity|exact Hcl].
Qed.

(* the hypotheses of C14_clone_disjoint / C14_source_untouched are satisfiable *)
Example C14_example_wf :
  exists s, build 50 ex_mem (Some 10) None None [] [] = Ok s /\
            fresh_ok ex_mem /\ builtins_ok ex_mem /\ closed ex_mem s /\ wf_schema ex_mem s /\ wf_builtins s.
Proof.
  destruct (build 50 ex_mem (Some 10) None None [] []) as [s| | |] eqn:Hb; try (vm_compute in Hb; discriminate).
  exists s. split; [reflexivity|]. split; [exact ex_fresh|]. split; [exact ex_builtins|].
  split; [exact (proj1 (C14_build_closed _ _ _ _ _ _ _ _ ex_builtins Hb))|].
  vm_compute in Hb. inversion Hb; subst s; clear Hb. split.
  - constructor; simpl.
    + repeat constructor; simpl; intuition congruence.
    + intros n o Hin. repeat (destruct Hin as [Heq|Hin]; [inversion Heq; subst; reflexivity|]). destruct Hin.
    + constructor.
    + intros n d [].
    + intros n o Hin Hnb.
      repeat (destruct Hin as [Heq|Hin]; [inversion Heq; subst; try discriminate Hnb|]); try destruct Hin;
        unfold type_typed, field_typed, leaf, mget; simpl; repeat constructor.
    + intros n d [].
  - intros e He. simpl. simpl in He. intuition.
Qed.

(* the hypotheses of C14_clone_observe_equal are satisfiable *)
Example C14_example_clone_ok :
  exists s, build 50 ex_mem (Some 10) None None [] [] = Ok s /\ clone_ok 50 ex_mem s.
Proof.
  destruct C14_example_wf as (s & Hb & Hf & Hbo & Hcl & Hwf & Hbi).
  exists s. split; [exact Hb|]. split; [exact Hf|]. split; [exact Hbo|]. split; [exact Hcl|]. split; [exact Hwf|].
  split; [exact Hbi|]. clear Hcl Hwf Hbi.
  vm_compute in Hb. inversion Hb; subst s; clear Hb.
  split; [exists (str_of_string "Query"), 10%N; split; [simpl; auto 10|reflexivity]|].
  split; [intros s0 H0; vm_compute in H0; inversion H0; reflexivity|].
  split; [vm_compute; reflexivity|].
  split; [intros o l H0; simpl in H0; discriminate|].
  split.
  { intros n t k d ms ifs r ds Hin Hnb Hg Hk1 Hk2. simpl in Hin.
    repeat (destruct Hin as [Heq|Hin]; [inversion Heq; subst; try discriminate Hnb; vm_compute in Hg; inversion Hg; subst; try reflexivity; congruence|]).
    destruct Hin. }
  split.
  { intros n t k d ms ifs r ds x Hin Hnb Hg Hx. simpl in Hin.
    repeat (destruct Hin as [Heq|Hin]; [inversion Heq; subst; try discriminate Hnb; vm_compute in Hg; inversion Hg; subst;
      simpl in Hx; repeat (destruct Hx as [<-|Hx]; [try (intros a Ha; vm_compute in Ha; repeat (destruct Ha as [<-|Ha]; [vm_compute; eauto 10|]); destruct Ha);
                                                    try (vm_compute; eauto 10)|]); destruct Hx|]).
    destruct Hin. }
  split; [intros n d a []|].
  apply Forall_forall. intros o Ho. vm_compute in Ho.
  repeat (destruct Ho as [<-|Ho]; [vm_compute; discriminate|]). destruct Ho.
Qed.

(* the hypotheses of C14_repeatable are satisfiable: the example heap, and as
   the later heap the example heap with one more object allocated (every
   fresh object of the second run is relocated by one) *)
Lemma ex_below : heap_below ex_mem.
Proof.
  intros o v Hg. unfold mget, ex_mem, ex_heap in Hg. simpl in Hg.
  repeat (match type of Hg with context [N.eqb o ?k] =>
            destruct (N.eqb_spec o k); [inversion Hg; subst; simpl; repeat constructor; lia|] end).
  discriminate.
Qed.

Definition ex_later : mem := fst (alloc ex_mem (OEnumV (str_of_string "Z") (PStr (str_of_string "Z")) None None [])).

Example C14_example_repeatable :
  exists s ma ra mb rb,
    build 50 ex_mem (Some 10) None None [] [] = Ok s /\
    fresh_ok ex_mem /\ fresh_ok ex_later /\ heap_below ex_mem /\ 5 < m_next ex_mem /\
    m_next ex_later = m_next ex_mem + 1 /\
    (forall o, o < m_next ex_mem -> mget ex_later o = mget ex_mem o) /\ schema_below (m_next ex_mem) s /\
    transform 50 (camel_visitor (fun n => (n ++ [65%N])%list)) ex_mem s = Ok (ma, ra) /\
    transform 50 (camel_visitor (fun n => (n ++ [65%N])%list)) ex_later s = Ok (mb, rb) /\
    observe mb (touch_poss mb rb) = observe ma (touch_poss ma ra).
Proof.
  set (s := MkSchema (builtin_types ++ [(str_of_string "Query", 10); (str_of_string "E", 14)])%list [] (Some 10) None None [] []).
  assert (Hb : build 50 ex_mem (Some 10) None None [] [] = Ok s) by (vm_compute; reflexivity).
  assert (Ha : exists ma ra, transform 50 (camel_visitor (fun n => (n ++ [65%N])%list)) ex_mem s = Ok (ma, ra))
    by (vm_compute; eexists; eexists; reflexivity).
  assert (Hbb : exists mb rb, transform 50 (camel_visitor (fun n => (n ++ [65%N])%list)) ex_later s = Ok (mb, rb))
    by (vm_compute; eexists; eexists; reflexivity).
  destruct Ha as (ma & ra & Ha). destruct Hbb as (mb & rb & Hbb).
  exists s, ma, ra, mb, rb.
  assert (Hf' : fresh_ok ex_later) by (apply fresh_alloc; exact ex_fresh).
  assert (Hfr : forall o, o < m_next ex_mem -> mget ex_later o = mget ex_mem o).
  { intros o Ho. unfold ex_later. rewrite mget_alloc. destruct (N.eqb_spec o (m_next ex_mem)); [lia|reflexivity]. }
  assert (Hs : schema_below (m_next ex_mem) s).
  { unfold schema_below, s. simpl. repeat constructor; simpl; lia. }
  split; [exact Hb|]. split; [exact ex_fresh|]. split; [exact Hf'|]. split; [exact ex_below|].
  split; [simpl; lia|]. split; [reflexivity|]. split; [exact Hfr|]. split; [exact Hs|].
  split; [exact Ha|]. split; [exact Hbb|].
  eapply C14_repeatable; [exact ex_fresh|exact Hf'|exact ex_below|simpl; lia|simpl; lia|exact Hfr|exact Hs|apply C14_repeatable_camel|exact Ha|exact Hbb].
Qed.

(* the hypotheses of C14_heal_terminates are satisfiable *)
Example C14_example_terminates :
  exists s, build 50 ex_mem (Some 10) None None [] [] = Ok s /\
            wf_reg ex_mem (s_types s) /\ grounded ex_mem (s_types s) /\
            mu ex_mem (s_types s) = 3%nat /\ fix_type_references 4 ex_mem s <> OutOfFuel.
Proof.
  destruct C14_example_wf as (s & Hb & Hf & _ & _ & Hwf & _).
  exists s. split; [exact Hb|].
  assert (Hreg : wf_reg ex_mem (s_types s)) by (split; [exact (wf_keys _ _ Hwf)|exact (wf_names _ _ Hwf)]).
  split; [exact Hreg|].
  vm_compute in Hb. inversion Hb; subst s; clear Hb.
  assert (Hg : grounded ex_mem
                 (s_types (MkSchema (builtin_types ++ [(str_of_string "Query", 10%N); (str_of_string "E", 14%N)])%list
                                    [] (Some 10%N) None None [] []))).
  { intros n o Hin. simpl in Hin.
    repeat (destruct Hin as [Heq|Hin]; [inversion Heq; subst; unfold grounded_t, mget; simpl;
                                         repeat constructor; unfold exists_in, mget; simpl; discriminate|]).
    destruct Hin. }
  split; [exact Hg|]. split; [vm_compute; reflexivity|].
  apply C14_heal_terminates; auto.
Qed.

(* extending the example schema: a new field, a new enum value, a new type *)
Example C14_example_extend :
  exists s m' s',
    build 50 ex_mem (Some 10) None None [] [] = Ok s /\
    extend 50 ex_mem s
      (MkExt false
         [NTypeDef (str_of_string "New") Kobject None
            (NBFields [NField (str_of_string "id") (NNamed (str_of_string "ID")) [] None None []] []) []]
         [NTypeExt (str_of_string "Query") Kobject
            (NBFields [NField (str_of_string "n") (NNamed (str_of_string "New")) [] None None []] []) [];
          NTypeExt (str_of_string "E") Kenum (NBValues [NValue (str_of_string "B") None None []]) []]
         [] []) = Ok (m', s') /\
    map fst (s_types s') = (map fst builtin_types ++ [str_of_string "Query"; str_of_string "E"; str_of_string "New"])%list.
Proof.
  destruct (build 50 ex_mem (Some 10) None None [] []) as [s| | |] eqn:Hb; try (vm_compute in Hb; discriminate).
  exists s. vm_compute in Hb. inversion Hb; subst s.
  eexists. eexists. split; [reflexivity|]. split; [vm_compute; reflexivity|vm_compute; reflexivity].
Qed.
