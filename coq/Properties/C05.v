(* C05 -- validated operations cannot go wrong; validation itself never
   crashes. Statements only; proofs are in Proofs/Valid*Proofs.v. The model is
   coq/Valid/ValidRules.v + ValidOverlap.v (26 rule visitors of
   py_gql/validation over the TypeInfoVisitor context). *)
From PyGql Require Import Valid.ValidOverlap Spec.ValidSpec
     Proofs.ValidCloseProofs Proofs.ValidMergeProofs Proofs.ValidStaticProofs Proofs.ValidFuelProofs.

(* For every schema and every executable document -- valid or not, also with
   cyclic fragment spreads -- the model of validate_ast returns its list of
   errors with the stated fuel `overlap_fuel s d` (= (number of memo keys of
   the document) * (3h + 4) + 3h + 3, h the deepest selection nesting): no
   Crash, no Rejected, no OutOfFuel, all 26 rules. The termination measure of
   OverlappingFieldsCanBeMerged is the number of (fragment, fragment, flag) and
   (selection set, fragment, flag) keys not yet compared, then the nesting
   depth of the compared selections. (Holds for the tree with fix C05-07; the
   unrepaired rule recursed for ever on `fragment G on T { f { ...G f { ...G } } }`.) *)
Theorem C05_validate_total : forall s d,
  exists l, validate_model (overlap_fuel s d) s d = Ok l.
Proof. exact validate_total. Qed.
Print Assumptions C05_validate_total.

(* The 25 rules other than OverlappingFieldsCanBeMerged need no fuel at all. *)
Theorem C05_validate_total_partial : forall fuel s d,
  exists l, validate_rules fuel s d rules_but_overlap = Ok l.
Proof. exact validate_total_but_overlap. Qed.
Print Assumptions C05_validate_total_partial.

(* With all 26 rules the model never ends in Crash or Rejected: the only
   failure left is exhausted fuel inside OverlappingFieldsCanBeMerged. *)
Theorem C05_validate_never_crashes : forall fuel s d,
  match validate_model fuel s d with Ok _ | OutOfFuel => True | _ => False end.
Proof. exact validate_model_benign. Qed.
Print Assumptions C05_validate_never_crashes.

(* The spread closure used by NoFragmentCycles, NoUndefinedVariables,
   NoUnusedVariables and VariablesInAllowedPosition terminates within the
   stated fuel: one more than the number of candidate fragment names. *)
Theorem C05_close_fuel_sufficient : forall g fuel cands S0,
  length cands < fuel -> exists R, close fuel cands g S0 = Ok R.
Proof. exact close_fuel_ok. Qed.
Print Assumptions C05_close_fuel_sufficient.

(* When the conflict test of two fields with one response key is silent, the
   fields are mergeable in the sense of FieldsInSetCanMerge: parents that can
   never apply together, or the same field name with identical arguments; and
   response types of the same shape. For any fuel, fragment table and cache. *)
Theorem C05_merge_unambiguous_pairwise : forall fuel s frs f1 f2 st st',
  run fuel s frs (CFind false f1 f2) st = Ok (false, st') -> pair_mergeable s f1 f2.
Proof. exact find_conflict_silent. Qed.
Print Assumptions C05_merge_unambiguous_pairwise.

(* When the rule is silent on a selection set, every two fields collected
   under one response key of that set (through inline fragments) are
   mergeable. Named fragment spreads are covered by the correspondence only. *)
Theorem C05_merge_unambiguous_within : forall fuel s frs parent l sels st st',
  run_list fuel s frs (selset_calls s parent l sels) st false = Ok (false, st') ->
  forall key fs f1 f2,
    In (key, fs) (fst (fields_and_fragments s parent sels)) -> In (f1, f2) (perms fs) ->
    pair_mergeable s f1 f2.
Proof. exact within_silent. Qed.
Print Assumptions C05_merge_unambiguous_within.

(* A document on which FieldsOnCorrectType and KnownFragmentNames are silent
   cannot reach, by static descent from any definition, a field that its parent
   type does not define or a spread of a fragment that is not defined. *)
Theorem C05_progress_static : forall s d,
  r09_fields_on_correct_type s d = [] -> r11_known_fragment_names s d = [] ->
  ~ static_stuck s d.
Proof. exact progress_static. Qed.
Print Assumptions C05_progress_static.

(* A document on which ScalarLeafs is silent selects sub-fields exactly on the
   fields of composite type: no leaf with a sub-selection, no composite
   without. *)
Theorem C05_shape_static : forall s d,
  r08_scalar_leafs s d = [] -> ~ static_misshaped s d.
Proof. exact shape_static. Qed.
Print Assumptions C05_shape_static.

(* non-vacuity *)
Local Open Scope string_scope.
Example C05_example :
  let nm x := Name (str_of_string x) None in
  let s := Schema [(str_of_string "Q", TObject [] [SField_ (str_of_string "a") [] (RNamed (str_of_string "Int"))]);
                   (str_of_string "Int", TScalar SkInt)]
                  (Some (str_of_string "Q")) None None [] in
  let good := Doc [DOperation OpQuery None [] [] None [SField None (nm "a") [] [] None [] None] None] None in
  let bad := Doc [DOperation OpQuery None [] [] None
                    [SField None (nm "b") [] [] None [] None; SSpread (nm "F") [] None] None] None in
  validate_model (overlap_fuel s good) s good = Ok [] /\
  validate_model (overlap_fuel s bad) s bad = Ok [(9%N, None); (11%N, None)].
Proof. vm_compute. split; reflexivity. Qed.
