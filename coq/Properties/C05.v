(* C05 -- validated operations cannot go wrong; validation itself never
   crashes. Statements only; proofs are in Proofs/Valid*Proofs.v. The model is
   coq/Valid/ValidRules.v + ValidOverlap.v (26 rule visitors of
   py_gql/validation over the TypeInfoVisitor context). *)
From PyGql Require Import Valid.ValidOverlap Spec.ValidSpec
     Proofs.ValidCloseProofs Proofs.ValidMergeProofs Proofs.ValidStaticProofs Proofs.ValidFuelProofs
     Spec.ValidLocalSpec Spec.ValidRuntimeSpec Proofs.ValidRuntimeProofs Proofs.ValidMemoProofs Proofs.ValidLocsProofs Proofs.ValidMemoExample.

(* For every schema and every executable document -- valid or not, also with
   cyclic fragment spreads -- the model of validate_ast returns its list of
   errors with the stated fuel `overlap_fuel s d` (= (number of memo keys of
   the document) * (3h + 4) + 3h + 3, h the deepest selection nesting): no
   Crash, no Rejected, no OutOfFuel, all 26 rules. The termination measure of
   OverlappingFieldsCanBeMerged is the number of (fragment, fragment, flag) and
   (selection set, fragment, flag) keys not yet compared, then the nesting
   depth of the compared selections. (Holds for the tree with fix C05-07; the
   unrepaired rule recursed for ever on `fragment G on T { f { ...G f { ...G } } }`.) *)
Theorem C05_validate_total : forall s d,
  exists l, validate_model (overlap_fuel s d) s d = Ok l.
Proof. exact validate_total. Qed.
Print Assumptions C05_validate_total.

(* The 25 rules other than OverlappingFieldsCanBeMerged need no fuel at all. *)
Theorem C05_validate_total_partial : forall fuel s d,
  exists l, validate_rules fuel s d rules_but_overlap = Ok l.
Proof. exact validate_total_but_overlap. Qed.
Print Assumptions C05_validate_total_partial.

(* With all 26 rules the model never ends in Crash or Rejected: the only
   failure left is exhausted fuel inside OverlappingFieldsCanBeMerged. *)
Theorem C05_validate_never_crashes : forall fuel s d,
  match validate_model fuel s d with Ok _ | OutOfFuel => True | _ => False end.
Proof. exact validate_model_benign. Qed.
Print Assumptions C05_validate_never_crashes.

(* The spread closure used by NoFragmentCycles, NoUndefinedVariables,
   NoUnusedVariables and VariablesInAllowedPosition terminates within the
   stated fuel: one more than the number of candidate fragment names. *)
Theorem C05_close_fuel_sufficient : forall g fuel cands S0,
  length cands < fuel -> exists R, close fuel cands g S0 = Ok R.
Proof. exact close_fuel_ok. Qed.
Print Assumptions C05_close_fuel_sufficient.

(* When the conflict test of two fields with one response key is silent, the
   fields are mergeable in the sense of FieldsInSetCanMerge: parents that can
   never apply together, or the same field name with identical arguments; and
   response types of the same shape. For any fuel, fragment table and cache. *)
Theorem C05_merge_unambiguous_pairwise : forall fuel s frs f1 f2 st st',
  run fuel s frs (CFind false f1 f2) st = Ok (false, st') -> pair_mergeable s f1 f2.
Proof. exact find_conflict_silent. Qed.
Print Assumptions C05_merge_unambiguous_pairwise.

(* When the rule is silent on a selection set, every two fields collected
   under one response key of that set (through inline fragments) are
   mergeable. Named fragment spreads are covered by the correspondence only. *)
Theorem C05_merge_unambiguous_within : forall fuel s frs parent l sels st st',
  run_list fuel s frs (selset_calls s parent l sels) st false = Ok (false, st') ->
  forall key fs f1 f2,
    In (key, fs) (fst (fields_and_fragments s parent sels)) -> In (f1, f2) (perms fs) ->
    pair_mergeable s f1 f2.
Proof. exact within_silent. Qed.
Print Assumptions C05_merge_unambiguous_within.

(* Through NAMED fragments. The search compares a field map with a fragment,
   and two fragments, at most once (two memo sets; a field map is identified by
   the location of its selection set, in Python by the identity of the cached
   dict). The memo sets never drop an obligation: when the rule is silent, for
   every selection set it visits
   - every field of the set is pairwise mergeable with every same-key field of
     every fragment spread in the set directly or transitively ([sreach]), and
   - for two spreads a, b of the set, the fields of the fragments the comparison
     of a and b unfolds to ([preach]: one side at a time is replaced by a
     fragment it spreads; an identical pair is left to that fragment's own
     selection set) are pairwise mergeable.
   Cyclic spreads included; no fuel hypothesis (C05_validate_total gives the
   fuel). Hypothesis [faithful_locations]: distinct selection sets have distinct
   locations, and the parent type under which the rule visits a selection set
   is the one the pairwise descent computes for it (a map M from locations to
   field maps that all calls agree with) -- the assumption under which keying
   the memo by location models keying it by dict identity. *)
Theorem C05_merge_unambiguous_named : forall fuel s d,
  faithful_locations s d ->
  r25_overlapping_fields fuel s d = Ok [] ->
  forall parent l sels, In (ESelSet parent l sels) (doc_events s d) ->
    let frs := frag_table (doc_defs d) in
    let ff := fields_and_fragments s parent sels in
    (forall g0 g fm fns, In g0 (snd ff) -> sreach s frs g0 g -> frag_ff s frs g = Some (fm, fns) ->
                         maps_mergeable s (fst ff) fm)
    /\ (forall a b x y fm1 fns1 fm2 fns2, In (a, b) (perms (snd ff)) -> preach s frs a b x y -> x <> y ->
          frag_ff s frs x = Some (fm1, fns1) -> frag_ff s frs y = Some (fm2, fns2) ->
          maps_mergeable s fm1 fm2 \/ maps_mergeable s fm2 fm1).
Proof. exact merge_named. Qed.
Print Assumptions C05_merge_unambiguous_named.

(* [faithful_locations] holds when the selection sets have pairwise distinct
   locations (parser output), FragmentsOnCompositeTypes is silent, and the
   parent type the traversal gives the sub-selection of a field is the one the
   pairwise descent computes from the field's definition ([lookups_agree]) ... *)
Theorem C05_faithful_locations : forall s d,
  NoDup (selset_locs (doc_events s d)) ->
  spec_fragments_on_composite s d ->
  lookups_agree s d ->
  faithful_locations s d.
Proof. exact faithful_from_agreement. Qed.
Print Assumptions C05_faithful_locations.

(* ... which is the case when no field with a sub-selection is an introspection
   meta field and the type of such a field, when the parent defines it, is
   composite (ScalarLeafs). *)
Theorem C05_lookups_agree : forall s d,
  (forall q a n args dirs l0 sub l, reaches s d (Some q) (SField a n args dirs (Some l0) sub l) ->
     meta_name (n_val n) = false /\
     forall fd, get_field_def s q (n_val n) = Some fd -> is_composite s (unwrap (sf_type fd)) = true) ->
  lookups_agree s d.
Proof. exact lookups_agree_plain. Qed.
Print Assumptions C05_lookups_agree.

(* ... in terms of rule verdicts: ScalarLeafs silent, field types that are leaf or
   composite types (schema validity), no sub-selected introspection meta field. *)
Theorem C05_lookups_agree_rules : forall s d,
  r08_scalar_leafs s d = [] ->
  (forall p n f, get_field_def s p n = Some f ->
     is_leaf s (unwrap (sf_type f)) = true \/ is_composite s (unwrap (sf_type f)) = true) ->
  (forall q a n args dirs l0 sub l, reaches s d (Some q) (SField a n args dirs (Some l0) sub l) ->
     meta_name (n_val n) = false) ->
  lookups_agree s d.
Proof. exact lookups_agree_rules. Qed.
Print Assumptions C05_lookups_agree_rules.

(* The two together: the guarantee through named fragments from rule verdicts
   and distinct locations only. *)
Theorem C05_merge_unambiguous_named_valid : forall fuel s d,
  NoDup (selset_locs (doc_events s d)) ->
  r06_fragments_on_composite s d = [] ->
  lookups_agree s d ->
  r25_overlapping_fields fuel s d = Ok [] ->
  forall parent l sels, In (ESelSet parent l sels) (doc_events s d) ->
    let frs := frag_table (doc_defs d) in
    let ff := fields_and_fragments s parent sels in
    (forall g0 g fm fns, In g0 (snd ff) -> sreach s frs g0 g -> frag_ff s frs g = Some (fm, fns) ->
                         maps_mergeable s (fst ff) fm)
    /\ (forall a b x y fm1 fns1 fm2 fns2, In (a, b) (perms (snd ff)) -> preach s frs a b x y -> x <> y ->
          frag_ff s frs x = Some (fm1, fns1) -> frag_ff s frs y = Some (fm2, fns2) ->
          maps_mergeable s fm1 fm2 \/ maps_mergeable s fm2 fm1).
Proof. exact merge_named_plain. Qed.
Print Assumptions C05_merge_unambiguous_named_valid.

(* The invariant behind it, at every depth: a silent rule leaves a memo state
   [stf] relative to which every call made for a visited selection set is
   satisfied ([sat]: the pairwise conditions of FieldsInSetCanMerge with the
   exclusivity flag, recursively through the sub-selections of the compared
   fields, and "compared" for a memo key) and every memo key taken is covered
   ([newcov]: the comparison the key stands for is satisfied and the keys of
   the fragments nested in it are taken): no comparison is skipped because of
   the memo without having been made. *)
Theorem C05_merge_memo_sound : forall fuel s d M,
  NoDup (selset_locs (doc_events s d)) ->
  events_ok s M (selset_locs (doc_events s d)) (doc_events s d) ->
  (forall g fm fns, frag_ff s (frag_table (doc_defs d)) g = Some (fm, fns) -> mok s M (selset_locs (doc_events s d)) fm) ->
  r25_overlapping_fields fuel s d = Ok [] ->
  exists stf, newcov s (frag_table (doc_defs d)) M (initial_state s d) stf /\
    forall parent l sels, In (ESelSet parent l sels) (doc_events s d) ->
      forall c, In c (selset_calls s parent l sels) -> sat s stf c.
Proof. exact memo_sound. Qed.
Print Assumptions C05_merge_memo_sound.

(* Every depth. [conflict_free s frs c]: the memo-FREE search from call c --
   [step]: a pair of fields satisfies the pairwise conditions under its
   exclusivity flag and, when both have sub-selections, the two sub-selections
   are searched against each other; a field map against a fragment = against
   the fragment's fields and against every fragment it spreads; two fragments =
   their fields against each other and each against the fragments the other
   spreads (an identical pair is not unfolded) -- meets no conflict at any
   depth. It is the greatest fixed point of [step] (the memo-free search tree
   is infinite on cyclic spreads), given as the union of the sets closed under
   [step]. Theorem: when the memoised rule is silent, every call it makes for a
   visited selection set is conflict free: caching never hides a conflict the
   uncached search would find. *)
Theorem C05_merge_unambiguous_deep : forall fuel s d,
  faithful_locations s d ->
  r25_overlapping_fields fuel s d = Ok [] ->
  forall parent l sels, In (ESelSet parent l sels) (doc_events s d) ->
    forall c, In c (selset_calls s parent l sels) -> conflict_free s (frag_table (doc_defs d)) c.
Proof. exact merge_deep. Qed.
Print Assumptions C05_merge_unambiguous_deep.

Theorem C05_merge_unambiguous_deep_valid : forall fuel s d,
  NoDup (selset_locs (doc_events s d)) ->
  r06_fragments_on_composite s d = [] ->
  lookups_agree s d ->
  r25_overlapping_fields fuel s d = Ok [] ->
  forall parent l sels, In (ESelSet parent l sels) (doc_events s d) ->
    forall c, In c (selset_calls s parent l sels) -> conflict_free s (frag_table (doc_defs d)) c.
Proof. exact merge_deep_plain. Qed.
Print Assumptions C05_merge_unambiguous_deep_valid.

(* [conflict_free] can be unfolded as deep as wanted ... *)
Theorem C05_conflict_free_unfold : forall s frs c,
  conflict_free s frs c -> step s frs (conflict_free s frs) c.
Proof. exact conflict_free_unfold. Qed.
Print Assumptions C05_conflict_free_unfold.

(* ... e.g. for two fields compared without the exclusivity flag: they are
   pairwise mergeable and their sub-selections are conflict free against each
   other (under the flag the parents determine). *)
Theorem C05_conflict_free_find : forall s frs f1 f2,
  conflict_free s frs (CFind false f1 f2) ->
  pair_mergeable s f1 f2 /\
  forall l1 s1 l2 s2, fi_sub f1 = Some (l1, s1) -> fi_sub f2 = Some (l2, s2) ->
    conflict_free s frs (CSub (mexf s false f1 f2) (option_map unwrap (ft f1)) l1 s1 (option_map unwrap (ft f2)) l2 s2).
Proof. exact conflict_free_find. Qed.
Print Assumptions C05_conflict_free_find.

(* A document on which FieldsOnCorrectType and KnownFragmentNames are silent
   cannot reach, by static descent from any definition, a field that its parent
   type does not define or a spread of a fragment that is not defined. *)
Theorem C05_progress_static : forall s d,
  r09_fields_on_correct_type s d = [] -> r11_known_fragment_names s d = [] ->
  ~ static_stuck s d.
Proof. exact progress_static. Qed.
Print Assumptions C05_progress_static.

(* A document on which ScalarLeafs is silent selects sub-fields exactly on the
   fields of composite type: no leaf with a sub-selection, no composite
   without. *)
Theorem C05_shape_static : forall s d,
  r08_scalar_leafs s d = [] -> ~ static_misshaped s d.
Proof. exact shape_static. Qed.
Print Assumptions C05_shape_static.

(* ---- the runtime half: the executor evaluates a selection against the
   RUNTIME object type ([rreach]: fields are looked up on the object, the type a
   field's value may have is any object of the type the OBJECT declares for it,
   fragments are entered when their type condition applies to the object).
   Hypothesis [implements_ok]: the interface-implementation invariant of a
   valid schema (an object that can stand for p defines p's fields with a
   covariant type of the same kind). ---- *)

(* Every selection met at runtime under object type o is met by static descent
   under a static parent p that o can stand for. *)
Theorem C05_runtime_reach_static : forall s d,
  implements_ok s -> spec_fields_on_correct_type s d ->
  forall o z, rreach s d o z -> exists p, runtime_of s p o /\ reaches s d (Some p) z.
Proof. exact runtime_reach_static. Qed.
Print Assumptions C05_runtime_reach_static.

(* FieldsOnCorrectType and KnownFragmentNames silent: the executor never meets
   a field its runtime object type does not define, nor an undefined fragment. *)
Theorem C05_progress_runtime : forall s d,
  implements_ok s ->
  r09_fields_on_correct_type s d = [] -> r11_known_fragment_names s d = [] ->
  ~ runtime_stuck s d.
Proof. exact progress_runtime. Qed.
Print Assumptions C05_progress_runtime.

(* ... and with ScalarLeafs silent, sub-selections are exactly on the fields
   whose type on the runtime object is composite. *)
Theorem C05_shape_runtime : forall s d,
  implements_ok s ->
  r09_fields_on_correct_type s d = [] -> r08_scalar_leafs s d = [] ->
  ~ runtime_misshaped s d.
Proof. exact shape_runtime. Qed.
Print Assumptions C05_shape_runtime.

(* [implements_ok] is implied by a check that can be evaluated on the schema:
   for every abstract type p, every object o among its possible types and
   every field p defines (meta fields included), o defines the field with a
   type whose runtime objects are runtime objects of p's type, of the same
   kind. *)
Theorem C05_implements_ok_decidable : forall s, implements_okb s = true -> implements_ok s.
Proof. exact implements_okb_sound. Qed.
Print Assumptions C05_implements_ok_decidable.

(* non-vacuity *)
Local Open Scope string_scope.
Example C05_example :
  let nm x := Name (str_of_string x) None in
  let s := Schema [(str_of_string "Q", TObject [] [SField_ (str_of_string "a") [] (RNamed (str_of_string "Int"))]);
                   (str_of_string "Int", TScalar SkInt)]
                  (Some (str_of_string "Q")) None None [] in
  let good := Doc [DOperation OpQuery None [] [] None [SField None (nm "a") [] [] None [] None] None] None in
  let bad := Doc [DOperation OpQuery None [] [] None
                    [SField None (nm "b") [] [] None [] None; SSpread (nm "F") [] None] None] None in
  validate_model (overlap_fuel s good) s good = Ok [] /\
  validate_model (overlap_fuel s bad) s bad = Ok [(9%N, None); (11%N, None)].
Proof. vm_compute. split; reflexivity. Qed.

(* named fragments: the same response key selected directly and through the
   nested fragment B, with the same field (silent) and with another field
   (reported); distinct selection-set locations *)
Example C05_example_named :
  let nm x := Name (str_of_string x) None in
  let s := Schema [(str_of_string "Q", TObject [] [SField_ (str_of_string "a") [] (RNamed (str_of_string "Int"));
                                                   SField_ (str_of_string "b") [] (RNamed (str_of_string "Int"))]);
                   (str_of_string "Int", TScalar SkInt)]
                  (Some (str_of_string "Q")) None None [] in
  let tq := TNamed (nm "Q") None in
  let fld al n := SField al (nm n) [] [] None [] None in
  let fr n k sels := DFragment (nm n) [] tq [] (Some (k, k)) sels None in
  let op sels := DOperation OpQuery None [] [] (Some (0, 0)) sels None in
  let good := Doc [op [fld (Some (nm "x")) "a"; SSpread (nm "A") [] None];
                   fr "A" 1 [SSpread (nm "B") [] None]; fr "B" 2 [fld (Some (nm "x")) "a"]] None in
  let bad := Doc [op [fld (Some (nm "x")) "a"; SSpread (nm "A") [] None];
                  fr "A" 1 [SSpread (nm "B") [] None]; fr "B" 2 [fld (Some (nm "x")) "b"]] None in
  NoDup (selset_locs (doc_events s good)) /\ r06_fragments_on_composite s good = [] /\
  r25_overlapping_fields (overlap_fuel s good) s good = Ok [] /\
  NoDup (selset_locs (doc_events s bad)) /\
  r25_overlapping_fields (overlap_fuel s bad) s bad = Ok [(25%N, None)].
Proof.
  vm_compute. repeat split; try reflexivity;
    repeat (constructor; [simpl; intuition discriminate|]); constructor.
Qed.


(* runtime half, non-vacuity: a schema with an interface and a union whose
   members implement it covariantly passes the check; one whose object lacks
   the interface's field does not *)
Example C05_example_runtime :
  let S_ x := str_of_string x in
  let s := Schema [(S_ "Q", TObject [] [SField_ (S_ "n") [] (RNamed (S_ "Node")); SField_ (S_ "u") [] (RNamed (S_ "U"))]);
                   (S_ "Node", TInterface [SField_ (S_ "id") [] (RNamed (S_ "Int")); SField_ (S_ "next") [] (RNamed (S_ "Node"))]);
                   (S_ "A", TObject [S_ "Node"] [SField_ (S_ "id") [] (RNonNull (RNamed (S_ "Int")));
                                                SField_ (S_ "next") [] (RNamed (S_ "A"))]);
                   (S_ "B", TObject [S_ "Node"] [SField_ (S_ "id") [] (RNamed (S_ "Int"));
                                                SField_ (S_ "next") [] (RNamed (S_ "U"))]);
                   (S_ "U", TUnion [S_ "A"; S_ "B"]);
                   (S_ "Int", TScalar SkInt)]
                  (Some (S_ "Q")) None None [] in
  let bad := Schema [(S_ "Q", TObject [] [SField_ (S_ "n") [] (RNamed (S_ "Node"))]);
                     (S_ "Node", TInterface [SField_ (S_ "id") [] (RNamed (S_ "Int"))]);
                     (S_ "A", TObject [S_ "Node"] []);
                     (S_ "Int", TScalar SkInt)]
                    (Some (S_ "Q")) None None [] in
  implements_okb s = true /\ implements_okb bad = false.
Proof. vm_compute. split; reflexivity. Qed.

(* the hypotheses of the theorems about named fragments are jointly satisfiable:
   [ex_doc] (Proofs/ValidMemoExample.v) is
     { q { x: a ...A } }  fragment A on Q { ...B }  fragment B on Q { x: a }
   with distinct selection-set locations *)
Example C05_example_faithful : faithful_locations ex_schema ex_doc.
Proof. exact ex_faithful. Qed.
Example C05_example_deep :
  r25_overlapping_fields (overlap_fuel ex_schema ex_doc) ex_schema ex_doc = Ok [] /\
  forall parent l sels, In (ESelSet parent l sels) (doc_events ex_schema ex_doc) ->
    forall c, In c (selset_calls ex_schema parent l sels) -> conflict_free ex_schema (frag_table (doc_defs ex_doc)) c.
Proof. exact ex_silent_and_conflict_free. Qed.
