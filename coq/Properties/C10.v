(* C10 -- every outcome is a well-formed, serialisable response; failures stay
   contained.  Statements only; proofs are in Proofs/ResponseLocProofs.v and
   Proofs/ResponseProofs.v. *)
From PyGql Require Import Base.Str Lang.LocModel Exec.ResponseModel Spec.ResponseSpec
  Exec.ResponseCheck Proofs.ResponseLocProofs Proofs.ResponseProofs.

(* index_to_loc: for every text and every position up to its length the
   answer exists, is 1-based, denotes a place inside the text (lines split at
   LF only, which is the line structure both functions use; CR occupies a
   column), and loc_to_index inverts it -- except at the very end of a text
   whose last character is LF, where loc_to_index raises IndexError
   (Example loc_roundtrip_fails_after_final_LF). *)
Theorem C10_loc : forall s p l c,
  p <= length s -> index_to_loc s p = Ok (l, c) ->
  1 <= l /\ 1 <= c /\ loc_inside_b s l c = true /\
  ((p < length s \/ s = [] \/ last s 0%N <> LF) -> loc_to_index s (l, c) = Ok p).
Proof.
  intros s p l c Hp H. destruct (index_to_loc_inside s p l c H) as (H1 & H2 & H3).
  repeat split; try assumption. intros Hside. exact (loc_roundtrip s p l c Hp H Hside).
Qed.
Print Assumptions C10_loc.

Theorem C10_loc_total : forall s p, p <= length s -> exists lc, index_to_loc s p = Ok lc.
Proof. exact index_to_loc_total. Qed.
Print Assumptions C10_loc_total.

(* The full claim: for all stage outcomes (syntax error at any position,
   validation errors, operation-selection error, variable-coercion errors,
   directive-argument coercion error of the root selection set,
   execution result with located errors, paths and extensions) the response
   is well formed.  It is FALSE for the unchanged code: see the witness. *)
Definition C10_wf_full : Prop := forall doc st r,
  stages_wf_b doc st = true -> pipeline_model doc st = Ok r -> wf_response doc r.

(* Known finding: a syntax-error response spells the column key "columne"
   (pinned by tests/test_graphql.py), so it is not a well-formed location. *)
Theorem C10_wf_refuted_columne :
  exists doc st r, stages_wf_b doc st = true /\ pipeline_model doc st = Ok r /\
                   ~ wf_response doc r.
Proof. exact pipeline_wf_refuted. Qed.
Print Assumptions C10_wf_refuted_columne.

(* Everything else holds: at every stage other than the syntax-error stage
   the response is well formed as is; at the syntax-error stage it is well
   formed once that one key is read as "column" (position clamped into the
   text, so also for requests truncated inside an escape sequence). *)
Theorem C10_wf_partial : forall doc st r,
  stages_wf_b doc st = true -> pipeline_model doc st = Ok r ->
  (st_parse st = None -> wf_response doc r) /\
  (st_parse st <> None -> wf_response doc (rename_columne r)).
Proof. exact pipeline_wf_partial. Qed.
Print Assumptions C10_wf_partial.

(* A response is always produced, unless a resolver returned a non-finite
   value for a Float field (RuntimeError, as for any unserialisable value). *)
Theorem C10_total : forall doc st,
  stages_wf_b doc st = true ->
  (exists r, pipeline_model doc st = Ok r) \/
  (pipeline_model doc st = Crash crash_RuntimeError /\ failed_early st = false /\
   exists f, In f (st_float_returns st) /\ is_finite f = false).
Proof. exact pipeline_total. Qed.
Print Assumptions C10_total.

(* "data" is absent exactly when parsing or validation failed *)
Theorem C10_data_presence : forall doc st r,
  stages_wf_b doc st = true -> pipeline_model doc st = Ok r ->
  data_presence (failed_early st) r.
Proof. exact pipeline_data_presence. Qed.
Print Assumptions C10_data_presence.

(* ... and when the request is aborted after validation but before any field
   runs -- operation selection, variable coercion, or invalid @skip/@include
   arguments on the root selection set (_abort(data=None, errors=...)) --
   "data" is present and null and "errors" is non-empty: data is omitted only
   for parse and validation failures *)
Theorem C10_data_null_when_aborted : forall doc st r,
  pipeline_model doc st = Ok r -> aborted_before_execution st = true ->
  response_data r = Some JNull /\ response_errors r <> [].
Proof. exact pipeline_abort_data. Qed.
Print Assumptions C10_data_null_when_aborted.

(* the executor's null/error matching survives response assembly: paths are
   neither dropped nor altered *)
Theorem C10_null_error_match : forall doc d errs r obligated,
  response doc (Result (Some d) errs) = Ok r ->
  (forall p, In p obligated -> p <> []) ->
  exec_null_match obligated d errs ->
  null_error_match obligated r.
Proof. exact null_error_match_transport. Qed.
Print Assumptions C10_null_error_match.

(* resolver-supplied extensions appear unchanged under "extensions" of the
   error at the same index; errors without extensions get no such key *)
Theorem C10_extensions_passthrough : forall doc res r i m nodes pth kv ext,
  response doc res = Ok r ->
  nth_error (r_errors res) i = Some (EResolver m nodes pth (Some (kv :: ext))) ->
  exists kvs, nth_error (response_errors r) i = Some (JObj kvs) /\
              alookup k_extensions kvs = Some (JObj (kv :: ext)).
Proof. exact extensions_passthrough. Qed.
Print Assumptions C10_extensions_passthrough.

Theorem C10_no_extensions_invented : forall doc res r i e kvs,
  response doc res = Ok r ->
  nth_error (r_errors res) i = Some e -> err_ext e = None ->
  nth_error (response_errors r) i = Some (JObj kvs) ->
  alookup k_extensions kvs = None.
Proof. exact no_extensions_invented. Qed.
Print Assumptions C10_no_extensions_invented.

(* Float values that pass coerce_float (serialisation and variable parsing)
   are finite, whatever float() made of the input *)
Theorem C10_finite : forall (A : Type) (py_float : A -> jnum) x f,
  coerce_float py_float x = Ok f -> is_finite f = true.
Proof. exact @coerce_float_finite. Qed.
Print Assumptions C10_finite.

(* the executable checkers used on the implementation's responses decide the
   specification predicates *)
Theorem C10_checkers_decide_spec : forall doc r early obligated,
  (wf_response_b doc r = true <-> wf_response doc r) /\
  (data_presence_b early r = true <-> data_presence early r) /\
  (null_error_match_b obligated r = true <-> null_error_match obligated r).
Proof.
  intros. split; [apply wf_response_b_iff|]. split; [apply data_presence_b_iff|].
  apply null_error_match_b_iff.
Qed.
Print Assumptions C10_checkers_decide_spec.

(* non-vacuity: a request that executed with a resolver error carrying
   extensions at path ["a"], a null there, and a node at offset 2 of "{ a }" *)
Example C10_example :
  let doc := str_of_string "{ a }" in
  let a := str_of_string "a" in
  let ext := [(str_of_string "code", JInt 7)] in
  let err := EResolver (str_of_string "boom") [NodeRef (Some (2, 3)) true] (Some [PKey a]) (Some ext) in
  let st := Stages None [] None [] [] [] (JObj [(a, JNull)], [err]) in
  stages_wf_b doc st = true /\
  exists r, pipeline_model doc st = Ok r /\ wf_response_b doc r = true /\
            null_error_match_b [[PKey a]] r = true /\
            response_errors r =
              [JObj [(k_message, JStr (str_of_string "boom"));
                     (k_locations, JArr [JObj [(k_line, JInt 1); (k_column, JInt 3)]]);
                     (k_path, JArr [JStr a]);
                     (k_extensions, JObj ext)]].
Proof. vm_compute. split; [reflexivity|]. eexists. repeat split; reflexivity. Qed.

(* ------------------------------------------------------------------------
   Every runtime configuration.  [process_rt] (Exec/ResponseRuntime.v) is
   process_graphql_query with its Runtime calls written out (_abort =
   ensure_wrapped(_on_end(...)), success = map_value(execute(...), _on_end));
   a runtime is ANY implementation whose observable -- the value itself for
   graphql_blocking / the default runtime, `await` for graphql (asyncio),
   `.result()` for ThreadPoolRuntime -- obeys the three wrapper laws.  What
   the caller of the entry point gets is then the same under all of them, so
   every statement above holds on the asyncio and thread-pool result paths as
   well as on the blocking one. *)
From PyGql Require Import Exec.ResponseRuntime Proofs.ResponseRuntimeProofs.

Theorem C10_runtime_independent : forall (rt : runtime) doc st,
  entry_point rt st = process st /\ pipeline_rt rt doc st = pipeline_model doc st.
Proof.
  intros rt doc st. split; [apply entry_point_runtime_independent|apply pipeline_runtime_independent].
Qed.
Print Assumptions C10_runtime_independent.

Theorem C10_wf_every_runtime : forall (rt : runtime) doc st r,
  stages_wf_b doc st = true -> pipeline_rt rt doc st = Ok r ->
  (st_parse st = None -> wf_response doc r) /\
  (st_parse st <> None -> wf_response doc (rename_columne r)) /\
  data_presence (failed_early st) r /\
  (aborted_before_execution st = true -> response_data r = Some JNull /\ response_errors r <> []).
Proof.
  intros rt doc st r Hwf H. rewrite pipeline_runtime_independent in H.
  destruct (pipeline_wf_partial doc st r Hwf H) as [A B].
  split; [exact A|]. split; [exact B|]. split; [exact (pipeline_data_presence doc st r Hwf H)|].
  intros Ha. exact (pipeline_abort_data doc st r H Ha).
Qed.
Print Assumptions C10_wf_every_runtime.

(* the laws are satisfiable: the blocking runtime (values as they are) and a
   future-like runtime (awaitable / Future) are instances, and give the same
   response on a concrete request *)
Example C10_runtime_instances :
  let st := Stages None [] None [] [] [] (JObj [(str_of_string "a", JInt 1)], []) in
  pipeline_rt blocking_runtime [] st = pipeline_rt future_runtime [] st /\
  pipeline_rt future_runtime [] st = Ok (JObj [(k_data, JObj [(str_of_string "a", JInt 1)])]).
Proof. split; reflexivity. Qed.

(* ------------------------------------------------------------------------
   Composition with the C04 executor model (Exec/ExecModel.v, read-only).
   The execution result is no longer an input: it is [execute] of ExecModel,
   converted by Exec/ResponseExec.v.  Obligated positions ([obligations]) are
   the response positions the executor completes against a NonNull type with
   a null result, plus the fields whose resolver raised ResolverError or whose
   arguments failed to coerce -- defined from schema types, resolver outcomes
   and completed values along the executor's own traversal, never from the
   error list.
   Inherited side condition: [schema_nn_ok] (no NonNull directly inside
   NonNull; py-gql's schema validation rejects it) -- C04's, for "at most one".
   Other premises are about the inputs, not the executor: [front_wf] (errors
   of the validator / variable coercion refer to nodes inside the text),
   [doc_in_text] (the parsed document's node locations lie in the text: C02).
   Fixed by the conversion (C04's model does not carry them): coercion /
   non-null message texts are opaque; error nodes have a source; extensions
   are the resolver's dict or none; C04's values have no non-finite floats. *)
From PyGql Require Import Spec.ExecSpec Proofs.ExecProofs Exec.ResponseExec Proofs.ResponseExecProofs.

(* the executor's errors are exactly the obligated positions, in order, each
   once, and the data is null at each of them or at an ancestor (C04's
   null_on_path: a list item that failed before the enclosing field was
   aborted by invalid directive arguments sits below a nulled field) *)
Theorem C10_exec_errors_are_obligations :
  forall sch coerce_args world tyres cfuel fuel d opname vs root dd es,
    schema_nn_ok sch ->
    execute sch coerce_args world tyres cfuel fuel d opname vs root = Ok (dd, es) ->
    let obl := obligations sch coerce_args world tyres cfuel fuel d opname vs root in
    map e_path es = obl /\ NoDup obl /\
    forall q, In q obl -> q <> [] /\ null_on_path dd q.
Proof. exact exec_errors_are_obligations. Qed.
Print Assumptions C10_exec_errors_are_obligations.

(* every null in a non-nullable position or at a failed field is matched by
   exactly one error with that path (null_error_match) -- in the response of
   the composed model, with no hypothesis about the executor; every obligated
   position has exactly one error and is null in "data" or lies below a null;
   and no error path is anything else *)
Theorem C10_null_error_match_exec :
  forall doc fr sch coerce_args world tyres cfuel fuel d opname vs root dd es r,
    schema_nn_ok sch ->
    front_early fr = false -> fr_varcoercion fr = [] ->
    execute sch coerce_args world tyres cfuel fuel d opname vs root = Ok (dd, es) ->
    pipeline_exec doc fr (Ok (dd, es)) = Ok r ->
    let obl := map conv_path (obligations sch coerce_args world tyres cfuel fuel d opname vs root) in
    null_error_match obl r /\
    (forall q, In q obl ->
       (exists data q1 q2, response_data r = Some data /\ q = q1 ++ q2 /\ jget data q1 = Some JNull) /\
       count_path q (map error_path (response_errors r)) = 1) /\
    (forall p, In (Some p) (map error_path (response_errors r)) -> In p obl).
Proof. exact null_error_match_exec. Qed.
Print Assumptions C10_null_error_match_exec.

(* the composed pipeline's response is well formed at every stage, real
   execution results included; it fails to produce one only when the executor
   itself lets an exception escape (unexpected resolver exception, value its
   type cannot serialise) or runs out of fuel *)
Theorem C10_wf_exec :
  forall doc fr sch coerce_args world tyres cfuel fuel d opname vs root,
    front_wf doc fr = true -> doc_in_text (length doc) d ->
    let ex := execute sch coerce_args world tyres cfuel fuel d opname vs root in
    match pipeline_exec doc fr ex with
    | Ok r =>
        (fr_parse fr = None -> wf_response doc r) /\
        (fr_parse fr <> None -> wf_response doc (rename_columne r)) /\
        data_presence (front_early fr) r
    | Crash k => front_early fr = false /\ fr_varcoercion fr = [] /\ ex = Crash k
    | OutOfFuel => front_early fr = false /\ fr_varcoercion fr = [] /\ ex = OutOfFuel
    | Rejected _ _ => False
    end.
Proof. exact wf_exec. Qed.
Print Assumptions C10_wf_exec.

(* non-vacuity: "{ t { s n } }" on Query { t: T }  T { n: Int!  s: String }:
   the resolver of t.s raises with extensions, t.n resolves to null *)
Local Open Scope string_scope.
Example C10_exec_example :
  let z := str_of_string in
  let sch := Schema [ (z "String", TScalar SString); (z "Int", TScalar SInt);
                      (z "T", TObject [MkField (z "n") (z "n") (RNonNull (RNamed (z "Int"))) [];
                                       MkField (z "s") (z "s") (RNamed (z "String")) []] []);
                      (z "Query", TObject [MkField (z "t") (z "t") (RNamed (z "T")) []] []) ]
                    (Some (z "Query")) None None in
  let fld n l sub := SField None (Name (z n) None) [] [] (match sub with [] => None | _ => Some None end) sub
                            (Some (l, l + 1)) in
  let d := Doc [DOperation OpQuery None [] [] None [fld "t" 2 [fld "s" 6 []; fld "n" 8 []]] None] None in
  let world : world_t := fun p _ _ fname _ =>
      if str_eqb fname (z "t") then RVal (PDict [(z "n", PNone)])
      else if str_eqb fname (z "s") then RErr (z "boom") (PDict [(z "code", PInt 7)])
      else RDefault in
  let doc := z "{ t { s n } }" in
  let ex := execute sch (fun _ _ _ => Ok []) world (fun _ => None) 50 10 d None [] PNone in
  obligations sch (fun _ _ _ => Ok []) world (fun _ => None) 50 10 d None [] PNone
    = [[PKey (z "t"); PKey (z "s")]; [PKey (z "t"); PKey (z "n")]] /\
  doc_in_text (length doc) d /\
  exists r, pipeline_exec doc (Front None [] []) ex = Ok r /\
            wf_response_b doc r = true /\
            null_error_match_b [[ResponseModel.PKey (z "t"); ResponseModel.PKey (z "s")];
                                [ResponseModel.PKey (z "t"); ResponseModel.PKey (z "n")]] r = true /\
            length (response_errors r) = 2.
Proof.
  cbv zeta. split; [vm_compute; reflexivity|]. split.
  - split; [reflexivity|]. intros k n sels [H|[]]. inversion H; subst. reflexivity.
  - eexists. split; [vm_compute; reflexivity|]. repeat split; vm_compute; reflexivity.
Qed.
