(* C08 -- results do not depend on runtime, executor variant or completion order.
   Statements only; proofs are in Proofs/RuntimeFuturesProofs.v (layer 1: the
   future combinators of runtime/threadpool.py at callback level) and
   Proofs/RuntimeMachineProofs.v, Proofs/RuntimeMachineWf.v (layer 2: the
   generic Executor over deferred values). *)
From Coq Require Import List NArith ZArith Bool Arith Permutation.
Import ListNotations.
From PyGql Require Import Exec.RuntimeFutures Exec.RuntimeMachine
  Proofs.RuntimeFuturesProofs Proofs.RuntimeMachineProofs Proofs.RuntimeMachineWf
  Proofs.RuntimeBlockingProofs Proofs.RuntimeProgressProofs Proofs.RuntimeRefineProofs.

(* ---- layer 1 ---- *)

(* gather_futures over fresh pending sources (no other callbacks), for every
   interleaving [sigma] of source completions and at every point of it (sigma
   ranges over all duplicate-free sequences of sources, so every prefix is
   covered): the outer future is pending until either the first failure in
   completion order arrives -- then it holds that failure -- or the last source
   succeeds -- then it holds the results in source order; no callback blocks and
   three callback invocations per completion suffice. *)
Theorem C08_gather :
  forall apply_fn apply_handler fuel h source results sigma,
    3 <= fuel ->
    fids_of source <> [] -> NoDup (fids_of source) ->
    (forall f, In f (fids_of source) -> futs h f = Pending [] /\ f < next_fid h) ->
    blocked h = false -> out_of_fuel h = false ->
    NoDup sigma -> incl sigma (fids_of source) ->
    exists outer h1,
      gather apply_fn apply_handler fuel h source = (Ret (VFut outer), h1) /\
      let hs := fold_left (fun h f => complete apply_fn apply_handler fuel h f (results f)) sigma h1 in
      futs hs outer =
        match first_fail results sigma with
        | Some e => Done (RExn e)
        | None => if Nat.eqb (length sigma) (length (fids_of source))
                  then Done (RVal (VSeq (map (slot_value results) source)))
                  else Pending [CbCancelWatch (next_g h)]
        end /\
      blocked hs = false /\ out_of_fuel hs = false.
Proof. exact gather_all_orders. Qed.
Print Assumptions C08_gather.

(* the same when some sources are already finished at the time gather_futures is
   called (their worker was faster than the submitting thread): on_finish runs for
   them inside add_done_callback, so they count as having completed first, in
   source order; [sigma] ranges over the sources that were still pending. In
   particular a source that has already failed fails the outer future at once. *)
Theorem C08_gather_mixed :
  forall apply_fn apply_handler fuel h source results (was_done : fid -> bool) sigma,
    3 <= fuel ->
    fids_of source <> [] -> NoDup (fids_of source) ->
    (forall f, In f (fids_of source) ->
       futs h f = (if was_done f then Done (results f) else Pending []) /\ f < next_fid h) ->
    blocked h = false -> out_of_fuel h = false ->
    NoDup sigma -> incl sigma (filter (fun f => negb (was_done f)) (fids_of source)) ->
    exists outer h1,
      gather apply_fn apply_handler fuel h source = (Ret (VFut outer), h1) /\
      let hs := fold_left (fun h f => complete apply_fn apply_handler fuel h f (results f)) sigma h1 in
      futs hs outer = outer_spec results source (next_g h) (filter was_done (fids_of source) ++ sigma) /\
      blocked hs = false /\ out_of_fuel hs = false.
Proof. exact gather_mixed_orders. Qed.
Print Assumptions C08_gather_mixed.

(* completed exactly once: once the outer future is done no further completion
   of a source changes it *)
Theorem C08_gather_once :
  forall results source g sigma more r,
    outer_spec results source g sigma = Done r ->
    NoDup (sigma ++ more) -> incl (sigma ++ more) (fids_of source) ->
    outer_spec results source g (sigma ++ more) = Done r.
Proof. exact outer_spec_stable. Qed.
Print Assumptions C08_gather_once.

(* chain on a pending source: a fresh pending target; whenever the source
   completes the target completes with then(value), or with the else_ callback's
   value for an exception of the handled class, or fails with any other
   exception (raised by the source or by then); nothing is swallowed; a second
   completion attempt changes nothing *)
Theorem C08_chain :
  forall apply_fn apply_handler fuel h s then_ else_,
    futs h s = Pending [] -> s < next_fid h ->
    exists h1, chain apply_fn apply_handler fuel h (VFut s) then_ else_ = (Ret (VFut (next_fid h)), h1) /\
      futs h1 (next_fid h) = Pending [] /\
      forall r fuel', 1 <= fuel' ->
        let h2 := complete apply_fn apply_handler fuel' h1 s r in
        futs h2 (next_fid h) = Done (chain_result apply_fn apply_handler r then_ else_) /\
        futs h2 s = Done r /\
        swallowed h2 = swallowed h /\ blocked h2 = blocked h /\ out_of_fuel h2 = out_of_fuel h /\
        (forall r' fuel'', complete apply_fn apply_handler fuel'' h2 s r' = h2).
Proof. exact chain_pending. Qed.
Print Assumptions C08_chain.

Theorem C08_chain_done :
  forall apply_fn apply_handler fuel h s r then_ else_,
    futs h s = Done r -> s < next_fid h -> 1 <= fuel ->
    exists h1, chain apply_fn apply_handler fuel h (VFut s) then_ else_ = (Ret (VFut (next_fid h)), h1) /\
      futs h1 (next_fid h) = Done (chain_result apply_fn apply_handler r then_ else_) /\
      swallowed h1 = swallowed h /\ blocked h1 = blocked h /\ out_of_fuel h1 = out_of_fuel h.
Proof. exact chain_done. Qed.
Print Assumptions C08_chain_done.

Theorem C08_chain_plain :
  forall apply_fn apply_handler fuel h v then_ else_,
    is_fut v = false ->
    chain apply_fn apply_handler fuel h v then_ else_ =
    (match chain_result apply_fn apply_handler (RVal v) then_ else_ with
     | RVal x => Ret x | RExn e => Raise e end, h).
Proof. exact chain_plain. Qed.
Print Assumptions C08_chain_plain.

(* unwrap_future over a finite nest s0 -> s1 -> ... -> sn (each future resolving
   to the next, the last to a plain value or a failure), members completed in
   any order: the outer future stays pending until every member has completed
   and then holds the innermost value / the failure; the callback recursion
   terminates (fuel length+2), nothing is swallowed, nothing blocks *)
Theorem C08_unwrap :
  forall apply_fn apply_handler fuel h res ss sigma,
    is_nest res ss -> NoDup ss ->
    (forall s, In s ss -> futs h s = Pending [] /\ s < next_fid h) ->
    length ss + 1 < fuel -> NoDup sigma -> incl sigma ss ->
    exists h1,
      unwrap apply_fn apply_handler fuel h (VFut (hd 0 ss)) = (VFut (next_fid h), h1) /\
      let hs := fold_left (fun h f => complete apply_fn apply_handler fuel h f (res f)) sigma h1 in
      ((forall s, In s ss -> In s sigma) -> futs hs (next_fid h) = Done (final res ss)) /\
      ((exists s, In s ss /\ ~ In s sigma) -> futs hs (next_fid h) = Pending []) /\
      same_meta h hs.
Proof. exact unwrap_all_orders. Qed.
Print Assumptions C08_unwrap.

(* the same for a nest some of whose members are already finished when
   unwrap_future is called *)
Theorem C08_unwrap_mixed :
  forall apply_fn apply_handler fuel h res (was_done : fid -> bool) ss sigma,
    is_nest res ss -> NoDup ss ->
    (forall s, In s ss -> futs h s = (if was_done s then Done (res s) else Pending []) /\ s < next_fid h) ->
    length ss + 1 < fuel -> NoDup sigma -> incl sigma (filter (fun s => negb (was_done s)) ss) ->
    exists h1,
      unwrap apply_fn apply_handler fuel h (VFut (hd 0 ss)) = (VFut (next_fid h), h1) /\
      let hs := fold_left (fun h f => complete apply_fn apply_handler fuel h f (res f)) sigma h1 in
      ((forall s, In s ss -> was_done s = true \/ In s sigma) -> futs hs (next_fid h) = Done (final res ss)) /\
      ((exists s, In s ss /\ was_done s = false /\ ~ In s sigma) -> futs hs (next_fid h) = Pending []) /\
      same_meta h hs.
Proof. exact unwrap_mixed_orders. Qed.
Print Assumptions C08_unwrap_mixed.

(* ---- layer 2 ----
   In a program [defer = Some (n, e)] says that the first e of the n+1 calls a
   resolver submits complete before submit returns, so the theorems below hold
   for every choice of calls that finish "eagerly" as well as for every order
   of the others. *)

(* for every admissible complete schedule the final data is the blocking
   (depth-first, BlockingExecutor) data, nothing is left running, and the log --
   resolver events and field errors -- is a permutation of the blocking log; in
   particular the errors are a permutation of the blocking errors *)
Theorem C08_confluence :
  forall sigma pr s v es,
    run sigma pr = Some s -> pending (ms s) = [] -> bs_prog pr = (Some v, es) ->
    term s = Val v /\ orphans (ms s) = [] /\
    Permutation (log (ms s)) es /\
    Permutation (errs_of (log (ms s))) (errs_of es).
Proof.
  intros sigma pr s v es H Hp Hb.
  destruct (run_confluent sigma pr s v es H Hp Hb) as (A & B & C).
  repeat split; try assumption. apply Permutation_filter. exact C.
Qed.
Print Assumptions C08_confluence.

(* once every submitted task has completed the result is there (a value or a
   failure) and no abandoned computation is still waiting *)
Theorem C08_termination :
  forall sigma pr s, run sigma pr = Some s -> pending (ms s) = [] -> terminal s.
Proof. exact run_terminates. Qed.
Print Assumptions C08_termination.

(* when the blocking execution fails with an unexpected exception, every
   complete schedule ends in a failure -- never in data -- carrying one of the
   exceptions that were raised in that run *)
Theorem C08_unexpected :
  forall sigma pr s es,
    run sigma pr = Some s -> pending (ms s) = [] -> bs_prog pr = (None, es) ->
    exists x, term s = Exn x /\ In x (raised (ms s)).
Proof. exact run_unexpected. Qed.
Print Assumptions C08_unexpected.

(* the blocking configurations: on BlockingRuntime nothing is deferred (the
   program is [erase_prog pr]); the generic executor then needs no completion at
   all and returns the data and the errors of the depth-first BlockingExecutor
   semantics of the original program -- the same ones every deferred schedule
   ends with (C08_confluence) *)
Theorem C08_blocking_configs :
  forall pr v es,
    bs_prog pr = (Some v, es) ->
    let s := start (erase_prog pr) in
    run [] (erase_prog pr) = Some s /\ pending (ms s) = [] /\ term s = Val v /\
    Permutation (errs_of (log (ms s))) (errs_of es).
Proof. exact blocking_runtime_agrees. Qed.
Print Assumptions C08_blocking_configs.

Theorem C08_blocking_configs_fail :
  forall pr es,
    bs_prog pr = (None, es) ->
    let s := start (erase_prog pr) in
    pending (ms s) = [] /\ exists x, term s = Exn x /\ In x (raised (ms s)).
Proof. exact blocking_runtime_fails. Qed.
Print Assumptions C08_blocking_configs_fail.

(* ---- existence: the theorems above are vacuous for no program ---- *)

(* while some submitted task is pending there is an admissible next step *)
Theorem C08_progress :
  forall s, pending (ms s) <> [] -> exists t s', In t (pending (ms s)) /\ step s t = Some s'.
Proof. exact progress. Qed.
Print Assumptions C08_progress.

(* every admissible schedule is at most as long as the number of resolver calls
   the program can hand to the runtime (its deferred fields, with their nesting
   levels, over all list items): repeated stepping terminates *)
Theorem C08_schedule_bounded :
  forall sigma pr s, run sigma pr = Some s -> length sigma <= wt_prog pr.
Proof. exact schedule_bounded. Qed.
Print Assumptions C08_schedule_bounded.

(* every program has an admissible complete schedule *)
Theorem C08_complete_schedule_exists :
  forall pr, exists sigma s, run sigma pr = Some s /\ pending (ms s) = [] /\ length sigma <= wt_prog pr.
Proof. exact complete_schedule_exists. Qed.
Print Assumptions C08_complete_schedule_exists.

(* ---- the link between the layers, per combinator as layer 2 uses it ----
   (what remains assumed is listed at the top of Proofs/RuntimeRefineProofs.v) *)

(* gather_futures refines to the layer-2 Gather node: for every set of sources
   already finished when it is called and every completion sequence of the
   others, the state of [outer] in the layer-1 heap is the image (abs_fstate) of
   the state the layer-2 node reaches when the same children are completed in
   the same order by gnode_step = gather_norm after the child became done, which
   is what [fire] does at a Gather node *)
Theorem C08_refine_gather :
  forall apply_fn apply_handler fuel h source results (was_done : fid -> bool) sigma,
    3 <= fuel ->
    fids_of source <> [] -> NoDup (fids_of source) ->
    (forall f, In f (fids_of source) ->
       futs h f = (if was_done f then Done (results f) else Pending []) /\ f < next_fid h) ->
    blocked h = false -> out_of_fuel h = false ->
    NoDup sigma -> incl sigma (filter (fun f => negb (was_done f)) (fids_of source)) ->
    exists outer h1,
      gather apply_fn apply_handler fuel h source = (Ret (VFut outer), h1) /\
      let hs := fold_left (fun h f => complete apply_fn apply_handler fuel h f (results f)) sigma h1 in
      let donel := filter was_done (fids_of source) in
      fold_left (gnode_step results) sigma (gnode_norm (children results source donel)) =
      abs_fstate (futs hs outer) (children results source (donel ++ sigma)).
Proof. exact gather_refines. Qed.
Print Assumptions C08_refine_gather.

Theorem C08_refine_gather_fire :
  forall t ds st, fire t (Gather ds) st = let '(ds', st1) := fire_list t ds st in gather_norm ds' st1.
Proof. exact fire_at_gather. Qed.
Print Assumptions C08_refine_gather_fire.

(* chain refines to the layer-2 Bind node: the result C08_chain / C08_chain_done
   give the target, read as a term, is the Bind transition (value: the
   continuation runs; failure: it propagates) whenever the continuation k2 is the
   abstraction of then_; with resolve_field's else_ clause a handled exception
   (ResolverError) becomes the handler's value and any other one propagates *)
Theorem C08_refine_chain :
  forall apply_fn apply_handler r then_ (k2 : val -> D),
    (forall v, r2 (apply_fn then_ v) = k2 (v2 v)) ->
    r2 (chain_result apply_fn apply_handler r then_ None) = bind2 (r2 r) k2.
Proof. exact chain_refines_plain. Qed.
Print Assumptions C08_refine_chain.

Theorem C08_refine_chain_else :
  forall apply_fn apply_handler n then_ hd els,
    chain_result apply_fn apply_handler (RExn (EUser n true)) then_ (Some hd) =
      RVal (apply_handler hd (EUser n true)) /\
    chain_result apply_fn apply_handler (RExn (EUser n false)) then_ els = RExn (EUser n false).
Proof.
  intros. split; [apply chain_refines_handled|apply chain_refines_unhandled].
Qed.
Print Assumptions C08_refine_chain_else.

(* unwrap_future refines to a layer-2 Task with nesting levels: completing the
   first j members of the nest (the only orders layer 2 admits, the next level
   being submitted when the previous one completes) leaves [outer] pending exactly
   as long as the layer-2 node is not a value *)
Theorem C08_refine_unwrap :
  forall apply_fn apply_handler fuel h res ss j,
    is_nest res ss -> NoDup ss ->
    (forall s, In s ss -> futs h s = Pending [] /\ s < next_fid h) ->
    length ss + 1 < fuel -> j <= length ss ->
    exists h1,
      unwrap apply_fn apply_handler fuel h (VFut (hd 0 ss)) = (VFut (next_fid h), h1) /\
      let hs := fold_left (fun h f => complete apply_fn apply_handler fuel h f (res f)) (firstn j ss) h1 in
      let node := fst (fold_left (fun ds u => fire u (fst ds) (snd ds))
                                 (firstn j (level_tids ([], O) (length ss - 1)))
                                 (Task ([], O) (length ss - 1), st0)) in
      (j = length ss -> futs hs (next_fid h) = Done (final res ss) /\ node = Val VNull) /\
      (j < length ss -> futs hs (next_fid h) = Pending [] /\ is_done node = false).
Proof. exact unwrap_refines. Qed.
Print Assumptions C08_refine_unwrap.

(* ---- non-vacuity ---- *)
Local Open Scope N_scope.
Example C08_example_confluence :
  let leaf k d z := Fld k d false (BInt z) in
  let pr := Prog false (FCons (Fld 0 (Some (O, O)) false (BObj (FCons (leaf 1 (Some (1%nat, O)) 11%Z) (FCons (leaf 2 None 12%Z) FNil))))
                       (FCons (Fld 3 (Some (O, O)) true BErr) (FCons (leaf 4 (Some (O, O)) 14%Z) FNil))) in
  let sigma := [([4], O); ([0], O); ([0; 1], O); ([3], O); ([0; 1], 1%nat)] in
  match run sigma pr with
  | Some s => pending (ms s) = [] /\
              term s = Val (VObj [(0, VObj [(1, VInt 11); (2, VInt 12)]); (3, VNull); (4, VInt 14)]) /\
              fst (bs_prog pr) = Some (VObj [(0, VObj [(1, VInt 11); (2, VInt 12)]); (3, VNull); (4, VInt 14)])
  | None => False
  end.
Proof. vm_compute. repeat split. Qed.

Example C08_example_unexpected :
  let pr := Prog false (FCons (Fld 0 (Some (O, O)) false (BExn 7)) (FCons (Fld 1 (Some (O, O)) false (BExn 8))
                       (FCons (Fld 2 (Some (O, O)) false (BInt 1%Z)) FNil))) in
  fst (bs_prog pr) = None /\
  match run [([1], O); ([2], O); ([0], O)] pr with
  | Some s => pending (ms s) = [] /\ term s = Exn 8 /\ raised (ms s) = [8; 7]
  | None => False
  end.
Proof. vm_compute. repeat split. Qed.

(* a call that fails before its sibling is gathered: the gathered future fails
   at once and the sibling's later completion is harmless *)
Example C08_example_eager_failure :
  let pr := Prog false (FCons (Fld 0 (Some (O, 1%nat)) false (BExn 7))
                       (FCons (Fld 1 (Some (O, O)) false (BInt 1%Z)) FNil)) in
  fst (bs_prog pr) = None /\
  term (start pr) = Exn 7 /\ pending (ms (start pr)) = [([1], O)] /\
  match run [([1], O)] pr with
  | Some s => pending (ms s) = [] /\ term s = Exn 7 /\ orphans (ms s) = []
  | None => False
  end.
Proof. vm_compute. repeat split. Qed.

Example C08_example_gather :
  let h0 := snd (new_future (snd (new_future (snd (new_future empty_heap))))) in
  let results := fun f => match f with 1%nat => RExn (EUser 5 false) | _ => RVal (VBase 9) end in
  let '(_, h1) := gather (fun _ v => RVal v) (fun _ _ => VBase 0) 5 h0 [VFut 0%nat; VBase 3; VFut 1%nat; VFut 2%nat] in
  let hs := fold_left (fun h f => complete (fun _ v => RVal v) (fun _ _ => VBase 0) 5 h f (results f)) [2; 1; 0]%nat h1 in
  futs hs 3%nat = Done (RExn (EUser 5 false)) /\ length (swallowed hs) = 1%nat.
Proof. vm_compute. split; reflexivity. Qed.
