(* C02 -- parsed trees mirror the source: structure, decoded values and spans.
   Statements only; proofs are in Proofs/*.v.
   Model: Lang/Lexer.v, Lang/BlockString.v, Lang/Parser.v.
   Specs: Spec/LexSpec.v, Spec/GrammarSpec.v, Spec/LocSpec.v. *)
(* the bytes-source vocabulary first, so that the names below win *)
From PyGql Require Import Lang.Utf8 Lang.Source Proofs.Utf8Proofs.
From PyGql Require Import Lang.Parser Spec.LexSpec Spec.GrammarSpec Spec.LocSpec
  Proofs.BlockStringProofs Proofs.LexProofs Proofs.VerbatimProofs Proofs.ParserTop
  Proofs.GrammarProofs Proofs.EntryProofs Spec.DocGrammarSpec Proofs.DocEntryProofs
  Spec.SdlGrammarSpec Proofs.SdlEntryProofs Spec.ReparseSpec Proofs.ReparseProofs
  Proofs.SpanOrderProofs Proofs.SpansFull Proofs.ReparseDefProofs
  Spec.ReparseSdlSpec Proofs.ReparseSdlProofs Spec.SubNodeSpec Proofs.SubNodeProofs.

(* ---- literal decoding ---- *)

(* The model of parse_block_string (repaired) computes BlockStringValue() of
   spec 2.9.4 for every raw string: only LF, CR, CRLF end lines, only space
   and tab count as indentation or make a line blank. *)
Theorem C02_block_string : forall raw, block_string_model raw = block_string_value raw.
Proof. exact block_string_model_correct. Qed.
Print Assumptions C02_block_string.

(* U+2028, U+0085 and U+00A0 are ordinary characters of a block string *)
Example C02_block_string_example :
  (* "\n    a" U+2028 "b\n  " U+00A0 "c" U+0085 "\n    d\n  " *)
  block_string_value [10; 32; 32; 32; 32; 97; 8232; 98; 10; 32; 32; 160; 99; 133; 10;
                      32; 32; 32; 32; 100; 10; 32; 32]%N
  = [32; 32; 97; 8232; 98; 10; 160; 99; 133; 10; 32; 32; 100]%N.
Proof. vm_compute. reflexivity. Qed.

(* A quoted string is read exactly when the text up to the closing quote is a
   sequence of StringCharacters, and its value is the one the StringValue
   semantics assigns (escapes, \uXXXX with four hexadecimal digits). *)
Theorem C02_escapes : forall rest pos v r' e,
  read_string rest pos [] = Ok (v, r', e) <->
  exists raw, rest = raw ++ 34%N :: r' /\ string_body raw v /\ e = pos + length raw + 1.
Proof. exact string_decoding_iff. Qed.
Print Assumptions C02_escapes.

(* The raw body of a block string is read exactly when the text after the
   opening delimiter is a sequence of BlockStringCharacters followed by the
   closing triple quote (the look-ahead exclusions seeing the whole rest of the
   text), backslash + triple quote standing for a triple quote and every other
   character for itself; the token value is BlockStringValue of that body
   (C02_block_string). *)
Theorem C02_block_body : forall rest pos raw r' e,
  read_block rest pos [] = Ok (raw, r', e) <->
  block_scan rest raw r' /\ e = pos + (length rest - length r').
Proof. exact block_body_iff. Qed.
Print Assumptions C02_block_body.

(* An Integer / Float token carries verbatim the characters of the source it
   spans, and they form an IntValue / a FloatValue. *)
Theorem C02_numbers_verbatim : forall rest pos t r',
  next_token rest pos = Ok (t, r') -> tk t = KInt \/ tk t = KFloat ->
  rest = tval t ++ r' /\ tstart t = pos /\ tend t = pos + length (tval t) /\
  (tk t = KInt -> IntValue (tval t)) /\ (tk t = KFloat -> FloatValue (tval t)) /\
  follow_impl (match tk t with KFloat => true | _ => false end) r'.
Proof. exact number_token_verbatim. Qed.
Print Assumptions C02_numbers_verbatim.

(* ---- shape and spans ---- *)

(* Standalone values: the tree returned is the tree of a derivation of Value
   from the token sequence between SOF and EOF.  In Spec/GrammarSpec.v every
   node of a derivation carries exactly the span of the tokens it derives
   (start of the first, end of the last; absent when no_location), node kinds,
   names and the order of list items and object fields are those of the
   tokens, and literal nodes carry the token values. *)
Theorem C02_shape_value : forall fl s v,
  parse_value_str fl s = Ok v ->
  exists ts body, lex s = Ok ts /\ whole ts body /\ D_value (no_location fl) false body v.
Proof. exact parse_value_str_sound. Qed.
Print Assumptions C02_shape_value.

Theorem C02_shape_type : forall fl s t,
  parse_type_str fl s = Ok t ->
  exists ts body, lex s = Ok ts /\ whole ts body /\ D_type (no_location fl) body t.
Proof. exact parse_type_str_sound. Qed.
Print Assumptions C02_shape_type.

(* Executable documents: the tree returned is the tree of a Document
   derivation of the token list.  Every node of a derivation -- document,
   operation, fragment, variable definition, selection set, field, spread,
   inline fragment, argument, directive, name, type, value -- carries as loc
   exactly (start of the first token it derives, end of the last one), absent
   under no_location; kinds, names, operation kinds and the order of
   definitions, selections, arguments, variables, directives and values are
   those of the tokens.  This is the "spans" and "shape" clause at full
   strength for the executable language. *)
Theorem C02_shape_document : forall fl s d,
  allow_type_system fl = false ->
  parse_document fl s = Ok d ->
  exists ts, lex s = Ok ts /\ D_document_exec (no_location fl) (fragment_variables fl) ts d.
Proof. exact parse_document_exec_sound. Qed.
Print Assumptions C02_shape_document.

(* The same for every document, type-system definitions and extensions
   included (descriptions, field / argument / input value / enum value
   definitions, operation type definitions, implements and union member lists,
   directive locations): the tree is a derivation's tree, so every node carries
   exactly the span of its tokens. *)
Theorem C02_shape_document_full : forall fl s d,
  parse_document fl s = Ok d ->
  exists ts, lex s = Ok ts /\
    D_document (no_location fl) (fragment_variables fl) (allow_type_system fl) ts d.
Proof. exact parse_document_sound_full. Qed.
Print Assumptions C02_shape_document_full.

(* ---- the spanned text parses back to an equal node ---- *)

(* Whenever a segment seg of the token list of an accepted text derives a value
   (every Value / Variable node of every tree is the tree of such a segment,
   see the shape theorems), the text from the start of its first token to the
   end of its last token, parsed by parse_value, gives the same node with all
   spans moved to start at 0 -- for every flag triple, for Const and non-Const
   positions.  Likewise for types and parse_type.  (Lexer locality is proved on
   the declarative lexical grammar.) *)
Theorem C02_reparse_value : forall fl s ts pre seg post c v,
  lex s = Ok ts -> ts = pre ++ seg ++ post -> D_value (no_location fl) c seg v ->
  parse_value_str fl (substring s (seg_start seg) (seg_end seg))
  = Ok (shift_value (seg_start seg) v).
Proof. exact reparse_value. Qed.
Print Assumptions C02_reparse_value.

Theorem C02_reparse_type : forall fl s ts pre seg post t,
  lex s = Ok ts -> ts = pre ++ seg ++ post -> D_type (no_location fl) seg t ->
  parse_type_str fl (substring s (seg_start seg) (seg_end seg))
  = Ok (shift_ty (seg_start seg) t).
Proof. exact reparse_type. Qed.
Print Assumptions C02_reparse_type.

(* Definitions: the text an operation or fragment definition spans (a segment
   of the token list deriving ExecutableDefinition) parses back, as a document,
   to exactly that one definition with all spans moved to offset 0. *)
Theorem C02_reparse_exec_definition : forall fl s ts pre seg post d,
  lex s = Ok ts -> ts = pre ++ seg ++ post ->
  D_executable_definition (no_location fl) (fragment_variables fl) seg d ->
  exists l, parse_document fl (substring s (seg_start seg) (seg_end seg))
            = Ok (Doc [shift_exec_def (seg_start seg) d] l).
Proof. exact reparse_exec_definition. Qed.
Print Assumptions C02_reparse_exec_definition.

(* The same for definition nodes of EVERY class (operations, fragments, and all
   type-system definitions and extensions): a segment of the token list
   deriving Definition parses back to exactly that one definition, spans moved
   to offset 0 (shift_def, Spec/ReparseSdlSpec.v). *)
Theorem C02_reparse_definition : forall fl s ts pre seg post d,
  lex s = Ok ts -> ts = pre ++ seg ++ post ->
  D_definition (no_location fl) (fragment_variables fl) (allow_type_system fl) seg d ->
  exists l, parse_document fl (substring s (seg_start seg) (seg_end seg))
            = Ok (Doc [shift_def (seg_start seg) d] l).
Proof. exact reparse_definition. Qed.
Print Assumptions C02_reparse_definition.

(* ... and stated on the returned tree alone: with locations enabled every
   definition node d of an accepted document has a loc (a, b), and the text
   s[a:b] parses under the same flags to the document whose only definition is
   d with every span moved by a. *)
Theorem C02_reparse_span_definitions : forall fl s doc,
  parse_document fl s = Ok doc -> no_location fl = false ->
  forall d, In d (doc_defs doc) ->
  exists a b l, def_loc d = Some (a, b)
    /\ parse_document fl (substring s a b) = Ok (Doc [shift_def a d] l).
Proof. exact reparse_document_definitions_loc. Qed.
Print Assumptions C02_reparse_span_definitions.

(* The re-parse law over the SUB-NODES of a returned tree (Spec/SubNodeSpec.v:
   nodes_doc lists every Value / Variable / StringValue node and every Type
   node occurring anywhere in the document -- arguments, default values,
   directives, variable definitions, type conditions, field / argument / input
   field types, interfaces, union members, operation types, descriptions, list
   and object members, inner types -- recursively).  With locations on, each
   such node has a loc (a, b) and s[a:b] goes through parse_value / parse_type
   to exactly that node with every span moved by a. *)
Theorem C02_reparse_subnodes_document : forall fl s doc,
  parse_document fl s = Ok doc -> no_location fl = false ->
  (forall v, In (NV v) (nodes_doc doc) ->
     exists a b, value_loc v = Some (a, b) /\ parse_value_str fl (substring s a b) = Ok (shift_value a v))
  /\ (forall t, In (NT t) (nodes_doc doc) ->
     exists a b, ty_loc t = Some (a, b) /\ parse_type_str fl (substring s a b) = Ok (shift_ty a t)).
Proof. exact reparse_subnodes_document. Qed.
Print Assumptions C02_reparse_subnodes_document.

(* the same below a value returned by parse_value and a type returned by parse_type *)
Theorem C02_reparse_subnodes_value_type : forall fl s, no_location fl = false ->
  (forall v0, parse_value_str fl s = Ok v0 -> forall v, In (NV v) (sub_value v0) ->
     exists a b, value_loc v = Some (a, b) /\ parse_value_str fl (substring s a b) = Ok (shift_value a v))
  /\ (forall t0, parse_type_str fl s = Ok t0 -> forall t, In (NT t) (sub_ty t0) ->
     exists a b, ty_loc t = Some (a, b) /\ parse_type_str fl (substring s a b) = Ok (shift_ty a t)).
Proof.
  intros fl s Hnl. split; [intros v0 H; exact (reparse_subnodes_value fl s v0 H Hnl)
                          |intros t0 H; exact (reparse_subnodes_type fl s t0 H Hnl)].
Qed.
Print Assumptions C02_reparse_subnodes_value_type.

(* A bytes source (Lang/Source.v, Lang/Utf8.v: strict UTF-8 decoding as
   bytes.decode("utf8") does it, a BOM kept as U+FEFF).  Decoding inverts
   encoding on every text of Unicode scalar values; hence the UTF-8 bytes of a
   text give the text itself as `source` and the same outcome -- the same tree
   with the same locs, which are offsets into the decoded text -- or the same
   rejection, for parse / parse_value / parse_type under every flag triple. *)
Theorem C02_utf8_roundtrip : forall s, Forall scalar s ->
  decode_utf8 (encode_utf8 s) = Some s /\ Forall is_byte (encode_utf8 s).
Proof. intros s H. split; [exact (decode_encode s H)|exact (encode_bytes s H)]. Qed.
Print Assumptions C02_utf8_roundtrip.

Theorem C02_bytes_like_text : forall fl s, Forall scalar s ->
  source_text (encode_utf8 s) = Some s
  /\ parse_document_bytes fl (encode_utf8 s) = parse_document fl s
  /\ parse_value_bytes fl (encode_utf8 s) = parse_value_str fl s
  /\ parse_type_bytes fl (encode_utf8 s) = parse_type_str fl s.
Proof. exact bytes_like_text. Qed.
Print Assumptions C02_bytes_like_text.

(* With positions disabled no node of the tree has a loc (documents, values,
   types; every flag combination otherwise). *)
Theorem C02_no_location : forall fl s, no_location fl = true ->
  match parse_document fl s with Ok d => q_doc loc_absent d | _ => True end
  /\ match parse_value_str fl s with Ok v => q_value loc_absent v | _ => True end
  /\ match parse_type_str fl s with Ok t => q_ty loc_absent t | _ => True end.
Proof. exact no_location_trees. Qed.
Print Assumptions C02_no_location.

(* Token offsets increase along the token list and stay inside the text: the
   span mkloc of ANY non-empty segment of the token list of a text is ordered
   and inside the text (present exactly when positions are enabled).  By the
   shape theorems every loc of every node is the mkloc of such a segment. *)
Theorem C02_segment_span_ok : forall nl s ts pre seg post,
  lex s = Ok ts -> ts = pre ++ seg ++ post -> seg <> [] ->
  loc_span_ok nl (length s) (mkloc nl seg).
Proof. exact segment_span_ok. Qed.
Print Assumptions C02_segment_span_ok.

(* full strength for documents: every loc is present exactly when enabled,
   ordered and inside the text *)
Definition C02_spans_full : Prop := forall fl s d,
  parse_document fl s = Ok d -> q_doc (loc_span_ok (no_location fl) (length s)) d.

(* ... and it holds: by induction over all derivation rules of D_document
   (executable and type-system), every loc of every node of every class is the
   mkloc of the non-empty token segment the node derives, hence present exactly
   when positions are enabled, ordered, and inside the text. *)
Theorem C02_spans_full_proved : C02_spans_full.
Proof. exact spans_full. Qed.
Print Assumptions C02_spans_full_proved.

Theorem C02_spans_full_value_type : forall fl s,
  match parse_value_str fl s with Ok v => q_value (loc_span_ok (no_location fl) (length s)) v | _ => True end
  /\ match parse_type_str fl s with Ok t => q_ty (loc_span_ok (no_location fl) (length s)) t | _ => True end.
Proof.
  intros fl s. split.
  - destruct (parse_value_str fl s) eqn:E; auto. apply spans_full_value. exact E.
  - destruct (parse_type_str fl s) eqn:E; auto. apply spans_full_type. exact E.
Qed.
Print Assumptions C02_spans_full_value_type.

(* proved for documents: both offsets of every loc of every node lie inside
   the text.  (For values and types C02_shape_* gives the exact spans.) *)
Theorem C02_spans_partial : forall fl s,
  match parse_document fl s with Ok d => q_doc (loc_within (length s)) d | _ => True end
  /\ match parse_value_str fl s with Ok v => q_value (loc_within (length s)) v | _ => True end
  /\ match parse_type_str fl s with Ok t => q_ty (loc_within (length s)) t | _ => True end.
Proof. exact spans_within_text. Qed.
Print Assumptions C02_spans_partial.

(* non-vacuity *)
Local Open Scope string_scope.
Example C02_example :
  let fl := Flags false false false in
  parse_value_str fl (str_of_string "[1.50, ""aA\n""]")
  = Ok (VList [VFloat (str_of_string "1.50") (Some (1, 5));
               VString [97; 65; 10]%N false (Some (7, 13))] (Some (0, 14)))
  /\ parse_type_str (Flags true false false) (str_of_string "[T]!")
     = Ok (TNonNull (TList (TNamed (Name (str_of_string "T") None) None) None) None).
Proof. vm_compute. split; reflexivity. Qed.
