(* C15 -- introspection reports exactly the schema.
   Statements only; proofs are in Proofs/IntrospectProofs.v.
   Model: Schema/IntrospectModel.v.  Spec: Spec/IntrospectSpec.v. *)
From PyGql Require Exec.ExecModel Proofs.IntrospectExecProofs Exec.IntrospectSwitch Proofs.IntrospectSwitchProofs.
From PyGql Require Import Spec.IntrospectSpec Proofs.IntrospectProofs.
From Coq Require Import Sorting.Permutation Sorting.Sorted.

(* Deprecated members are hidden unless requested: in the answer of the
   introspection query, the entry of every type of the schema lists, under
   "fields" / "enumValues", exactly the non-deprecated fields / enum values
   in declaration order when includeDeprecated is false, and all of them in
   declaration order when it is true. *)
Theorem C15_deprecated_filter : forall (s : ischema pv) fl types t,
  schema_part (S_ "types") (introspect_model s fl) = Some types ->
  NoDup (map t_name (s_types s)) -> In t (s_types s) ->
  exists ans, answer_named (t_name t) types = Some ans /\
    (forall fs, (exists ifs, t_def t = IObject fs ifs) \/ t_def t = IInterface fs ->
        member_names (S_ "fields") ans =
        Some (map f_name (if include_deprecated fl then fs else filter (fun f => negb (f_deprecated f)) fs))) /\
    (forall vs, t_def t = IEnum vs ->
        member_names (S_ "enumValues") ans =
        Some (map ev_name (if include_deprecated fl then vs else filter (fun v => negb (ev_deprecated v)) vs))).
Proof. exact deprecated_filter_answer. Qed.
Print Assumptions C15_deprecated_filter.

(* The answer does not depend on how the schema was built: permuting the
   type registry and the directive registry (names being unique) leaves the
   whole answer tree unchanged. Everything else is in declaration order
   (C15_deprecated_filter, C15_exact_partial). *)
Theorem C15_order : forall (s s' : ischema pv) fl,
  Permutation (s_types s) (s_types s') -> Permutation (s_directives s) (s_directives s') ->
  NoDup (map t_name (s_types s)) -> NoDup (map dr_name (s_directives s)) ->
  s_query s = s_query s' -> s_mutation s = s_mutation s' -> s_subscription s = s_subscription s' ->
  introspect_model s fl = introspect_model s' fl.
Proof. exact introspect_order_invariant. Qed.
Print Assumptions C15_order.

(* What is sorted: the names reported under "types" and "directives" are the
   schema's, sorted by name (code-point order); "possibleTypes" of an
   interface / union are its implementing object types / members, sorted. *)
Theorem C15_sorted : forall (s : ischema pv) fl,
  (exists l, obind_ (schema_part (S_ "types") (introspect_model s fl)) names_of = Some l /\
             StronglySorted str_le l /\ Permutation l (map t_name (s_types s))) /\
  (exists l, obind_ (schema_part (S_ "directives") (introspect_model s fl)) names_of = Some l /\
             StronglySorted str_le l /\ Permutation l (map dr_name (s_directives s))) /\
  (forall t l, possible_types (s_types s) t = Some l ->
     member_names (S_ "possibleTypes") (full_type fl (s_types s) t) = Some l /\ StronglySorted str_le l /\
     (forall n, In n l <-> match t_def t with
                           | IUnion ms => In n ms
                           | IInterface _ => exists o, In o (s_types s) /\ t_name o = n /\
                                                       implements (t_name t) o = true
                           | _ => False end)).
Proof.
  intros s fl. split; [|split].
  - exists (map t_name (sorted_types s)). split; [apply reported_type_names|].
    destruct (reported_types_sorted s) as [H1 H2]. split; [exact H1|apply Permutation_map; exact H2].
  - exists (map dr_name (sorted_directives s)). split; [apply reported_directive_names|].
    destruct (reported_directives_sorted s) as [H1 H2]. split; [exact H1|apply Permutation_map; exact H2].
  - intros t l H. split; [apply reported_possible_types; exact H|apply possible_types_sorted; exact H].
Qed.
Print Assumptions C15_sorted.

(* Exactness: reading the answer of the standard introspection query back
   yields precisely the public part of the schema -- for every schema whose
   type references fit the seven ofType levels of the query and none of whose
   defaults is in an open-finding class ([default_okb]: not enum-typed, not
   input-object-typed, not a top-level string needing an escape, not a list
   containing a string with a character above U+FFFF -- and denotable: no
   dict at a scalar-typed position, floats finite).  Covered: null, booleans,
   integers, floats, escape-free strings, and arbitrarily nested lists of
   null / booleans / integers / floats / strings (JSON-escaped, characters
   up to U+FFFF) at scalar-typed positions. *)
Theorem C15_exact_partial : forall s,
  schema_ok true s -> decode (introspect_model s full_flags) = Some (public s).
Proof. exact decode_introspect_exact. Qed.
Print Assumptions C15_exact_partial.

(* The guard is decidable: the boolean function [schema_okb] decides it. *)
Theorem C15_guard_decidable : forall d s, schema_okb d s = true <-> schema_ok d s.
Proof. exact schema_okb_ok. Qed.
Print Assumptions C15_guard_decidable.

(* The full-strength statement (C15_exact_full: no restriction on defaults)
   is false of the code as it is: one schema for each of the four
   open-finding classes (enum-typed, input-object-typed, escape-needing
   string, astral string inside a list) whose reported defaultValue does not
   read back as the declared default.  Each witness's default is in its class,
   the guard rejects each witness, and accepts each once defaults are
   disregarded. *)
Theorem C15_defaults_refuted :
  (schema_ok false w_enum /\ decode (introspect_model w_enum full_flags) <> Some (public w_enum)) /\
  (schema_ok false w_input /\ decode (introspect_model w_input full_flags) <> Some (public w_input)) /\
  (schema_ok false w_string /\ decode (introspect_model w_string full_flags) <> Some (public w_string)) /\
  (schema_ok false w_astral /\ decode (introspect_model w_astral full_flags) <> Some (public w_astral)) /\
  (class_enum (s_types w_enum) (IRNamed (S_ "Color")) (PStr (S_ "RED")) = true /\
   class_input_object (s_types w_input) (IRNamed (S_ "Pt")) (PDict [(S_ "x", PInt 2)]) = true /\
   class_string_escape (s_types w_string) (IRNamed (S_ "String")) (PStr (S_ "he""llo")) = true /\
   class_astral_in_list (s_types w_astral) (IRList (IRNamed (S_ "String"))) (PList [PStr [128512%N]]) = true) /\
  (schema_okb true w_enum = false /\ schema_okb true w_input = false /\
   schema_okb true w_string = false /\ schema_okb true w_astral = false /\
   schema_okb false w_enum = true /\ schema_okb false w_input = true /\
   schema_okb false w_string = true /\ schema_okb false w_astral = true) /\
  ~ C15_exact_full.
Proof.
  exact (conj (conj w_enum_ok w_enum_refutes)
        (conj (conj w_input_ok w_input_refutes)
        (conj (conj w_string_ok w_string_refutes)
        (conj (conj w_astral_ok w_astral_refutes)
        (conj w_classes (conj w_guard_rejects exact_full_refuted)))))).
Qed.
Print Assumptions C15_defaults_refuted.

(* The ofType nesting of the standard query: a TypeRef fragment with d nested
   ofType levels reads back exactly the type references with at most d
   wrappers and nothing of a deeper one; the standard query has d = 7, so a
   valid schema with an 8-wrapper field type (no defaults at all) is not
   reported exactly, while the same schema with 7 wrappers is. *)
Theorem C15_wrapper_depth_refuted :
  (forall (ts : list (itype pv)) d t, iref_depth t <= d -> decode_ref (S d) (type_ref ts d t) = Some t) /\
  (forall (ts : list (itype pv)) d t fuel, d < iref_depth t -> decode_ref fuel (type_ref ts d t) = None) /\
  (decode (introspect_model (w_deep 8) full_flags) = None /\
   schema_okb true (w_deep 8) = false /\
   schema_okb true (w_deep 7) = true /\
   decode (introspect_model (w_deep 7) full_flags) = Some (public (w_deep 7))).
Proof. exact (conj decode_ref_type_ref (conj decode_ref_too_deep w_deep_facts)). Qed.
Print Assumptions C15_wrapper_depth_refuted.

(* __typename reports the runtime object type at every composite position:
   (1) wherever the fields of an object type [parent] are executed, every
   __typename selection answers that type's name; (2) below a field of
   composite type the selection is executed on an object type of the schema:
   the field's type itself when it is an object type, otherwise the object
   type named by the value, which must be a possible type of the abstract
   type. *)
Theorem C15_typename : forall fuel (s : ischema pv),
  (forall parent value sels r k,
     exec_sels fuel false s parent value sels = Some r ->
     In (PSTypename k) sels -> In (k, PStr (t_name parent)) r) /\
  (forall rec n sub v r,
     complete_value s rec (IRNamed n) sub v = Some (PDict r) -> v <> PNone ->
     (exists x, sub = x :: tl sub) ->
     exists ty rt, find_type n (s_types s) = Some ty /\ rec rt v sub = Some r /\ is_object rt = true /\
       (rt = ty \/ (is_abstract ty = true /\ is_possible (s_types s) ty (t_name rt) = true /\
                    exists kvs, v = PDict kvs /\
                                alookup (S_ "__typename__") kvs = Some (PStr (t_name rt))))).
Proof.
  intros fuel s. split; [apply exec_sels_typename|apply complete_value_runtime_type].
Qed.
Print Assumptions C15_typename.

(* Disabling introspection hides all of it without affecting ordinary fields:
   field_definition answers None for the three meta-fields and is unchanged
   for every other name; a response computed with the switch on is exactly
   the response of the same selection with every meta-field erased computed
   with the switch off; and on a selection without meta-fields the switch
   changes nothing. *)
Theorem C15_disabled : forall fuel (s : ischema pv),
  (forall parent n,
     (is_meta_name n = true -> field_definition true s parent n = FDNone) /\
     (is_meta_name n = false -> field_definition true s parent n = field_definition false s parent n)) /\
  (forall parent value sels r,
     forallb sel_wf sels = true ->
     exec_sels fuel true s parent value sels = Some r ->
     exec_sels fuel false s parent value (erase_meta sels) = Some r) /\
  (forall parent value sels,
     forallb sel_meta_free sels = true ->
     exec_sels fuel true s parent value sels = exec_sels fuel false s parent value sels).
Proof.
  intros fuel s. split; [|split].
  - intros; apply field_definition_switch.
  - apply exec_sels_disabled.
  - apply exec_sels_switch_irrelevant.
Qed.
Print Assumptions C15_disabled.

(* The same about __typename, against the C04 executor model
   (Exec/ExecModel.v: BlockingExecutor on real AST selections with arbitrary
   resolvers [world], custom type resolvers [tyres] and argument coercion):
   every response key whose node selects __typename carries the name of the
   object type being executed; below an object-typed field that is the field's
   type, below an abstract-typed field it is the object type resolve_type
   yields, which is a possible type of the abstract type (or the request
   fails). *)
Theorem C15_typename_exec :
  forall (sch : SchemaModel.schema)
         (coerce_args : SchemaModel.fdef -> Ast.selection -> outcome (list (str * pv)))
         (world : ExecModel.world_t) (tyres : str -> option (pv -> ExecModel.tyname_res))
         (sub_exec : str -> pv -> ExecModel.path -> list Ast.selection -> ExecModel.result),
  SchemaModel.get_type sch ExecModel.s_String = Some (SchemaModel.TScalar SchemaModel.SString) ->
  (forall node, exists a, coerce_args ExecModel.typename_fdef node = Ok a) ->
  (forall tname parent p g r errs,
     ExecModel.exec_groups sch coerce_args world tyres sub_exec tname parent p g = Ok (r, errs) ->
     forall key node nodes, In (key, node :: nodes) g -> ExecModel.sel_name node = ExecModel.s_typename ->
     In (key, PStr tname) r) /\
  (forall nodes n p v,
     (forall fs ifs, SchemaModel.get_type sch n = Some (SchemaModel.TObject fs ifs) ->
        ExecModel.complete_named sch tyres sub_exec nodes n p v = sub_exec n v p (Depth.children_of nodes)) /\
     (SchemaModel.is_abstract sch n = true ->
        (exists rt, ExecModel.resolve_type sch tyres n v = Ok rt /\
                    ExecModel.complete_named sch tyres sub_exec nodes n p v
                    = sub_exec rt v p (Depth.children_of nodes) /\
                    (exists fs ifs, SchemaModel.get_type sch rt = Some (SchemaModel.TObject fs ifs)) /\
                    exists ps, SchemaModel.possible_types sch n = Some ps /\ mem_str rt ps = true) \/
        (forall r, ExecModel.complete_named sch tyres sub_exec nodes n p v <> Ok r))).
Proof. exact IntrospectExecProofs.typename_exec. Qed.
Print Assumptions C15_typename_exec.

(* Every reported defaultValue reads back: for a default accepted by the
   decidable guard, the text _format_default_value reports parses, as GraphQL
   value syntax, to exactly the literal denoting the declared default (an
   absent default is reported null).  At a scalar-typed position the guard is:
   floats with a finite float text, every boolean / integer / null, strings
   free of characters needing an escape, and lists (nested) of denotable
   values without characters above U+FFFF. *)
Theorem C15_default_value_exact :
  (forall (ts : list (itype pv)) t d,
     match d with Some v => default_okb ts t v = true | None => True end ->
     decode_default (Some (format_default_value d)) = Some (pd_exact ts t d)) /\
  (forall (ts : list (itype pv)) t v,
     is_scalar_name ts (iref_base t) = true ->
     default_okb ts t v = match v with
                          | PStr x => forallb plain_char x
                          | PList _ => scalar_denotable v && negb (has_astral v)
                          | _ => scalar_denotable v
                          end).
Proof. exact (conj default_value_exact default_okb_scalar_position). Qed.
Print Assumptions C15_default_value_exact.

(* Completeness: whatever the default values are, everything else is reported
   exactly -- for every schema whose type references have at most 7 wrappers,
   reading the answer back with the defaults disregarded yields the schema
   with its defaults disregarded: every named type with its kind, every field,
   argument, input field (with its wrappers), enum value, interface, union
   member, directive (locations, arguments), root type, nothing missing and
   nothing added, members in declaration order.  With unique type names no
   type is listed twice, and possibleTypes / interfaces are symmetric:
   T is among the possibleTypes reported for interface I exactly when I is among
   the interfaces reported for T. *)
Theorem C15_complete :
  (forall s, schema_ok false s -> decode_shape (introspect_model s full_flags) = Some (public_shape s)) /\
  (forall s fl l, NoDup (map t_name (s_types s)) ->
     obind_ (schema_part (S_ "types") (introspect_model s fl)) names_of = Some l -> NoDup l) /\
  (forall fl (ts : list (itype pv)) I T fsI fsT ifs lp li,
     NoDup (map t_name ts) -> In T ts ->
     t_def I = IInterface fsI -> t_def T = IObject fsT ifs ->
     member_names (S_ "possibleTypes") (full_type fl ts I) = Some lp ->
     member_names (S_ "interfaces") (full_type fl ts T) = Some li ->
     (In (t_name T) lp <-> In (t_name I) li)).
Proof. exact (conj decode_shape_exact (conj reported_type_names_nodup possible_interfaces_symmetry)). Qed.
Print Assumptions C15_complete.

(* The includeDeprecated law on whole answer trees: the answer with
   includeDeprecated: false is the answer with includeDeprecated: true from
   which the entries marked isDeprecated are removed from every "fields" and
   "enumValues" list, order preserved, everything else identical -- for the
   introspection query and for __type(name:) queries; a type all of whose
   members are deprecated reports an empty list, not null. *)
Theorem C15_deprecated_law :
  (forall s d, introspect_model s (IFlags false d) = drop_deprecated (introspect_model s (IFlags true d))) /\
  (forall s d n, type_query_model s (IFlags false d) n =
                 drop_deprecated_type_query (type_query_model s (IFlags true d) n)) /\
  (forall d (ts : list (itype pv)) t,
     (forall fs, (exists ifs, t_def t = IObject fs ifs) \/ t_def t = IInterface fs ->
        forallb (fun f => f_deprecated f) fs = true ->
        getk (S_ "fields") (full_type (IFlags false d) ts t) = Some (PList [])) /\
     (forall vs, t_def t = IEnum vs -> forallb ev_deprecated vs = true ->
        getk (S_ "enumValues") (full_type (IFlags false d) ts t) = Some (PList []))).
Proof. exact (conj introspect_drop_deprecated (conj type_query_drop_deprecated all_deprecated_empty_list)). Qed.
Print Assumptions C15_deprecated_law.

(* Disabling introspection, against the C04 executor model: the executor
   [exec_sel_sw] is Exec/ExecModel.v's execute_fields loop with the switch of
   ResolutionContext.field_definition added and nothing else changed.  Switch
   off: it is the C04 executor.  Switch on: at every level the result is the
   C04 model's own group loop run on the collected groups minus those whose
   field is __typename / __schema / __type -- a refused meta-field leaves no
   key and no error and nothing of it is evaluated, every other group goes
   through the identical field_definition / resolve_field, for arbitrary
   resolvers, type resolvers, argument coercion, fragments and variables. *)
Theorem C15_disabled_exec :
  forall (sch : SchemaModel.schema) (frags : Depth.frag_table) (vs : vars)
         (coerce_args : SchemaModel.fdef -> Ast.selection -> outcome (list (str * pv)))
         (world : ExecModel.world_t) (tyres : str -> option (pv -> ExecModel.tyname_res)) (cfuel : nat),
  (forall disabled tname name,
     IntrospectSwitch.field_definition_sw sch disabled tname name =
     if disabled && IntrospectSwitch.is_meta_field name then Ok None
     else ExecModel.field_definition sch tname name) /\
  (forall fuel tname v p sels,
     IntrospectSwitch.exec_sel_sw sch frags vs coerce_args world tyres cfuel false fuel tname v p sels =
     ExecModel.exec_sel sch frags vs coerce_args world tyres cfuel fuel tname v p sels) /\
  (forall fuel tname v p sels,
     IntrospectSwitch.exec_sel_sw sch frags vs coerce_args world tyres cfuel true (S fuel) tname v p sels =
     (do g <- ExecModel.collect_for sch frags vs cfuel tname sels;
      do r <- ExecModel.exec_groups sch coerce_args world tyres
                (IntrospectSwitch.exec_sel_sw sch frags vs coerce_args world tyres cfuel true fuel)
                tname v p (IntrospectSwitch.drop_meta_groups g);
      Ok (PDict (fst r), snd r))) /\
  (forall g key node nodes,
     In (key, node :: nodes) (IntrospectSwitch.drop_meta_groups g) <->
     In (key, node :: nodes) g /\ IntrospectSwitch.is_meta_field (ExecModel.sel_name node) = false).
Proof.
  intros sch frags vs coerce_args world tyres cfuel. split; [|split; [|split]].
  - intros. apply IntrospectSwitchProofs.field_definition_sw_law.
  - apply IntrospectSwitchProofs.exec_sel_sw_off.
  - apply IntrospectSwitchProofs.exec_sel_sw_on.
  - apply IntrospectSwitchProofs.drop_meta_groups_spec.
Qed.
Print Assumptions C15_disabled_exec.

(* ---- non-vacuity ---- *)
Definition ex_iv (n : string) t d : iinput pv := IInput (S_ n) None t d.
Definition ex_schema : ischema pv :=
  ISchema [ IType (S_ "Query") (Some (S_ "root")) (IObject
              [IField (S_ "f") None [ex_iv "a" (IRNamed (S_ "Int")) (Some (PInt (-42)%Z));
                                     ex_iv "s" (IRNonNull (IRList (IRNamed (S_ "String")))) None;
                                     ex_iv "t" (IRNamed (S_ "String")) (Some (PStr (S_ "hi there")));
                                     ex_iv "n" (IRNamed (S_ "Color")) (Some PNone);
                                     ex_iv "b" (IRNamed (S_ "Boolean")) (Some (PBool true));
                                     ex_iv "fl" (IRNonNull (IRNamed (S_ "Float"))) (Some (PFloat (S_ "-1.5e-10")));
                                     ex_iv "l" (IRList (IRNonNull (IRList (IRNamed (S_ "String")))))
                                           (Some (PList [PList [PStr (S_ "a""b\c"); PNone; PStr [233%N; 10%N]];
                                                         PList []; PList [PStr []]]));
                                     ex_iv "m" (IRList (IRNamed (S_ "Float")))
                                           (Some (PList [PFloat (S_ "2.5e+20"); PInt 3; PBool false]))]
                      (IRList (IRNonNull (IRNamed (S_ "U")))) true (Some (S_ "old"));
               IField (S_ "g") (Some (S_ "gd")) [] (IRNamed (S_ "Node")) false None] []);
            IType (S_ "Int") None IScalar; IType (S_ "String") None IScalar; IType (S_ "Boolean") None IScalar;
            IType (S_ "Float") None IScalar;
            IType (S_ "Color") None (IEnum [IEnumVal (S_ "RED") None false None (PInt 1);
                                            IEnumVal (S_ "BLUE") (Some (S_ "b")) true (Some []) (PInt 2)]);
            IType (S_ "Node") None (IInterface [IField (S_ "id") None [] (IRNamed (S_ "Int")) false None]);
            IType (S_ "B") None (IObject [IField (S_ "id") None [] (IRNamed (S_ "Int")) false None] [S_ "Node"]);
            IType (S_ "A") None (IObject [IField (S_ "id") None [] (IRNamed (S_ "Int")) true (Some (S_ "x"))]
                                         [S_ "Node"]);
            IType (S_ "U") None (IUnion [S_ "B"; S_ "A"]);
            IType (S_ "In") None (IInputObject [ex_iv "x" (IRNamed (S_ "Int")) (Some (PInt 0))]) ]
          [ IDirective (S_ "zed") None [S_ "FIELD"] [];
            IDirective (S_ "auth") (Some (S_ "d")) [S_ "OBJECT"; S_ "FIELD"]
                       [ex_iv "role" (IRNamed (S_ "Int")) (Some (PInt 3))] ]
          (S_ "Query") None (Some (S_ "Query")).

(* the hypotheses of C15_exact_partial hold of a schema with all six kinds,
   defaults of every covered class (integer, float, string, boolean, null,
   nested lists with JSON-escaped strings), deprecations, a union listed out
   of order and two directives *)
Example C15_example_exact :
  schema_ok true ex_schema /\ NoDup (map t_name (s_types ex_schema)) /\
  decode (introspect_model ex_schema full_flags) = Some (public ex_schema).
Proof.
  split; [apply schema_okb_ok; vm_compute; reflexivity|]. split.
  - simpl. repeat constructor; simpl; intuition discriminate.
  - vm_compute. reflexivity.
Qed.

(* the probe executor: __typename at the root, at an object and at an
   abstract position; with the switch on the meta-fields vanish *)
Example C15_example_probe :
  let root := PDict [(S_ "g", PDict [(S_ "__typename__", PStr (S_ "A")); (S_ "id", PInt 7)])] in
  let sels := [PSTypename (S_ "__typename"); PSSchema (S_ "__schema");
               PSField (S_ "g") (S_ "g") [PSTypename (S_ "tn"); PSField (S_ "id") (S_ "id") []]] in
  probe_model 20 false false ex_schema root sels =
    Some (PDict [(S_ "__typename", PStr (S_ "Query"));
                 (S_ "__schema", PDict [(S_ "queryType", PDict [(S_ "name", PStr (S_ "Query"))])]);
                 (S_ "g", PDict [(S_ "tn", PStr (S_ "A")); (S_ "id", PInt 7)])]) /\
  probe_model 20 true false ex_schema root sels = Some (PDict [(S_ "g", PDict [(S_ "id", PInt 7)])]) /\
  forallb sel_wf sels = true.
Proof. vm_compute. repeat split; reflexivity. Qed.
