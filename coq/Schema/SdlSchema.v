(* By-name model of a py_gql Schema (schema/schema.py, schema/types.py) as far
   as build_schema / the schema printer can observe it: type references are
   wrappers over *names*, the six kinds keep their members in order, defaults
   are Python values, descriptions and deprecation reasons are optional
   strings, [python_name]s are kept, the directive nodes applied in the SDL
   (needed by the printer's include_custom_schema_directives) are kept as AST
   directives.  Identity of Python objects is not represented (C14's model
   does that). *)
From PyGql Require Export Base.Str Base.Pv Lang.Ast.

Inductive tref :=
| RNamed (n : str)
| RList (t : tref)
| RNonNull (t : tref).

(* Argument / InputField (schema/types.py InputValue) *)
Record sivalue := SIV {
  siv_name : str; siv_py : str; siv_type : tref; siv_default : option pv;
  siv_desc : option str; siv_dirs : list directive }.

(* Field: [sf_dep] is deprecation_reason ([Field.deprecated] is derived) *)
Record sfield := SF {
  sf_name : str; sf_py : str; sf_args : list sivalue; sf_type : tref;
  sf_desc : option str; sf_dep : option str; sf_dirs : list directive }.

(* EnumValue: [sev_value] is the internal Python value *)
Record sevalue := SEV {
  sev_name : str; sev_value : pv; sev_desc : option str; sev_dep : option str;
  sev_dirs : list directive }.

Inductive tdef :=
| TScalar (n : str) (d : option str) (dirs : list directive)
| TObject (n : str) (d : option str) (ifaces : list str) (fields : list sfield) (dirs : list directive)
| TInterface (n : str) (d : option str) (fields : list sfield) (dirs : list directive)
| TUnion (n : str) (d : option str) (members : list str) (dirs : list directive)
| TEnum (n : str) (d : option str) (vals : list sevalue) (dirs : list directive)
| TInput (n : str) (d : option str) (fields : list sivalue) (dirs : list directive).

Record ddef := DD {
  dd_name : str; dd_desc : option str; dd_locs : list str; dd_args : list sivalue }.

(* [s_types] / [s_ddefs] exclude the specified scalars, the introspection
   types and the specified directives, which every Schema contains. *)
Record schema := Sch {
  s_types : list tdef; s_ddefs : list ddef;
  s_query : option str; s_mutation : option str; s_subscription : option str;
  s_dirs : list directive }.

Definition tdef_name (t : tdef) : str :=
  match t with
  | TScalar n _ _ | TObject n _ _ _ _ | TInterface n _ _ _ | TUnion n _ _ _
  | TEnum n _ _ _ | TInput n _ _ _ => n
  end.

Definition tdef_dirs (t : tdef) : list directive :=
  match t with
  | TScalar _ _ d | TObject _ _ _ _ d | TInterface _ _ _ d | TUnion _ _ _ d
  | TEnum _ _ _ d | TInput _ _ _ d => d
  end.

Definition tdef_desc (t : tdef) : option str :=
  match t with
  | TScalar _ d _ | TObject _ d _ _ _ | TInterface _ d _ _ | TUnion _ d _ _
  | TEnum _ d _ _ | TInput _ d _ _ => d
  end.

Fixpoint find_type (n : str) (ts : list tdef) : option tdef :=
  match ts with
  | [] => None
  | t :: ts' => if str_eqb n (tdef_name t) then Some t else find_type n ts'
  end.

Fixpoint find_ddef (n : str) (ds : list ddef) : option ddef :=
  match ds with
  | [] => None
  | d :: ds' => if str_eqb n (dd_name d) then Some d else find_ddef n ds'
  end.

Fixpoint tref_name (t : tref) : str :=
  match t with RNamed n => n | RList t' | RNonNull t' => tref_name t' end.

(* ------------------------------------------------------------------ *)
(* decidable structural equalities                                      *)

Fixpoint leqb {A} (e : A -> A -> bool) (a b : list A) : bool :=
  match a, b with
  | [], [] => true
  | x :: a', y :: b' => e x y && leqb e a' b'
  | _, _ => false
  end.

Definition oeqb {A} (e : A -> A -> bool) (a b : option A) : bool :=
  match a, b with
  | None, None => true
  | Some x, Some y => e x y
  | _, _ => false
  end.

Fixpoint pv_eqb (a b : pv) : bool :=
  match a, b with
  | PNone, PNone => true
  | PBool x, PBool y => Bool.eqb x y
  | PInt x, PInt y => Z.eqb x y
  | PFloat x, PFloat y => str_eqb x y
  | PStr x, PStr y => str_eqb x y
  | PList x, PList y =>
      (fix go (x y : list pv) : bool :=
         match x, y with
         | [], [] => true
         | u :: x', v :: y' => pv_eqb u v && go x' y'
         | _, _ => false
         end) x y
  | PDict x, PDict y =>
      (fix go (x y : list (str * pv)) : bool :=
         match x, y with
         | [], [] => true
         | (k, u) :: x', (k', v) :: y' => str_eqb k k' && pv_eqb u v && go x' y'
         | _, _ => false
         end) x y
  | _, _ => false
  end.

(* AST values compared as Node.__eq__ does, except that locations are ignored *)
Fixpoint value_eqb (a b : value) : bool :=
  match a, b with
  | VVar n _, VVar m _ => str_eqb (n_val n) (n_val m)
  | VInt x _, VInt y _ => str_eqb x y
  | VFloat x _, VFloat y _ => str_eqb x y
  | VString x bx _, VString y by_ _ => str_eqb x y && Bool.eqb bx by_
  | VBool x _, VBool y _ => Bool.eqb x y
  | VNull _, VNull _ => true
  | VEnum x _, VEnum y _ => str_eqb x y
  | VList x _, VList y _ =>
      (fix go (x y : list value) : bool :=
         match x, y with
         | [], [] => true
         | u :: x', v :: y' => value_eqb u v && go x' y'
         | _, _ => false
         end) x y
  | VObject x _, VObject y _ =>
      (fix go (x y : list (name * value * loc)) : bool :=
         match x, y with
         | [], [] => true
         | (k, u, _) :: x', (k', v, _) :: y' =>
             str_eqb (n_val k) (n_val k') && value_eqb u v && go x' y'
         | _, _ => false
         end) x y
  | _, _ => false
  end.

Definition arg_eqb (a b : argument) : bool :=
  str_eqb (n_val (a_name a)) (n_val (a_name b)) && value_eqb (a_val a) (a_val b).

Definition dir_eqb (a b : directive) : bool :=
  str_eqb (n_val (d_name a)) (n_val (d_name b)) && leqb arg_eqb (d_args a) (d_args b).

Fixpoint tref_eqb (a b : tref) : bool :=
  match a, b with
  | RNamed x, RNamed y => str_eqb x y
  | RList x, RList y => tref_eqb x y
  | RNonNull x, RNonNull y => tref_eqb x y
  | _, _ => false
  end.

Definition siv_eqb (a b : sivalue) : bool :=
  str_eqb (siv_name a) (siv_name b) && str_eqb (siv_py a) (siv_py b)
  && tref_eqb (siv_type a) (siv_type b) && oeqb pv_eqb (siv_default a) (siv_default b)
  && oeqb str_eqb (siv_desc a) (siv_desc b) && leqb dir_eqb (siv_dirs a) (siv_dirs b).

Definition sf_eqb (a b : sfield) : bool :=
  str_eqb (sf_name a) (sf_name b) && str_eqb (sf_py a) (sf_py b)
  && leqb siv_eqb (sf_args a) (sf_args b) && tref_eqb (sf_type a) (sf_type b)
  && oeqb str_eqb (sf_desc a) (sf_desc b) && oeqb str_eqb (sf_dep a) (sf_dep b)
  && leqb dir_eqb (sf_dirs a) (sf_dirs b).

Definition sev_eqb (a b : sevalue) : bool :=
  str_eqb (sev_name a) (sev_name b) && pv_eqb (sev_value a) (sev_value b)
  && oeqb str_eqb (sev_desc a) (sev_desc b) && oeqb str_eqb (sev_dep a) (sev_dep b)
  && leqb dir_eqb (sev_dirs a) (sev_dirs b).

Definition tdef_eqb (a b : tdef) : bool :=
  match a, b with
  | TScalar n d ds, TScalar n' d' ds' =>
      str_eqb n n' && oeqb str_eqb d d' && leqb dir_eqb ds ds'
  | TObject n d i f ds, TObject n' d' i' f' ds' =>
      str_eqb n n' && oeqb str_eqb d d' && leqb str_eqb i i' && leqb sf_eqb f f'
      && leqb dir_eqb ds ds'
  | TInterface n d f ds, TInterface n' d' f' ds' =>
      str_eqb n n' && oeqb str_eqb d d' && leqb sf_eqb f f' && leqb dir_eqb ds ds'
  | TUnion n d m ds, TUnion n' d' m' ds' =>
      str_eqb n n' && oeqb str_eqb d d' && leqb str_eqb m m' && leqb dir_eqb ds ds'
  | TEnum n d v ds, TEnum n' d' v' ds' =>
      str_eqb n n' && oeqb str_eqb d d' && leqb sev_eqb v v' && leqb dir_eqb ds ds'
  | TInput n d f ds, TInput n' d' f' ds' =>
      str_eqb n n' && oeqb str_eqb d d' && leqb siv_eqb f f' && leqb dir_eqb ds ds'
  | _, _ => false
  end.

Definition ddef_eqb (a b : ddef) : bool :=
  str_eqb (dd_name a) (dd_name b) && oeqb str_eqb (dd_desc a) (dd_desc b)
  && leqb str_eqb (dd_locs a) (dd_locs b) && leqb siv_eqb (dd_args a) (dd_args b).

(* Two schemas are equivalent when they have the same named types (as a map:
   the order of [Schema.types] is not part of the comparison), the same
   directive definitions (as a map), the same roots and the same schema-level
   directive applications.  Everything *inside* a type is compared in order. *)
Definition types_sub (a b : list tdef) : bool :=
  forallb (fun t => match find_type (tdef_name t) b with
                    | Some t' => tdef_eqb t t'
                    | None => false
                    end) a.

Definition ddefs_sub (a b : list ddef) : bool :=
  forallb (fun d => match find_ddef (dd_name d) b with
                    | Some d' => ddef_eqb d d'
                    | None => false
                    end) a.

Definition schema_equiv (a b : schema) : bool :=
  types_sub (s_types a) (s_types b) && types_sub (s_types b) (s_types a)
  && Nat.eqb (length (s_types a)) (length (s_types b))
  && ddefs_sub (s_ddefs a) (s_ddefs b) && ddefs_sub (s_ddefs b) (s_ddefs a)
  && Nat.eqb (length (s_ddefs a)) (length (s_ddefs b))
  && oeqb str_eqb (s_query a) (s_query b)
  && oeqb str_eqb (s_mutation a) (s_mutation b)
  && oeqb str_eqb (s_subscription a) (s_subscription b)
  && leqb dir_eqb (s_dirs a) (s_dirs b).

(* names every schema knows (builder cache / Schema type map defaults) *)
Definition specified_scalars : list str :=
  map str_of_string ["Int"; "Float"; "String"; "Boolean"; "ID"]%string.

Definition introspection_names : list str :=
  map str_of_string ["__Schema"; "__Directive"; "__DirectiveLocation"; "__Type";
                     "__Field"; "__InputValue"; "__EnumValue"; "__TypeKind"]%string.

Definition default_type_name (n : str) : bool :=
  mem_str n specified_scalars || mem_str n introspection_names.

Definition specified_directive_names : list str :=
  map str_of_string ["include"; "skip"; "deprecated"]%string.
