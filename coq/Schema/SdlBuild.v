(* Model of py_gql.build_schema (sdl/schema_from_ast.py, sdl/ast_type_builder.py,
   schema/schema.py::_build_type_map / _build_directive_map, and a
   verdict-only model of schema/validation.py) over the by-name schema of
   Schema/SdlSchema.v.

   The code builds Python objects lazily and memoises them in
   ASTTypeBuilder._cache / _extended_cache; in the by-name model a reference
   is a name, so laziness only shows in *when* an error surfaces (phases
   below) and in the re-entrant forcing of an input type's fields, which is
   modelled explicitly ([stack] in [coerce]). *)
From PyGql Require Export Schema.SdlSchema.

Definition K_SDL : nat := 1.       (* SDLError *)
Definition K_EXT : nat := 2.       (* ExtensionError *)
Definition K_SCHEMA : nat := 3.    (* SchemaError / SchemaValidationError *)
Definition K_VALUE : nat := 4.     (* InvalidValue family (ScalarParsingError, UnknownEnumValue) *)
Definition K_COERCION : nat := 5.  (* CoercionError (directive arguments of @deprecated) *)

Definition rej {A} (k : nat) : outcome A := Rejected k 0.

Definition S_ (x : string) : str := str_of_string x.
Arguments S_ x%string.

Fixpoint omap {A B} (f : A -> outcome B) (l : list A) : outcome (list B) :=
  match l with
  | [] => Ok []
  | x :: l' => do y <- f x; do ys <- omap f l'; Ok (y :: ys)
  end.

(* ------------------------------------------------------------------ *)
(* AST -> by-name pieces                                                *)

Fixpoint tref_of (t : ty) : tref :=
  match t with
  | TNamed n _ => RNamed (n_val n)
  | TList t' _ => RList (tref_of t')
  | TNonNull t' _ => RNonNull (tref_of t')
  end.

Definition desc_of (d : option strval) : option str := option_map sv_val d.

(* ------------------------------------------------------------------ *)
(* number literals                                                      *)

Definition digit_val (c : N) : option Z :=
  if (48 <=? c)%N && (c <=? 57)%N then Some (Z.of_N (c - 48)) else None.

Fixpoint digits_to_Z (acc : Z) (s : str) : option Z :=
  match s with
  | [] => Some acc
  | c :: s' => match digit_val c with
               | Some d => digits_to_Z (acc * 10 + d)%Z s'
               | None => None
               end
  end.

(* int(text, 10) for an IntValue token: -?digits *)
Definition Z_of_str (s : str) : option Z :=
  match s with
  | 45%N :: (_ :: _) as r => option_map Z.opp (digits_to_Z 0%Z r)
  | _ :: _ => digits_to_Z 0%Z s
  | [] => None
  end.

Definition int32 (z : Z) : bool := ((-2147483648 <=? z) && (z <=? 2147483647))%Z.

(* repr(float(text)) for Int / Float tokens without exponent, up to 15
   significant digits and magnitude in [1e-4, 1e16): the decimal itself with
   trailing zeros of the fraction removed and at least one fraction digit.
   Tokens with an exponent are outside the modelled range and returned as
   they are (generators do not produce them as Float defaults). *)
Fixpoint split_dot (s : str) : str * option str :=
  match s with
  | [] => ([], None)
  | c :: s' => if (c =? 46)%N then ([], Some s')
               else let '(a, b) := split_dot s' in (c :: a, b)
  end.

Fixpoint strip_trailing_zeros (s : str) : str :=
  match s with
  | [] => []
  | c :: s' => match strip_trailing_zeros s' with
               | [] => if (c =? 48)%N then [] else [c]
               | r => c :: r
               end
  end.

Definition has_exponent (s : str) : bool := existsb (fun c => (c =? 101)%N || (c =? 69)%N) s.

Definition float_repr (s : str) : str :=
  if has_exponent s then s else
  let '(ip, fp) := split_dot s in
  let f := match fp with None => [] | Some f => strip_trailing_zeros f end in
  ip ++ [46%N] ++ (match f with [] => [48%N] | _ => f end).

(* ------------------------------------------------------------------ *)
(* literal coercion: a local, minimal value_from_ast (no variables)     *)

Inductive dsrc := DNo | DAst (v : value) | DPv (p : pv).
Record ifield := IF { if_name : str; if_py : str; if_type : tref; if_def : dsrc }.
Inductive tinfo :=
| IScalar
| IEnum (vals : list (str * pv))
| IInput (fs : list ifield)
| IOther.
Definition env := list (str * tinfo).

Definition is_nonnull (t : tref) : bool := match t with RNonNull _ => true | _ => false end.

(* {f.name.value: f for f in node.fields}: the last entry of a name wins *)
Fixpoint obj_lookup (n : str) (fs : list (name * value * loc)) : option value :=
  match fs with
  | [] => None
  | (k, v, _) :: fs' =>
      match obj_lookup n fs' with
      | Some v' => Some v'
      | None => if str_eqb n (n_val k) then Some v else None
      end
  end.

Definition coerce_scalar (n : str) (v : value) : outcome pv :=
  if str_eqb n (S_ "Int") then
    match v with
    | VInt s _ => match Z_of_str s with
                  | Some z => if int32 z then Ok (PInt z) else rej K_VALUE
                  | None => rej K_VALUE
                  end
    | _ => rej K_VALUE
    end
  else if str_eqb n (S_ "Float") then
    match v with
    | VInt s _ | VFloat s _ => Ok (PFloat (float_repr s))
    | _ => rej K_VALUE
    end
  else if str_eqb n (S_ "String") then
    match v with VString s _ _ => Ok (PStr s) | _ => rej K_VALUE end
  else if str_eqb n (S_ "Boolean") then
    match v with VBool b _ => Ok (PBool b) | _ => rej K_VALUE end
  else if str_eqb n (S_ "ID") then
    match v with VString s _ _ | VInt s _ => Ok (PStr s) | _ => rej K_VALUE end
  else (* default_scalar: number literals are Python numbers (int(text, 10),
          float(text)), strings and booleans are their value *)
    match v with
    | VInt s _ => match Z_of_str s with Some z => Ok (PInt z) | None => rej K_VALUE end
    | VFloat s _ => Ok (PFloat (float_repr s))
    | VString s _ _ => Ok (PStr s)
    | VBool b _ => Ok (PBool b)
    | _ => rej K_VALUE
    end.

(* [eager = true] is value_from_ast as the builder runs it: the first access
   of an input type's fields coerces every declared default, and doing so
   while the type is already being forced never terminates.  [eager = false]
   is the specification's reading: the default of a field matters only when
   the literal omits the field. *)
Fixpoint coerce (fuel : nat) (eager : bool) (E : env) (stack : list str) (t : tref) (v : value)
         {struct fuel} : outcome pv :=
  match fuel with
  | O => OutOfFuel
  | S f =>
    match v with
    | VVar _ _ => rej K_VALUE
    | _ =>
      match t, v with
      | RNonNull _, VNull _ => rej K_VALUE
      | RNonNull t', _ => coerce f eager E stack t' v
      | _, VNull _ => Ok PNone
      | RList t', VList vs _ => do l <- omap (coerce f eager E stack t') vs; Ok (PList l)
      | RList t', _ => do x <- coerce f eager E stack t' v; Ok (PList [x])
      | RNamed n, _ =>
        if mem_str n specified_scalars then coerce_scalar n v else
        match alookup n E with
        | Some IScalar => coerce_scalar n v
        | Some (IEnum vals) =>
            match v with
            | VEnum s _ => match alookup s vals with Some p => Ok p | None => rej K_VALUE end
            | _ => rej K_VALUE
            end
        | Some (IInput fs) =>
            match v with
            | VObject nfs _ =>
                if eager && mem_str n stack then OutOfFuel else
                do forced <- omap (fun fd =>
                    match if_def fd with
                    | DAst dv => if eager
                                 then do p <- coerce f eager E (n :: stack) (if_type fd) dv; Ok (fd, Some p)
                                 else Ok (fd, None)
                    | _ => Ok (fd, None)
                    end) fs;
                do kvs <- omap (fun '(fd, d) =>
                    match obj_lookup (if_name fd) nfs with
                    | Some fv => do p <- coerce f eager E stack (if_type fd) fv; Ok [(if_py fd, p)]
                    | None =>
                        match d with
                        | Some p => Ok [(if_py fd, p)]
                        | None =>
                            match if_def fd with
                            | DPv p => Ok [(if_py fd, p)]
                            | DAst dv => do p <- coerce f eager E stack (if_type fd) dv; Ok [(if_py fd, p)]
                            | DNo => if is_nonnull (if_type fd) then rej K_VALUE else Ok []
                            end
                        end
                    end) forced;
                Ok (PDict (concat kvs))
            | _ => rej K_VALUE
            end
        | Some IOther | None => rej K_SDL   (* _build_input_field: unknown type, or not an input type *)
        end
      end
    end
  end.

(* is_input_type by name *)
Definition introspection_objects : list str :=
  map S_ ["__Schema"; "__Directive"; "__Type"; "__Field"; "__InputValue"; "__EnumValue"]%string.
Definition introspection_enums : list str := map S_ ["__DirectiveLocation"; "__TypeKind"]%string.

Inductive kind := KScalar | KObject | KInterface | KUnion | KEnum | KInput.

Definition kind_eqb (a b : kind) : bool :=
  match a, b with
  | KScalar, KScalar | KObject, KObject | KInterface, KInterface | KUnion, KUnion
  | KEnum, KEnum | KInput, KInput => true
  | _, _ => false
  end.

Definition default_kind (n : str) : option kind :=
  if mem_str n specified_scalars then Some KScalar
  else if mem_str n introspection_objects then Some KObject
  else if mem_str n introspection_enums then Some KEnum
  else None.

Definition kind_is_input (k : kind) : bool :=
  match k with KScalar | KEnum | KInput => true | _ => false end.
Definition kind_is_output (k : kind) : bool :=
  match k with KInput => false | _ => true end.

(* ------------------------------------------------------------------ *)
(* the builder's view of the document                                   *)

Definition tdef_kind (t : tdef) : kind :=
  match t with
  | TScalar _ _ _ => KScalar | TObject _ _ _ _ _ => KObject | TInterface _ _ _ _ => KInterface
  | TUnion _ _ _ _ => KUnion | TEnum _ _ _ _ => KEnum | TInput _ _ _ _ => KInput
  end.

(* name, kind of a *definition* node (not extension) *)
Definition typedef_name (d : definition) : option str :=
  match d with
  | DScalar false _ n _ _ | DObject false _ n _ _ _ _ | DInterface false _ n _ _ _
  | DUnion false _ n _ _ _ | DEnum false _ n _ _ _ | DInput false _ n _ _ _ => Some (n_val n)
  | _ => None
  end.

Definition typeext_name (d : definition) : option str :=
  match d with
  | DScalar true _ n _ _ | DObject true _ n _ _ _ _ | DInterface true _ n _ _ _
  | DUnion true _ n _ _ _ | DEnum true _ n _ _ _ | DInput true _ n _ _ _ => Some (n_val n)
  | _ => None
  end.

Definition def_kind (d : definition) : option kind :=
  match d with
  | DScalar _ _ _ _ _ => Some KScalar | DObject _ _ _ _ _ _ _ => Some KObject
  | DInterface _ _ _ _ _ _ => Some KInterface | DUnion _ _ _ _ _ _ => Some KUnion
  | DEnum _ _ _ _ _ _ => Some KEnum | DInput _ _ _ _ _ _ => Some KInput
  | _ => None
  end.

Definition ifield_of_ivdef (iv : input_value_def) : ifield :=
  IF (n_val (iv_name iv)) (n_val (iv_name iv)) (tref_of (iv_type iv))
     (match iv_default iv with Some v => DAst v | None => DNo end).

Definition ifield_of_siv (a : sivalue) : ifield :=
  IF (siv_name a) (siv_py a) (siv_type a)
     (match siv_default a with Some p => DPv p | None => DNo end).

Definition tinfo_of_def (d : definition) : tinfo :=
  match d with
  | DScalar _ _ _ _ _ => IScalar
  | DEnum _ _ _ _ vals _ => IEnum (map (fun ev => (n_val (ev_name ev), PStr (n_val (ev_name ev)))) vals)
  | DInput _ _ _ _ fs _ => IInput (map ifield_of_ivdef fs)
  | _ => IOther
  end.

Definition tinfo_of_tdef (t : tdef) : tinfo :=
  match t with
  | TScalar _ _ _ => IScalar
  | TEnum _ _ vals _ => IEnum (map (fun v => (sev_name v, sev_value v)) vals)
  | TInput _ _ fs _ => IInput (map ifield_of_siv fs)
  | _ => IOther
  end.

(* cache precedence: default types, then additional_types, then the document *)
Definition env_of (additional : list tdef) (tdefs : list definition) : env :=
  map (fun t => (tdef_name t, tinfo_of_tdef t)) additional
  ++ flat_map (fun d => match typedef_name d with
                        | Some n => [(n, tinfo_of_def d)]
                        | None => []
                        end) tdefs.

Definition kinds_of (additional : list tdef) (tdefs : list definition) : list (str * kind) :=
  map (fun t => (tdef_name t, tdef_kind t)) additional
  ++ flat_map (fun d => match typedef_name d, def_kind d with
                        | Some n, Some k => [(n, k)]
                        | _, _ => []
                        end) tdefs.

Definition kind_in (K : list (str * kind)) (n : str) : option kind :=
  match default_kind n with
  | Some k => Some k
  | None => alookup n K
  end.

Definition known (K : list (str * kind)) (n : str) : bool :=
  match kind_in K n with Some _ => true | None => false end.

Definition tref_is_input (K : list (str * kind)) (t : tref) : bool :=
  match kind_in K (tref_name t) with Some k => kind_is_input k | None => false end.
Definition tref_is_output (K : list (str * kind)) (t : tref) : bool :=
  match kind_in K (tref_name t) with Some k => kind_is_output k | None => false end.

(* ------------------------------------------------------------------ *)
(* @deprecated: directive_arguments(DeprecatedDirective, node, {})      *)

Definition default_deprecation : str := S_ "No longer supported".

Fixpoint find_dir (n : str) (ds : list directive) : option directive :=
  match ds with
  | [] => None
  | d :: ds' => if str_eqb n (n_val (d_name d)) then Some d else find_dir n ds'
  end.

(* {a.name.value: a for a in node.arguments}: last wins *)
Fixpoint arg_lookup (n : str) (args : list argument) : option value :=
  match args with
  | [] => None
  | a :: args' =>
      match arg_lookup n args' with
      | Some v => Some v
      | None => if str_eqb n (n_val (a_name a)) then Some (a_val a) else None
      end
  end.

Definition deprecation_reason (ds : list directive) : outcome (option str) :=
  match find_dir (S_ "deprecated") ds with
  | None => Ok None
  | Some d =>
      match arg_lookup (S_ "reason") (d_args d) with
      | None => Ok (Some default_deprecation)
      | Some (VVar _ _) => Ok (Some default_deprecation)   (* variable absent, default used *)
      | Some (VString s _ _) => Ok (Some s)
      | Some (VNull _) => Ok None
      | Some _ => rej K_COERCION
      end
  end.

(* ------------------------------------------------------------------ *)
(* builders (the _build_ methods of ASTTypeBuilder)                                   *)

Section Build.
  Variable fuel : nat.
  Variable K : list (str * kind).
  Variable E : env.

  (* _build_argument / _build_input_field *)
  Definition build_ivalue (iv : input_value_def) : outcome sivalue :=
    let t := tref_of (iv_type iv) in
    (* _check_input_type, then build_type: unknown names and output types *)
    if negb (tref_is_input K t) then rej K_SDL else
    do d <- match iv_default iv with
            | None => Ok None
            | Some v => do p <- coerce fuel true E [] t v; Ok (Some p)
            end;
    Ok (SIV (n_val (iv_name iv)) (n_val (iv_name iv)) t d (desc_of (iv_desc iv)) (iv_dirs iv)).

  (* _build_field: the type stays a thunk (checked when the type map is closed) *)
  Definition build_field (fd : field_def) : outcome sfield :=
    do args <- omap build_ivalue (fd_args fd);
    do dep <- deprecation_reason (fd_dirs fd);
    Ok (SF (n_val (fd_name fd)) (n_val (fd_name fd)) args (tref_of (fd_type fd))
           (desc_of (fd_desc fd)) dep (fd_dirs fd)).

  Definition build_enum_value (ev : enum_value_def) : outcome sevalue :=
    do dep <- deprecation_reason (ev_dirs ev);
    Ok (SEV (n_val (ev_name ev)) (PStr (n_val (ev_name ev))) (desc_of (ev_desc ev)) dep (ev_dirs ev)).

  Fixpoint has_dup (l : list str) : bool :=
    match l with
    | [] => false
    | x :: l' => mem_str x l' || has_dup l'
    end.

  Definition check_known (ts : list ty) : outcome (list str) :=
    omap (fun t => let n := tref_name (tref_of t) in
                   if known K n then Ok n else rej K_SDL) ts.

  (* build_type on a definition node; input fields are left unforced
     ([build_input_fields] runs when the type map is closed) *)
  Definition build_def (d : definition) : outcome tdef :=
    match d with
    | DScalar _ desc n dirs _ => Ok (TScalar (n_val n) (desc_of desc) dirs)
    | DObject _ desc n ifaces dirs fields _ =>
        do fs <- omap build_field fields;
        do is_ <- check_known ifaces;
        Ok (TObject (n_val n) (desc_of desc) is_ fs dirs)
    | DInterface _ desc n dirs fields _ =>
        do fs <- omap build_field fields;
        Ok (TInterface (n_val n) (desc_of desc) fs dirs)
    | DUnion _ desc n dirs types _ =>
        do ms <- check_known types;
        Ok (TUnion (n_val n) (desc_of desc) ms dirs)
    | DEnum _ desc n dirs vals _ =>
        if has_dup (map (fun ev => n_val (ev_name ev)) vals) then rej K_SDL else
        do vs <- omap build_enum_value vals;
        Ok (TEnum (n_val n) (desc_of desc) vs dirs)
    | DInput _ desc n dirs fields _ =>
        Ok (TInput (n_val n) (desc_of desc) [] dirs)
    | _ => Crash 2
    end.

  Definition build_directive (d : definition) : outcome ddef :=
    match d with
    | DDirective desc n args locs _ =>
        do a <- omap build_ivalue args;
        Ok (DD (n_val n) (desc_of desc) (map n_val locs) a)
    | _ => Crash 2
    end.
End Build.

(* ------------------------------------------------------------------ *)
(* _collect_definitions                                                 *)

Record collected := Coll {
  c_schema : option definition; c_types : list definition; c_dirs : list definition }.

Definition directive_name (d : definition) : option str :=
  match d with DDirective _ n _ _ _ => Some (n_val n) | _ => None end.

Fixpoint collect (ds : list definition) (acc : collected) : outcome collected :=
  match ds with
  | [] => Ok acc
  | d :: ds' =>
      match d with
      | DSchema false _ _ _ =>
          match c_schema acc with
          | Some _ => rej K_SDL
          | None => collect ds' (Coll (Some d) (c_types acc) (c_dirs acc))
          end
      | DDirective _ n _ _ _ =>
          if existsb (fun d' => match directive_name d' with
                                | Some m => str_eqb m (n_val n) | None => false end) (c_dirs acc)
          then rej K_SDL
          else collect ds' (Coll (c_schema acc) (c_types acc) (c_dirs acc ++ [d]))
      | _ =>
          match typedef_name d with
          | Some n =>
              if existsb (fun d' => match typedef_name d' with
                                    | Some m => str_eqb m n | None => false end) (c_types acc)
              then rej K_SDL
              else collect ds' (Coll (c_schema acc) (c_types acc ++ [d]) (c_dirs acc))
          | None => collect ds' acc
          end
      end
  end.

(* ------------------------------------------------------------------ *)
(* Schema(): directive map and type map closure                         *)

Definition siv_refs (a : sivalue) : str := tref_name (siv_type a).
Definition sf_refs (f : sfield) : list str := tref_name (sf_type f) :: map siv_refs (sf_args f).

Definition tdef_refs (t : tdef) : list str :=
  match t with
  | TScalar _ _ _ | TEnum _ _ _ _ => []
  | TObject _ _ is_ fs _ => is_ ++ flat_map sf_refs fs
  | TInterface _ _ fs _ => flat_map sf_refs fs
  | TUnion _ _ ms _ => ms
  | TInput _ _ fs _ => map siv_refs fs
  end.

Definition ddef_refs (d : ddef) : list str := map siv_refs (dd_args d).

(* every referenced name must resolve (lazy thunks forced by _build_type_map
   raise SDLError "Type X not found in document") *)
Definition refs_known (K : list (str * kind)) (ts : list tdef) : bool :=
  forallb (fun t => forallb (known K) (tdef_refs t)) ts.

(* additional_types that are not named by the document enter the schema only
   when reachable from it *)
Fixpoint close_additional (fuel : nat) (additional : list tdef) (frontier : list str)
         (acc : list tdef) : list tdef :=
  match fuel with
  | O => acc
  | S f =>
    match frontier with
    | [] => acc
    | n :: fr =>
        match find_type n acc with
        | Some _ => close_additional f additional fr acc
        | None =>
            match find_type n additional with
            | Some t => close_additional f additional (tdef_refs t ++ fr) (acc ++ [t])
            | None => close_additional f additional fr acc
            end
        end
    end
  end.

(* ------------------------------------------------------------------ *)
(* schema validation, verdict only (schema/validation.py)               *)

Definition is_letter_ (c : N) : bool :=
  (c =? 95)%N || ((65 <=? c) && (c <=? 90))%N || ((97 <=? c) && (c <=? 122))%N.
Definition is_digit (c : N) : bool := ((48 <=? c) && (c <=? 57))%N.

(* ^(?!__)[_a-zA-Z][_a-zA-Z0-9]*$  ($ also matches before a final newline;
   names never contain one here) *)
Definition valid_name (s : str) : bool :=
  match s with
  | [] => false
  | c :: r =>
      is_letter_ c && forallb (fun x => is_letter_ x || is_digit x) r
      && negb (match s with 95%N :: 95%N :: _ => true | _ => false end)
  end.

Section Validate.
  Variable sc : schema.

  Definition skind (n : str) : option kind :=
    match default_kind n with
    | Some k => Some k
    | None => option_map tdef_kind (find_type n (s_types sc))
    end.

  Definition s_is_input (t : tref) : bool :=
    match skind (tref_name t) with Some k => kind_is_input k | None => false end.
  Definition s_is_output (t : tref) : bool :=
    match skind (tref_name t) with Some k => kind_is_output k | None => false end.
  Definition s_is_object (n : str) : bool :=
    match skind n with Some KObject => true | _ => false end.

  Definition possible_type (abstract obj : str) : bool :=
    match find_type abstract (s_types sc), find_type obj (s_types sc) with
    | Some (TUnion _ _ ms _), Some (TObject _ _ _ _ _) => mem_str obj ms
    | Some (TInterface _ _ _ _), Some (TObject _ _ is_ _ _) => mem_str abstract is_
    | _, _ => false
    end.

  Fixpoint is_subtype (t s : tref) : bool :=
    tref_eqb t s ||
    match t, s with
    | RList a, RList b => is_subtype a b
    | RNonNull a, RNonNull b => is_subtype a b
    | RNonNull a, _ => is_subtype a s
    | RList _, _ => false
    | RNamed a, RNamed b => possible_type b a
    | RNamed _, _ => false
    end.

  Definition valid_args (args : list sivalue) : bool :=
    forallb (fun a => valid_name (siv_name a) && s_is_input (siv_type a)) args
    && negb (has_dup (map siv_name args)).

  Definition valid_fields (fs : list sfield) : bool :=
    match fs with [] => false | _ => true end
    && negb (has_dup (map sf_name fs))
    && forallb (fun f => valid_name (sf_name f) && s_is_output (sf_type f) && valid_args (sf_args f)) fs.

  Fixpoint find_field (n : str) (fs : list sfield) : option sfield :=
    match fs with
    | [] => None
    | f :: fs' => match find_field n fs' with
                  | Some g => Some g     (* field_map: dict comprehension, last wins *)
                  | None => if str_eqb n (sf_name f) then Some f else None
                  end
    end.

  Fixpoint find_arg (n : str) (l : list sivalue) : option sivalue :=
    match l with
    | [] => None
    | a :: l' => match find_arg n l' with
                 | Some b => Some b
                 | None => if str_eqb n (siv_name a) then Some a else None
                 end
    end.

  Definition valid_implementation (ofs : list sfield) (iface : str) : bool :=
    match find_type iface (s_types sc) with
    | Some (TInterface _ _ ifs _) =>
        forallb (fun f =>
          match find_field (sf_name f) ofs with
          | None => false
          | Some of_ =>
              is_subtype (sf_type of_) (sf_type f)
              && forallb (fun a => match find_arg (siv_name a) (sf_args of_) with
                                   | Some oa => tref_eqb (siv_type a) (siv_type oa)
                                   | None => false end) (sf_args f)
              && forallb (fun oa => match find_arg (siv_name oa) (sf_args f) with
                                    | Some _ => true
                                    | None => negb (is_nonnull (siv_type oa)) end) (sf_args of_)
          end) ifs
    | _ => false   (* not an interface type: rejected (validator checks the kind) *)
    end.

  Definition valid_type (t : tdef) : bool :=
    valid_name (tdef_name t) &&
    match t with
    | TScalar _ _ _ => true
    | TObject _ _ is_ fs _ =>
        valid_fields fs && negb (has_dup is_) && forallb (valid_implementation fs) is_
    | TInterface _ _ fs _ => valid_fields fs
    | TUnion _ _ ms _ =>
        match ms with [] => false | _ => true end
        && forallb s_is_object ms && negb (has_dup ms)
    | TEnum _ _ vs _ =>
        match vs with [] => false | _ => true end
        && forallb (fun v => valid_name (sev_name v)) vs
    | TInput _ _ fs _ =>
        match fs with [] => false | _ => true end
        && negb (has_dup (map siv_name fs))
        && forallb (fun f => valid_name (siv_name f) && s_is_input (siv_type f)) fs
    end.

  Definition valid_root (r : option str) : bool :=
    match r with None => true | Some n => s_is_object n end.

  Definition validate_schema : bool :=
    match s_query sc with Some _ => true | None => false end
    && valid_root (s_query sc) && valid_root (s_mutation sc) && valid_root (s_subscription sc)
    && forallb valid_type (s_types sc)
    && forallb (fun d => valid_name (dd_name d) && valid_args (dd_args d)) (s_ddefs sc).
End Validate.

(* ------------------------------------------------------------------ *)
(* build_schema_ignoring_extensions                                     *)

Definition op_name (k : op_kind) : str :=
  match k with OpQuery => S_ "query" | OpMutation => S_ "mutation" | OpSubscription => S_ "subscription" end.

Definition op_eqb (a b : op_kind) : bool :=
  match a, b with
  | OpQuery, OpQuery | OpMutation, OpMutation | OpSubscription, OpSubscription => true
  | _, _ => false
  end.

Record roots := Roots { r_q : option str; r_m : option str; r_s : option str }.

Definition root_get (r : roots) (k : op_kind) : option str :=
  match k with OpQuery => r_q r | OpMutation => r_m r | OpSubscription => r_s r end.
Definition root_set (r : roots) (k : op_kind) (n : str) : roots :=
  match k with
  | OpQuery => Roots (Some n) (r_m r) (r_s r)
  | OpMutation => Roots (r_q r) (Some n) (r_s r)
  | OpSubscription => Roots (r_q r) (r_m r) (Some n)
  end.

(* operation types of a schema definition / extension; [err] is the error
   kind of a repeated operation *)
Fixpoint add_ops (K : list (str * kind)) (err : nat) (ots : list op_type_def) (r : roots)
  : outcome roots :=
  match ots with
  | [] => Ok r
  | ot :: ots' =>
      match root_get r (ot_op ot) with
      | Some _ => rej err
      | None =>
          let n := tref_name (tref_of (ot_type ot)) in
          if known K n then add_ops K err ots' (root_set r (ot_op ot) n) else rej K_SDL
      end
  end.

Definition default_root (ts : list tdef) (n : str) : option str :=
  match find_type n ts with
  | Some (TObject _ _ _ _ _) => Some n
  | _ => None
  end.

(* Schema._build_type_map: the given types plus everything reachable from
   them, the roots and the directive arguments (only additional_types can be
   reachable without being listed) *)
Definition type_map_closure (additional ts : list tdef) (ddefs : list ddef) (r : roots) : list tdef :=
  let roots_l := flat_map (fun o => match o with Some n => [n] | None => [] end)
                          [r_q r; r_m r; r_s r] in
  close_additional (S (length additional + length additional * length additional
                       + length (flat_map tdef_refs ts) + length roots_l
                       + length (flat_map ddef_refs ddefs)
                       + length (flat_map tdef_refs additional)))
    additional (flat_map tdef_refs ts ++ roots_l ++ flat_map ddef_refs ddefs) ts.

(* forcing InputObjectType.fields of a document-defined input type *)
Definition force_input (fuel : nat) (K : list (str * kind)) (E : env)
           (tdefs : list definition) (t : tdef) : outcome tdef :=
  match t with
  | TInput n d [] dirs =>
      match find (fun x => match typedef_name x with
                           | Some m => str_eqb m n | None => false end) tdefs with
      | Some (DInput _ _ _ _ fields _) =>
          do fs <- omap (build_ivalue fuel K E) fields;
          Ok (TInput n d fs dirs)
      | _ => Ok t
      end
  | _ => Ok t
  end.

Definition schema_dirs_of (sd : option definition) : list directive :=
  match sd with Some (DSchema _ dirs _ _) => dirs | _ => [] end.

Definition overrides_specified_directive (ds : list ddef) : bool :=
  existsb (fun d => mem_str (dd_name d) specified_directive_names) ds.

Definition build_base (fuel : nat) (additional : list tdef) (doc : document) : outcome schema :=
  do c <- collect (doc_defs doc) (Coll None [] []);
  let K := kinds_of additional (c_types c) in
  let E := env_of additional (c_types c) in
  do ddefs <- omap (build_directive fuel K E) (c_dirs c);
  do ts <- omap (fun d =>
            match typedef_name d with
            | Some n =>
                if default_type_name n then Ok None   (* cache hit: the specified type *)
                else match find_type n additional with
                     | Some t => Ok (Some t)          (* cache hit: user supplied type *)
                     | None => do t <- build_def fuel K E d; Ok (Some t)
                     end
            | None => Ok None
            end) (c_types c);
  let ts := flat_map (fun o => match o with Some t => [t] | None => [] end) ts in
  do r <- match c_schema c with
          | None => Ok (Roots (default_root ts (S_ "Query")) (default_root ts (S_ "Mutation"))
                              (default_root ts (S_ "Subscription")))
          | Some (DSchema _ _ ots _) => add_ops K K_SDL ots (Roots None None None)
          | Some _ => Crash 2
          end;
  if overrides_specified_directive ddefs then rej K_SCHEMA else
  (* type map closure: forces field types and input fields *)
  do ts <- omap (force_input fuel K E (c_types c)) ts;
  if negb (refs_known K ts) then rej K_SDL else
  let all := type_map_closure additional ts ddefs r in
  Ok (Sch all ddefs (r_q r) (r_m r) (r_s r) (schema_dirs_of (c_schema c))).

(* ------------------------------------------------------------------ *)
(* extend_schema(schema, ast, strict=False) as used by build_schema     *)

Definition ext_kind_ok (k : kind) (d : definition) : bool :=
  match def_kind d with Some k' => kind_eqb k k' | None => false end.

Definition ext_dirs (d : definition) : list directive :=
  match d with
  | DScalar _ _ _ ds _ | DObject _ _ _ _ ds _ _ | DInterface _ _ _ ds _ _
  | DUnion _ _ _ ds _ _ | DEnum _ _ _ ds _ _ | DInput _ _ _ ds _ _ => ds
  | _ => []
  end.

Section Extend.
  Variable fuel : nat.
  Variable K : list (str * kind).
  Variable E : env.

  (* append members of the extensions, in document order, rejecting repeats *)
  Fixpoint add_fields (have : list str) (acc : list sfield) (fds : list field_def)
    : outcome (list str * list sfield) :=
    match fds with
    | [] => Ok (have, acc)
    | fd :: fds' =>
        if mem_str (n_val (fd_name fd)) have then rej K_EXT else
        do f <- build_field fuel K E fd;
        add_fields (n_val (fd_name fd) :: have) (acc ++ [f]) fds'
    end.

  Fixpoint add_names (have : list str) (acc : list str) (ts : list ty)
    : outcome (list str * list str) :=
    match ts with
    | [] => Ok (have, acc)
    | t :: ts' =>
        let n := tref_name (tref_of t) in
        if mem_str n have then rej K_EXT else
        if negb (known K n) then rej K_SDL else
        add_names (n :: have) (acc ++ [n]) ts'
    end.

  Fixpoint add_values (have : list str) (acc : list sevalue) (evs : list enum_value_def)
    : outcome (list str * list sevalue) :=
    match evs with
    | [] => Ok (have, acc)
    | ev :: evs' =>
        if mem_str (n_val (ev_name ev)) have then rej K_EXT else
        do v <- build_enum_value ev;
        add_values (n_val (ev_name ev) :: have) (acc ++ [v]) evs'
    end.

  Fixpoint add_ifields (have : list str) (acc : list sivalue) (ivs : list input_value_def)
    : outcome (list str * list sivalue) :=
    match ivs with
    | [] => Ok (have, acc)
    | iv :: ivs' =>
        if mem_str (n_val (iv_name iv)) have then rej K_EXT else
        do f <- build_ivalue fuel K E iv;
        add_ifields (n_val (iv_name iv) :: have) (acc ++ [f]) ivs'
    end.

  Fixpoint fold_exts {A} (step : list str -> list A -> definition -> outcome (list str * list A))
           (have : list str) (acc : list A) (exts : list definition) : outcome (list A) :=
    match exts with
    | [] => Ok acc
    | x :: exts' => do (h, a) <- step have acc x; fold_exts step h a exts'
    end.

  (* ASTTypeBuilder._extend_<kind>_type *)
  Definition extend_tdef (exts : list definition) (t : tdef) : outcome tdef :=
    if negb (forallb (ext_kind_ok (tdef_kind t)) exts) then rej K_EXT else
    let xd := flat_map ext_dirs exts in
    match t with
    | TScalar n d dirs => Ok (TScalar n d (dirs ++ xd))
    | TObject n d is_ fs dirs =>
        do fs' <- fold_exts (fun h a x => match x with
                                          | DObject _ _ _ _ _ fds _ => add_fields h a fds
                                          | _ => Ok (h, a) end) (map sf_name fs) fs exts;
        do is' <- fold_exts (fun h a x => match x with
                                          | DObject _ _ _ ifs _ _ _ => add_names h a ifs
                                          | _ => Ok (h, a) end) is_ is_ exts;
        Ok (TObject n d is' fs' (dirs ++ xd))
    | TInterface n d fs dirs =>
        do fs' <- fold_exts (fun h a x => match x with
                                          | DInterface _ _ _ _ fds _ => add_fields h a fds
                                          | _ => Ok (h, a) end) (map sf_name fs) fs exts;
        Ok (TInterface n d fs' (dirs ++ xd))
    | TUnion n d ms dirs =>
        do ms' <- fold_exts (fun h a x => match x with
                                          | DUnion _ _ _ _ ts _ => add_names h a ts
                                          | _ => Ok (h, a) end) ms ms exts;
        Ok (TUnion n d ms' (dirs ++ xd))
    | TEnum n d vs dirs =>
        do vs' <- fold_exts (fun h a x => match x with
                                          | DEnum _ _ _ _ evs _ => add_values h a evs
                                          | _ => Ok (h, a) end) (map sev_name vs) vs exts;
        Ok (TEnum n d vs' (dirs ++ xd))
    | TInput n d fs dirs =>
        do fs' <- fold_exts (fun h a x => match x with
                                          | DInput _ _ _ _ ivs _ => add_ifields h a ivs
                                          | _ => Ok (h, a) end) (map siv_name fs) fs exts;
        Ok (TInput n d fs' (dirs ++ xd))
    end.
End Extend.

Definition exts_for (n : str) (ds : list definition) : list definition :=
  filter (fun d => match typeext_name d with Some m => str_eqb m n | None => false end) ds.

Definition schema_exts (ds : list definition) : list definition :=
  filter (fun d => match d with DSchema true _ _ _ => true | _ => false end) ds.

Definition type_exts (ds : list definition) : list definition :=
  filter (fun d => match typeext_name d with Some _ => true | None => false end) ds.

Fixpoint add_schema_exts (K : list (str * kind)) (xs : list definition) (r : roots) : outcome roots :=
  match xs with
  | [] => Ok r
  | DSchema _ _ ots _ :: xs' => do r' <- add_ops K K_EXT ots r; add_schema_exts K xs' r'
  | _ :: xs' => add_schema_exts K xs' r
  end.

Definition has_type (sc : schema) (n : str) : bool :=
  default_type_name n || match find_type n (s_types sc) with Some _ => true | None => false end.

Definition extend_model (fuel : nat) (additional : list tdef) (sc : schema) (doc : document)
  : outcome schema :=
  let ds := doc_defs doc in
  (* build_schema: an extension of a type the schema does not have *)
  if negb (forallb (fun d => match typeext_name d with
                             | Some n => has_type sc n | None => true end) ds)
  then rej K_EXT else
  match schema_exts ds, type_exts ds with
  | [], [] => Ok sc
  | sx, _ =>
      (* cache = default types + schema.types + additional_types *)
      let pool := additional ++ s_types sc in
      let K := map (fun t => (tdef_name t, tdef_kind t)) pool in
      let E := map (fun t => (tdef_name t, tinfo_of_tdef t)) pool in
      do ts <- omap (fun t => extend_tdef fuel K E (exts_for (tdef_name t) ds) t) (s_types sc);
      do r <- add_schema_exts K sx (Roots (s_query sc) (s_mutation sc) (s_subscription sc));
      if negb (refs_known K ts) then rej K_SDL else
      Ok (Sch (type_map_closure additional ts (s_ddefs sc) r) (s_ddefs sc) (r_q r) (r_m r) (r_s r) (s_dirs sc ++ flat_map (fun d => match d with DSchema _ dirs _ _ => dirs | _ => [] end) sx))
  end.

(* ------------------------------------------------------------------ *)
(* build_schema                                                         *)

Record bopts := BOpts { bo_ignore_extensions : bool; bo_additional : list tdef }.

Definition build_model_fuel (fuel : nat) (o : bopts) (doc : document) : outcome schema :=
  do s0 <- build_base fuel (bo_additional o) doc;
  do s1 <- (if bo_ignore_extensions o then Ok s0 else extend_model fuel (bo_additional o) s0 doc);
  if validate_schema s1 then Ok s1 else rej K_SCHEMA.

(* literal nesting and default chains of generated documents are far below this *)
Definition build_fuel : nat := 2000.
Definition build_model (o : bopts) (doc : document) : outcome schema :=
  build_model_fuel build_fuel o doc.
