(* By-name model of a py_gql Schema, rich enough for schema validation (C13)
   and schema diffing (C20).

   A schema is the *closed type map* that [Schema.__init__] builds
   ([_build_type_map]): an insertion-ordered association of names to
   definitions; references between types are by name.  Identity of Python
   objects is not observable for the two properties (the type map raises on
   two different objects with one name), so [==] on named types is equality
   of names and [==] on wrappers is structural ([GraphQLType.__eq__]).

   The constructors of [ty] carry the prefix [Ty] because [Lang/Ast.v] (which
   every generated Cases file imports through Run/Driver.v) already owns
   [TNamed]/[TList]/[TNonNull] for AST type nodes. *)
From PyGql Require Export Base.Str Base.Pv.

(* ---------------------------------------------------------------- types *)
Inductive ty :=
| TyNamed (n : str)
| TyList (t : ty)
| TyNonNull (t : ty).

Fixpoint ty_eqb (a b : ty) : bool :=
  match a, b with
  | TyNamed x, TyNamed y => str_eqb x y
  | TyList x, TyList y => ty_eqb x y
  | TyNonNull x, TyNonNull y => ty_eqb x y
  | _, _ => false
  end.

Fixpoint unwrap (t : ty) : str :=
  match t with TyNamed n => n | TyList t' => unwrap t' | TyNonNull t' => unwrap t' end.

Definition is_non_null (t : ty) : bool :=
  match t with TyNonNull _ => true | _ => false end.

(* ---------------------------------------------------- resolver signatures *)
(* What [inspect.signature(resolver).parameters] yields, in order. *)
Inductive pkind := PosOnly | PosOrKw | VarPos | KwOnly | VarKw.

Definition pkind_eqb (a b : pkind) : bool :=
  match a, b with
  | PosOnly, PosOnly | PosOrKw, PosOrKw | VarPos, VarPos | KwOnly, KwOnly | VarKw, VarKw => true
  | _, _ => false
  end.

Record param := mkParam { p_name : str; p_kind : pkind; p_default : bool }.
Definition rsig := list param.

(* ------------------------------------------------------------- members *)
(* [a_default]: [None] = no default ([has_default_value] false); defaults are
   canonical Python values compared with [!=]. *)
Record arg_def := mkArg {
  a_name : str; a_pyname : str; a_type : ty; a_default : option pv }.

(* [f_depr] = [deprecation_reason]; a Field is deprecated iff the reason is
   truthy ([bool(reason)]); an EnumValue iff the reason is not None. *)
Record field_def := mkField {
  f_name : str; f_type : ty; f_args : list arg_def;
  f_depr : option str; f_resolver : option rsig }.

Record input_field := mkInput { i_name : str; i_type : ty; i_default : option pv }.

Record enum_value := mkEnumV { e_name : str; e_depr : option str }.

Inductive type_body :=
| BScalar
| BObject (ifaces : list str) (fields : list field_def) (default_resolver : option rsig)
| BInterface (fields : list field_def)
| BUnion (members : list str)
| BEnum (values : list enum_value)
| BInput (fields : list input_field).

(* [t_intro]: member of INTROPSPECTION_TYPES; [t_spec]: member of
   SPECIFIED_SCALAR_TYPES. *)
Record type_def := mkType {
  t_name : str; t_intro : bool; t_spec : bool; t_body : type_body }.

Record directive_def := mkDir {
  d_name : str; d_specified : bool; d_locs : list str; d_args : list arg_def }.

Record schema := mkSchema {
  s_types : list type_def;
  s_dirs : list directive_def;
  s_query : option str;
  s_mutation : option str;
  s_subscription : option str;
  s_default_resolver : option rsig }.

(* ------------------------------------------------------------- lookups *)
Definition find_type (ts : list type_def) (n : str) : option type_def :=
  find (fun t => str_eqb n (t_name t)) ts.

Definition find_field (fs : list field_def) (n : str) : option field_def :=
  find (fun f => str_eqb n (f_name f)) fs.

Definition find_arg (l : list arg_def) (n : str) : option arg_def :=
  find (fun a => str_eqb n (a_name a)) l.

Definition find_input (l : list input_field) (n : str) : option input_field :=
  find (fun a => str_eqb n (i_name a)) l.

Definition find_enum (l : list enum_value) (n : str) : option enum_value :=
  find (fun a => str_eqb n (e_name a)) l.

Definition find_dir (l : list directive_def) (n : str) : option directive_def :=
  find (fun a => str_eqb n (d_name a)) l.

(* Python [dict] built by a comprehension [{x.name: x for x in xs}]: keys in
   first-occurrence order, value of the LAST occurrence. *)
Fixpoint find_last {A} (p : A -> bool) (l : list A) : option A :=
  match l with
  | [] => None
  | x :: l' => match find_last p l' with
               | Some y => Some y
               | None => if p x then Some x else None
               end
  end.

Definition kind_code (b : type_body) : N :=
  match b with
  | BScalar => 0 | BObject _ _ _ => 1 | BInterface _ => 2
  | BUnion _ => 3 | BEnum _ => 4 | BInput _ => 5
  end%N.

Definition kind_of (ts : list type_def) (n : str) : option N :=
  match find_type ts n with Some t => Some (kind_code (t_body t)) | None => None end.

Definition is_object_name (ts : list type_def) (n : str) : bool :=
  match kind_of ts n with Some 1%N => true | _ => false end.

(* first-occurrence de-duplication (Python [set]/[dict] keys) *)
Fixpoint dedup (l : list str) : list str :=
  match l with
  | [] => []
  | x :: l' => x :: filter (fun y => negb (str_eqb y x)) (dedup l')
  end.

(* ---------------------------------------------------- option / pv equality *)
Definition opt_eqb {A} (e : A -> A -> bool) (a b : option A) : bool :=
  match a, b with
  | None, None => true
  | Some x, Some y => e x y
  | _, _ => false
  end.

Fixpoint pv_eqb (a b : pv) {struct a} : bool :=
  match a, b with
  | PNone, PNone => true
  | PBool x, PBool y => Bool.eqb x y
  | PInt x, PInt y => Z.eqb x y
  | PFloat x, PFloat y => str_eqb x y
  | PStr x, PStr y => str_eqb x y
  | PList x, PList y =>
      (fix go (l1 l2 : list pv) : bool :=
         match l1, l2 with
         | [], [] => true
         | u :: l1', v :: l2' => pv_eqb u v && go l1' l2'
         | _, _ => false
         end) x y
  | PDict x, PDict y =>
      (fix go (l1 l2 : list (str * pv)) : bool :=
         match l1, l2 with
         | [], [] => true
         | (k1, u) :: l1', (k2, v) :: l2' => str_eqb k1 k2 && pv_eqb u v && go l1' l2'
         | _, _ => false
         end) x y
  | _, _ => false
  end.

(* multiset equality of lists through a boolean equality *)
Fixpoint remove_one {A} (e : A -> A -> bool) (x : A) (l : list A) : option (list A) :=
  match l with
  | [] => None
  | y :: l' => if e x y then Some l'
               else match remove_one e x l' with
                    | Some r => Some (y :: r)
                    | None => None
                    end
  end.

Fixpoint multiset_eqb {A} (e : A -> A -> bool) (a b : list A) : bool :=
  match a with
  | [] => match b with [] => true | _ => false end
  | x :: a' => match remove_one e x b with
               | Some b' => multiset_eqb e a' b'
               | None => false
               end
  end.
