(* Model of py_gql/schema/validation.py (SchemaValidator and every validate_*
   with its [continue]-masking, _validate_resolver_arguments), of
   Schema.is_subtype / is_possible_type / get_possible_types, and of the
   [_is_valid] memo with its invalidation by register_resolver /
   register_default_resolver / register_subscription (schema.py,
   resolver_map.py), and of direct validate_schema(..) calls with either value of
   enable_resolver_validation.

   The model describes the tree AFTER the proposed repairs
     fixes/C13-01-input-field-names.patch      (input field names are checked)
     fixes/C13-02-implements-non-interface.patch ("implements" a non-interface)
     fixes/C13-03-resolver-binding.patch       (resolver parameters vs. binding)
     fixes/C13-04-name-trailing-newline.patch  (a name must match to the very end)
     fixes/C13-05-default-resolver-assignment.patch (assigning Schema.default_resolver resets the memo)

   An error is (label, subject); the label identifies the message template,
   the subject lists the names quoted in the message.  Table (message regex ->
   label, subject) is harness/props/c13.py:MESSAGES; texts are not modelled. *)
From PyGql Require Export Schema.SchemaFull.

Inductive vlabel :=
| LMustProvideQuery          (* Must provide Query type *)
| LQueryNotObject            (* Query must be ObjectType but got "T" *)
| LMutationNotObject | LSubscriptionNotObject
| LInvalidTypeName           (* Invalid type name "T" *)
| LInvalidName               (* Invalid name "x". *)
| LNoFields                  (* Type "T" must define at least one field *)
| LDuplicateField            (* Duplicate field "f" on "T" *)
| LFieldNotOutput            (* Expected output type for field "f" on "T" but got .. *)
| LDuplicateArg              (* Duplicate argument "a" on "T.f" *)
| LArgNotInput               (* Expected input type for argument "a" on "T.f" but got .. *)
| LDirDuplicateArg           (* Duplicate argument "a" on directive "@d" *)
| LDirArgNotInput            (* Expected input type for argument "a" on directive "@d" .. *)
| LResMissing                (* Missing resolver parameter for argument "a" on "T.f" *)
| LResPosOnly                (* Resolver parameter for argument "a" on "T.f" must not be positional only *)
| LResNeedsDefault           (* Resolver parameter for optional argument "a" on "T.f" must have a default *)
| LResPositional             (* Resolver for "T.f" must accept 3 positional parameters, found (..) *)
| LResExtraRequired          (* Required resolver parameter "p" on "T.f" does not match .. *)
| LInterfaceTwice            (* Type "T" mut only implement interface "I" once *)
| LNotInterface              (* Type "T" can only implement interface types but got "X" *)
| LIfaceFieldMissing         (* Interface field "I.f" is not implemented by type "T" *)
| LIfaceFieldType            (* Interface field "I.f" expects type ".." but "T.f" is type ".." *)
| LIfaceArgMissing           (* Interface field argument "I.f.a" is not provided by "T.f" *)
| LIfaceArgType              (* Interface field argument "I.f.a" expects type .. but "T.f.a" is type .. *)
| LIfaceExtraRequiredArg     (* Object field argument "T.f.a" is of required type .. *)
| LUnionEmpty                (* UnionType "U" must at least define one member *)
| LUnionMemberNotObject      (* UnionType "U" expects object types but got "X" *)
| LUnionMemberTwice          (* UnionType "U" can only include type "X" once *)
| LEnumEmpty                 (* EnumType "E" must at least define one value *)
| LInputFieldNotInput.       (* Expected input type for field "f" on "T" but got .. *)

Record verr := mkErr { v_label : vlabel; v_subject : list str }.
Definition err (l : vlabel) (subj : list str) : verr := mkErr l subj.

(* ------------------------------------------------------------- names *)
(* VALID_NAME_RE = ^(?!__)[_a-zA-Z][_a-zA-Z0-9]*\Z *)
Definition is_letter (c : N) : bool :=
  ((65 <=? c) && (c <=? 90) || (97 <=? c) && (c <=? 122) || (c =? 95))%N.
Definition is_digit (c : N) : bool := ((48 <=? c) && (c <=? 57))%N.

Definition valid_name (s : str) : bool :=
  match s with
  | [] => false
  | c :: r =>
      is_letter c && forallb (fun x => is_letter x || is_digit x) r
      && negb ((c =? 95)%N && match r with d :: _ => (d =? 95)%N | [] => false end)
  end.

Definition check_valid_name (n : str) : list verr :=
  if valid_name n then [] else [err LInvalidName [n]].

(* ------------------------------------------------------------- positions *)
(* is_input_type / is_output_type of the unwrapped named type *)
Definition is_input_ty (ts : list type_def) (t : ty) : bool :=
  match kind_of ts (unwrap t) with
  | Some k => (k =? 0) || (k =? 4) || (k =? 5)
  | None => false
  end%N.

Definition is_output_ty (ts : list type_def) (t : ty) : bool :=
  match kind_of ts (unwrap t) with
  | Some k => (k =? 0) || (k =? 4) || (k =? 1) || (k =? 2) || (k =? 3)
  | None => false
  end%N.

(* ------------------------------------------------------------- subtyping *)
(* get_possible_types + is_possible_type: [obj] is an object type and a
   member of the union / lists the interface among its interfaces *)
Definition possible (ts : list type_def) (abstract obj : str) : bool :=
  match find_type ts obj with
  | Some ot =>
      match t_body ot with
      | BObject ifaces _ _ =>
          match find_type ts abstract with
          | Some at_ =>
              match t_body at_ with
              | BUnion ms => mem_str obj ms
              | BInterface _ => mem_str abstract ifaces
              | _ => false
              end
          | None => false
          end
      | _ => false
      end
  | None => false
  end.

(* Schema.is_subtype *)
Fixpoint is_subtype_model (ts : list type_def) (t u : ty) {struct t} : bool :=
  if ty_eqb t u then true else
  match t with
  | TyList a => match u with TyList b => is_subtype_model ts a b | _ => false end
  | TyNonNull a =>
      match u with
      | TyNonNull b => is_subtype_model ts a b
      | _ => is_subtype_model ts a u
      end
  | TyNamed a => match u with TyNamed b => possible ts b a | _ => false end
  end.

(* ------------------------------------------------------------- resolvers *)
Definition is_var (p : param) : bool :=
  match p_kind p with VarPos | VarKw => true | _ => false end.
Definition is_positional (p : param) : bool :=
  match p_kind p with PosOnly | PosOrKw => true | _ => false end.
Definition has_var_pos (sg : rsig) : bool := existsb (fun p => pkind_eqb (p_kind p) VarPos) sg.
Definition has_var_kw (sg : rsig) : bool := existsb (fun p => pkind_eqb (p_kind p) VarKw) sg.

Definition find_param (sg : rsig) (n : str) : option param :=
  find (fun p => str_eqb n (p_name p)) sg.

(* the parameters that receive (root, context, info) *)
Definition head_params (sg : rsig) : list param := firstn 3 (filter is_positional sg).

(* an argument always reaches the resolver when it has a default or is
   non-null; otherwise the executor may or may not pass it *)
Definition arg_always (a : arg_def) : bool :=
  match a_default a with Some _ => true | None => is_non_null (a_type a) end.

(* _validate_resolver_arguments (repaired); [path] = [type; field] *)
Definition resolver_errors (path : list str) (sg : rsig) (args : list arg_def) : list verr :=
  let names := map a_pyname args in
  let head := head_params sg in
  flat_map (fun a =>
    match find_param sg (a_pyname a) with
    | None => if has_var_kw sg then [] else [err LResMissing (path ++ [a_name a])]
    | Some p =>
        if is_var p then
          (if has_var_kw sg then [] else [err LResMissing (path ++ [a_name a])])
        else if pkind_eqb (p_kind p) PosOnly then [err LResPosOnly (path ++ [a_name a])]
        else if negb (p_default p) && negb (arg_always a)
             then [err LResNeedsDefault (path ++ [a_name a])]
             else []
    end) args
  ++ (if existsb (fun p => mem_str (p_name p) names) head
         || (negb (has_var_pos sg) && (length head <? 3))
      then [err LResPositional path] else [])
  ++ flat_map (fun p =>
       if is_var p || mem_str (p_name p) (map p_name head) || mem_str (p_name p) names
          || p_default p
       then [] else [err LResExtraRequired (path ++ [p_name p])]) sg.

(* ------------------------------------------------------------- loops *)
(* The shape shared by the loops that keep a set of seen names:
     for x in xs: pre(x); if name(x) in seen: dup(x); continue
                  body(x); seen.add(name(x))                         *)
Fixpoint loop_seen {A} (name : A -> str) (pre dup body : A -> list verr)
         (seen : list str) (l : list A) : list verr :=
  match l with
  | [] => []
  | x :: l' =>
      pre x ++
      (if mem_str (name x) seen
       then dup x ++ loop_seen name pre dup body seen l'
       else body x ++ loop_seen name pre dup body (name x :: seen) l')
  end.

Definition validate_args (ts : list type_def) (path : list str) (args : list arg_def) : list verr :=
  loop_seen a_name
    (fun a => check_valid_name (a_name a))
    (fun a => [err LDuplicateArg (path ++ [a_name a])])
    (fun a => if is_input_ty ts (a_type a) then [] else [err LArgNotInput (path ++ [a_name a])])
    [] args.

Definition or_else {A} (a b : option A) : option A := match a with Some _ => a | None => b end.

(* validate_fields; [tdr] = the object type's default_resolver (None for interfaces) *)
Definition validate_fields (s : schema) (tname : str) (tdr : option rsig)
           (fields : list field_def) : list verr :=
  let ts := s_types s in
  (match fields with [] => [err LNoFields [tname]] | _ => [] end)
  ++ loop_seen f_name
       (fun f => check_valid_name (f_name f))
       (fun f => [err LDuplicateField [tname; f_name f]])
       (fun f =>
          (if is_output_ty ts (f_type f) then [] else [err LFieldNotOutput [tname; f_name f]])
          ++ validate_args ts [tname; f_name f] (f_args f)
          ++ match or_else (f_resolver f) (or_else tdr (s_default_resolver s)) with
             | Some sg => resolver_errors [tname; f_name f] sg (f_args f)
             | None => []
             end)
       [] fields.

(* validate_implementation *)
Definition validate_implementation (ts : list type_def) (tname : str) (ofields : list field_def)
           (iname : str) (ifields : list field_def) : list verr :=
  flat_map (fun f =>
    match find_last (fun g => str_eqb (f_name f) (f_name g)) ofields with
    | None => [err LIfaceFieldMissing [tname; iname; f_name f]]
    | Some g =>
        if negb (is_subtype_model ts (f_type g) (f_type f))
        then [err LIfaceFieldType [tname; iname; f_name f]]
        else
          flat_map (fun a =>
            match find_last (fun b => str_eqb (a_name a) (a_name b)) (f_args g) with
            | None => [err LIfaceArgMissing [tname; iname; f_name f; a_name a]]
            | Some b => if ty_eqb (a_type a) (a_type b) then []
                        else [err LIfaceArgType [tname; iname; f_name f; a_name a]]
            end) (f_args f)
          ++ flat_map (fun b =>
               match find_last (fun a => str_eqb (a_name b) (a_name a)) (f_args f) with
               | None => if is_non_null (a_type b)
                         then [err LIfaceExtraRequiredArg [tname; iname; f_name f; a_name b]] else []
               | Some _ => []
               end) (f_args g)
    end) ifields.

(* validate_interfaces: the loop with its set of implemented names *)
Fixpoint ifaces_go (ts : list type_def) (tname : str) (ofields : list field_def)
         (seen : list str) (l : list str) : list verr :=
  match l with
  | [] => []
  | i :: l' =>
      match find_type ts i with
      | Some it =>
          match t_body it with
          | BInterface ifields =>
              if mem_str i seen then err LInterfaceTwice [tname; i] :: ifaces_go ts tname ofields seen l'
              else validate_implementation ts tname ofields i ifields
                   ++ ifaces_go ts tname ofields (i :: seen) l'
          | _ => err LNotInterface [tname; i] :: ifaces_go ts tname ofields seen l'
          end
      | None => err LNotInterface [tname; i] :: ifaces_go ts tname ofields seen l'
      end
  end.

Definition validate_interfaces (ts : list type_def) (tname : str) (ofields : list field_def)
           (ifaces : list str) : list verr := ifaces_go ts tname ofields [] ifaces.

(* validate_union_members: the loop with its set of member names *)
Fixpoint union_go (ts : list type_def) (tname : str) (seen : list str) (l : list str) : list verr :=
  match l with
  | [] => []
  | m :: l' =>
      if negb (is_object_name ts m) then err LUnionMemberNotObject [tname; m] :: union_go ts tname seen l'
      else (if mem_str m seen then [err LUnionMemberTwice [tname; m]] else [])
           ++ union_go ts tname (m :: seen) l'
  end.

Definition validate_union_members (ts : list type_def) (tname : str) (members : list str) : list verr :=
  (match members with [] => [err LUnionEmpty [tname]] | _ => [] end)
  ++ union_go ts tname [] members.

(* validate_enum_values *)
Definition validate_enum_values (tname : str) (values : list enum_value) : list verr :=
  (match values with [] => [err LEnumEmpty [tname]] | _ => [] end)
  ++ flat_map (fun v => check_valid_name (e_name v)) values.

(* validate_input_fields (with the name check of fix C13-01) *)
Definition validate_input_fields (ts : list type_def) (tname : str) (fields : list input_field) : list verr :=
  (match fields with [] => [err LNoFields [tname]] | _ => [] end)
  ++ loop_seen i_name
       (fun f => check_valid_name (i_name f))
       (fun f => [err LDuplicateField [tname; i_name f]])
       (fun f => if is_input_ty ts (i_type f) then [] else [err LInputFieldNotInput [tname; i_name f]])
       [] fields.

(* validate_directives *)
Definition validate_directives (ts : list type_def) (ds : list directive_def) : list verr :=
  flat_map (fun d =>
    check_valid_name (d_name d)
    ++ loop_seen a_name
         (fun a => check_valid_name (a_name a))
         (fun a => [err LDirDuplicateArg [d_name d; a_name a]])
         (fun a => if is_input_ty ts (a_type a) then [] else [err LDirArgNotInput [d_name d; a_name a]])
         [] (d_args d)) ds.

(* validate_root_types *)
Definition validate_roots (s : schema) : list verr :=
  let ts := s_types s in
  (match s_query s with
   | None => [err LMustProvideQuery []]
   | Some q => if is_object_name ts q then [] else [err LQueryNotObject [q]]
   end)
  ++ (match s_mutation s with
      | Some q => if is_object_name ts q then [] else [err LMutationNotObject [q]]
      | None => [] end)
  ++ (match s_subscription s with
      | Some q => if is_object_name ts q then [] else [err LSubscriptionNotObject [q]]
      | None => [] end).

(* the body of the loop over schema.types.values() *)
Definition validate_type (s : schema) (t : type_def) : list verr :=
  let ts := s_types s in
  if negb (t_intro t || t_spec t || valid_name (t_name t))
  then [err LInvalidTypeName [t_name t]]
  else match t_body t with
       | BObject ifaces fields dr =>
           validate_fields s (t_name t) dr fields
           ++ validate_interfaces ts (t_name t) fields ifaces
       | BInterface fields => validate_fields s (t_name t) None fields
       | BUnion ms => validate_union_members ts (t_name t) ms
       | BEnum vs => validate_enum_values (t_name t) vs
       | BInput fs => validate_input_fields ts (t_name t) fs
       | BScalar => []
       end.

(* SchemaValidator.__call__ *)
Definition validate_model (s : schema) : list verr :=
  validate_roots s
  ++ flat_map (validate_type s) (s_types s)
  ++ validate_directives (s_types s) (s_dirs s).

(* validate_schema(schema, enable_resolver_validation=False): the resolver
   signature rule is skipped for every field, nothing else looks at resolvers --
   the same walk over the schema with all resolvers taken away *)
Definition strip_field (f : field_def) : field_def :=
  mkField (f_name f) (f_type f) (f_args f) (f_depr f) None.
Definition strip_body (b : type_body) : type_body :=
  match b with
  | BObject i fs _ => BObject i (map strip_field fs) None
  | BInterface fs => BInterface (map strip_field fs)
  | _ => b
  end.
Definition strip_resolvers (s : schema) : schema :=
  mkSchema (map (fun t => mkType (t_name t) (t_intro t) (t_spec t) (strip_body (t_body t))) (s_types s))
           (s_dirs s) (s_query s) (s_mutation s) (s_subscription s) None.
Definition validate_structural (s : schema) : list verr := validate_model (strip_resolvers s).

Definition schema_valid (s : schema) : bool :=
  match validate_model s with [] => true | _ => false end.

(* ------------------------------------------------------------- memo machine *)
(* Schema.validate() and the three registration methods.  [m_memo = true]
   stands for [_is_valid is True]; [m_reg] / [m_defs] are the keys of
   ResolverMap.resolvers / default_resolvers.  Function identity
   ([field.resolver is not resolver]) is equality of signatures: the harness
   creates one function object per signature. *)
Inductive op :=
| OpValidate                                      (* schema.validate() *)
| OpValidateSchema (resolver_validation : bool)   (* validate_schema(schema, enable_resolver_validation=b), called directly *)
| OpRegisterResolver (tn fn : str) (sg : rsig) (allow_override : bool)
| OpRegisterDefault (tn : str) (sg : rsig) (allow_override : bool)
| OpRegisterSubscription (tn fn : str) (allow_override : bool)
| OpAssignDefault (sg : option rsig).            (* schema.default_resolver = f  (None: = None) *)

Inductive step_result :=
| RAccepted                      (* validate() returned *)
| RInvalid (errors : list verr)  (* validate() raised SchemaValidationError *)
| RDone                          (* registration succeeded *)
| RValueError | RUnknownType | RSchemaError.

Record mstate := mkState {
  m_schema : schema; m_memo : bool;
  m_reg : list (str * str); m_defs : list str; m_subs : list (str * str) }.

Definition pair_mem (k : str * str) (l : list (str * str)) : bool :=
  existsb (fun x => str_eqb (fst k) (fst x) && str_eqb (snd k) (snd x)) l.

Definition param_eqb (a b : param) : bool :=
  str_eqb (p_name a) (p_name b) && pkind_eqb (p_kind a) (p_kind b) && Bool.eqb (p_default a) (p_default b).
Fixpoint sig_eqb (a b : rsig) : bool :=
  match a, b with
  | [], [] => true
  | x :: a', y :: b' => param_eqb x y && sig_eqb a' b'
  | _, _ => false
  end.

Definition set_body (s : schema) (tn : str) (b : type_body) : schema :=
  mkSchema (map (fun t => if str_eqb tn (t_name t)
                          then mkType (t_name t) (t_intro t) (t_spec t) b else t) (s_types s))
           (s_dirs s) (s_query s) (s_mutation s) (s_subscription s) (s_default_resolver s).

(* Schema.register_default_resolver, after ResolverMap's own check *)
Definition do_register_default (st : mstate) (tn : str) (sg : rsig) (allow map_allow : bool)
  : step_result * mstate :=
  if mem_str tn (m_defs st) && negb map_allow then (RValueError, st) else
  let st1 := mkState (m_schema st) (m_memo st) (m_reg st) (tn :: m_defs st) (m_subs st) in
  match find_type (s_types (m_schema st)) tn with
  | None => (RUnknownType, st1)
  | Some t =>
      match t_body t with
      | BObject ifs fs dr =>
          match dr with
          | Some _ => if negb allow then (RValueError, st1) else
              (RDone, mkState (set_body (m_schema st) tn (BObject ifs fs (Some sg))) false
                              (m_reg st1) (m_defs st1) (m_subs st1))
          | None =>
              (RDone, mkState (set_body (m_schema st) tn (BObject ifs fs (Some sg))) false
                              (m_reg st1) (m_defs st1) (m_subs st1))
          end
      | _ => (RSchemaError, st1)
      end
  end.

Definition step (st : mstate) (o : op) : step_result * mstate :=
  match o with
  | OpValidate =>
      if m_memo st then (RAccepted, st) else
      match validate_model (m_schema st) with
      | [] => (RAccepted, mkState (m_schema st) true (m_reg st) (m_defs st) (m_subs st))
      | errs => (RInvalid errs, st)
      end
  | OpValidateSchema rv =>
      (* the module function neither reads nor writes the memo *)
      match (if rv then validate_model (m_schema st) else validate_structural (m_schema st)) with
      | [] => (RAccepted, st)
      | errs => (RInvalid errs, st)
      end
  | OpRegisterDefault tn sg allow => do_register_default st tn sg allow allow
  | OpRegisterResolver tn fn sg allow =>
      if str_eqb fn (str_of_string "*") then
        (* ResolverMap.register_resolver -> self.register_default_resolver(tn, r): no override *)
        match do_register_default st tn sg false false with
        | (RDone, st') => (RDone, st')
        | r => r
        end
      else if pair_mem (tn, fn) (m_reg st) && negb allow then (RValueError, st) else
      let st1 := mkState (m_schema st) (m_memo st) ((tn, fn) :: m_reg st) (m_defs st) (m_subs st) in
      match find_type (s_types (m_schema st)) tn with
      | None => (RUnknownType, st1)
      | Some t =>
          match t_body t with
          | BObject ifs fs dr =>
              match find_last (fun f => str_eqb fn (f_name f)) fs with
              | None => (RSchemaError, st1)
              | Some f =>
                  if match f_resolver f with
                     | Some r => negb allow && negb (sig_eqb r sg)
                     | None => false end
                  then (RValueError, st1)
                  else
                    let f' := mkField (f_name f) (f_type f) (f_args f) (f_depr f) (Some sg) in
                    (* field_map holds the LAST field with that name: that object is mutated *)
                    let fs' := (fix upd (l : list field_def) : list field_def :=
                                  match l with
                                  | [] => []
                                  | x :: l' =>
                                      match find_last (fun f => str_eqb fn (f_name f)) l' with
                                      | Some _ => x :: upd l'
                                      | None => if str_eqb fn (f_name x) then f' :: l' else x :: l'
                                      end
                                  end) fs in
                    (RDone, mkState (set_body (m_schema st) tn (BObject ifs fs' dr)) false
                                    (m_reg st1) (m_defs st1) (m_subs st1))
              end
          | _ => (RSchemaError, st1)
          end
      end
  | OpAssignDefault sg =>
      (* the property setter of fix C13-05 resets the memo *)
      let s := m_schema st in
      (RDone, mkState (mkSchema (s_types s) (s_dirs s) (s_query s) (s_mutation s) (s_subscription s) sg)
                      false (m_reg st) (m_defs st) (m_subs st))
  | OpRegisterSubscription tn fn allow =>
      if pair_mem (tn, fn) (m_subs st) && negb allow then (RValueError, st) else
      let st1 := mkState (m_schema st) (m_memo st) (m_reg st) (m_defs st) ((tn, fn) :: m_subs st) in
      match find_type (s_types (m_schema st)) tn with
      | None => (RUnknownType, st1)
      | Some t =>
          match t_body t with
          | BObject ifs fs dr =>
              match find_last (fun f => str_eqb fn (f_name f)) fs with
              | None => (RSchemaError, st1)
              | Some _ =>
                  (* the subscription resolver is not part of the validated state;
                     a second, different one without override raises ValueError:
                     the harness registers each (type, field) subscription once
                     or with allow_override *)
                  (RDone, mkState (m_schema st) false (m_reg st1) (m_defs st1) (m_subs st1))
              end
          | _ => (RSchemaError, st1)
          end
      end
  end.

Fixpoint run (st : mstate) (ops : list op) : list step_result :=
  match ops with
  | [] => []
  | o :: ops' => let '(r, st') := step st o in r :: run st' ops'
  end.

Definition initial (s : schema) : mstate := mkState s false [] [] [].
