(* By-name, output-side model of py_gql.schema: type references are names
   wrapped in List / NonNull, a schema is an ordered table name -> definition
   plus the root type names. Identity of Python type objects is not
   observable by the executor (types are looked up by name and compared by
   identity of the unique object registered under a name), so names suffice.

   Stands for: schema/types.py (ObjectType, InterfaceType, UnionType, EnumType,
   ScalarType, Field, Argument), schema/scalars.py (serialisers of the five
   specified scalars), Schema.get_type, Schema.implementations,
   Schema.get_possible_types / is_possible_type (cache-free reading; the
   caches are modelled in Exec/ExecCache.v). *)
From PyGql Require Export Base.Str Base.Pv.

Inductive tref :=
| RNamed (n : str)
| RList (t : tref)
| RNonNull (t : tref).

(* Argument(name, type, default_value, python_name) *)
Record adef := ADef {
  ad_name : str; ad_pyname : str; ad_type : tref; ad_default : option pv }.

(* Field(name, type, args, python_name) *)
Record fdef := MkField {
  f_name : str; f_pyname : str; f_type : tref; f_args : list adef }.

Inductive scalar_kind :=
| SInt | SFloat | SString | SID | SBoolean
| SCustom (ser : pv -> option pv).     (* None = serializer raised ValueError/TypeError *)

Inductive tdef :=
| TObject (fields : list fdef) (ifaces : list str)
| TInterface (fields : list fdef)
| TUnion (types : list str)
| TEnum (values : list (str * pv))      (* (name, internal value), declaration order *)
| TScalar (k : scalar_kind)
| TInputObject.                          (* never a valid output type *)

Record schema := Schema {
  s_types : list (str * tdef);
  s_query : option str;
  s_mutation : option str;
  s_subscription : option str }.

(* Schema.get_type / schema.types[name] *)
Definition get_type (s : schema) (n : str) : option tdef := alookup n (s_types s).

(* {f.name: f for f in fields}.get(name): the last definition of a name wins *)
Fixpoint find_field (name : str) (fs : list fdef) : option fdef :=
  match fs with
  | [] => None
  | f :: fs' =>
      match find_field name fs' with
      | Some f' => Some f'
      | None => if str_eqb (f_name f) name then Some f else None
      end
  end.

(* Schema.implementations[iface]: object types listing the interface, in
   type-map order *)
Fixpoint implementations (iface : str) (ts : list (str * tdef)) : list str :=
  match ts with
  | [] => []
  | (n, TObject _ ifs) :: ts' =>
      if mem_str iface ifs then n :: implementations iface ts' else implementations iface ts'
  | _ :: ts' => implementations iface ts'
  end.

(* Schema.get_possible_types, without the memo table *)
Definition possible_types (s : schema) (abstract : str) : option (list str) :=
  match get_type s abstract with
  | Some (TUnion ts) => Some ts
  | Some (TInterface _) => Some (implementations abstract (s_types s))
  | _ => None                               (* TypeError: not an abstract type *)
  end.

Definition is_object (s : schema) (n : str) : bool :=
  match get_type s n with Some (TObject _ _) => true | _ => false end.

Definition is_abstract (s : schema) (n : str) : bool :=
  match get_type s n with Some (TUnion _) | Some (TInterface _) => true | _ => false end.

(* ------------------------------------------------------------------ text *)
(* decimal text of an integer, as str() prints it *)
Definition digit_char (d : N) : char := (48 + d)%N.

Fixpoint pos_digits_fuel (fuel : nat) (n : N) (acc : str) : str :=
  match fuel with
  | O => acc
  | S f =>
      let acc' := digit_char (N.modulo n 10) :: acc in
      if (n <? 10)%N then acc' else pos_digits_fuel f (N.div n 10) acc'
  end.

Definition N_digits (n : N) : str := pos_digits_fuel (S (N.to_nat (N.log2 n))) n [].

Definition Z_text (z : Z) : str :=
  match z with
  | Z0 => [48%N]
  | Zpos p => N_digits (Npos p)
  | Zneg p => 45%N :: N_digits (Npos p)
  end.

(* int(s, 10) restricted to the canonical shape -?[0-9]+ ; None = not of
   that shape *)
Definition is_digit (c : char) : bool := (48 <=? c)%N && (c <=? 57)%N.

Fixpoint digits_val (s : str) (acc : N) : option N :=
  match s with
  | [] => Some acc
  | c :: s' => if is_digit c then digits_val s' (acc * 10 + (c - 48))%N else None
  end.

Definition parse_decimal (s : str) : option Z :=
  match s with
  | [] => None
  | 45%N :: (_ :: _) as ds => option_map (fun n => Z.opp (Z.of_N n)) (digits_val ds 0%N)
  | _ => option_map Z.of_N (digits_val s 0%N)
  end.

Definition s_true := str_of_string "true"%string.
Definition s_false := str_of_string "false"%string.
Definition s_True := str_of_string "True"%string.
Definition s_False := str_of_string "False"%string.
Definition s_dot0 := str_of_string ".0"%string.

(* --------------------------------------------------------- serialisers *)
(* Result of ScalarType.serialize / EnumType.get_name on a resolved value. *)
Inductive ser_result :=
| SerOk (v : pv)
| SerError            (* ScalarSerializationError / UnknownEnumValue / TypeError: the executor re-raises a RuntimeError *)
| SerUnmodelled.      (* input outside the modelled domain of the Python builtin (int("1e3"), str(dict), ...) *)

Definition MAX_INT : Z := 2147483647.
Definition MIN_INT : Z := -2147483648.
Definition in_int_range (z : Z) : bool := (MIN_INT <=? z)%Z && (z <=? MAX_INT)%Z.

(* coerce_int (after the inclusive-bounds repair fixes/C07-01) *)
Definition serialize_int (v : pv) : ser_result :=
  match v with
  | PInt z => if in_int_range z then SerOk (PInt z) else SerError
  | PBool b => SerOk (PBool b)             (* bool is an int; returned unchanged *)
  | PStr [] => SerError
  | PStr s =>
      match parse_decimal s with
      | Some z => if in_int_range z then SerOk (PInt z) else SerError
      | None => SerUnmodelled
      end
  | PFloat _ => SerUnmodelled
  | PNone => SerError
  | PList _ | PDict _ => SerError
  end.

(* coerce_float: float(x); ints up to 10^15 print as <digits>.0 *)
Definition serialize_float (v : pv) : ser_result :=
  match v with
  | PInt z => if (Z.abs z <=? 1000000000000000)%Z then SerOk (PFloat (Z_text z ++ s_dot0)) else SerUnmodelled
  | PBool b => SerOk (PFloat (str_of_string (if b then "1.0" else "0.0")%string))
  | PFloat r => SerOk (PFloat r)
  | PStr [] => SerError
  | PStr _ => SerUnmodelled
  | PNone => SerError
  | PList _ | PDict _ => SerError
  end.

(* _serialize_string *)
Definition serialize_string (v : pv) : ser_result :=
  match v with
  | PBool b => SerOk (PStr (if b then s_true else s_false))
  | PInt z => SerOk (PStr (Z_text z))
  | PFloat r => SerOk (PStr r)
  | PStr s => SerOk (PStr s)
  | PNone => SerOk (PStr (str_of_string "None"%string))
  | PList _ => SerError
  | PDict _ => SerUnmodelled
  end.

(* str *)
Definition serialize_id (v : pv) : ser_result :=
  match v with
  | PBool b => SerOk (PStr (if b then s_True else s_False))
  | PInt z => SerOk (PStr (Z_text z))
  | PFloat r => SerOk (PStr r)
  | PStr s => SerOk (PStr s)
  | PNone => SerOk (PStr (str_of_string "None"%string))
  | PList _ | PDict _ => SerUnmodelled
  end.

Definition serialize_scalar (k : scalar_kind) (v : pv) : ser_result :=
  match k with
  | SInt => serialize_int v
  | SFloat => serialize_float v
  | SString => serialize_string v
  | SID => serialize_id v
  | SBoolean => SerOk (PBool (truthy v))
  | SCustom f => match f v with Some r => SerOk r | None => SerError end
  end.

(* Python == / hash on the hashable leaf values used as enum internal
   values: bool and int compare numerically. *)
Definition py_key_eqb (a b : pv) : bool :=
  match a, b with
  | PNone, PNone => true
  | PBool x, PBool y => Bool.eqb x y
  | PBool x, PInt y | PInt y, PBool x => Z.eqb (if x then 1 else 0) y
  | PInt x, PInt y => Z.eqb x y
  | PFloat x, PFloat y => str_eqb x y
  | PStr x, PStr y => str_eqb x y
  | _, _ => false
  end.

Definition hashable (v : pv) : bool :=
  match v with PList _ | PDict _ => false | _ => true end.

(* _reverse_values[value].name : the dict is filled in declaration order, a
   later value equal to an earlier one replaces it *)
Fixpoint enum_rev_lookup (v : pv) (vals : list (str * pv)) : option str :=
  match vals with
  | [] => None
  | (n, iv) :: vals' =>
      match enum_rev_lookup v vals' with
      | Some n' => Some n'
      | None => if py_key_eqb iv v then Some n else None
      end
  end.

Definition enum_get_name (vals : list (str * pv)) (v : pv) : ser_result :=
  if hashable v then
    match enum_rev_lookup v vals with Some n => SerOk (PStr n) | None => SerError end
  else SerError.
