(* C14 -- schemas by identity: an explicit object heap.

   Stands for (py_gql, after fixes C14-01..03):
     schema/schema.py      Schema.__init__, _build_directive_map, _build_type_map,
                           _invalidate_and_rebuild_caches, get_possible_types,
                           _replace_types_and_directives, clone
     schema/schema_visitor.py         SchemaVisitor (rebuild only when a member list changed)
     schema/fix_type_references.py    _HealSchemaVisitor, fix_type_references
     schema/transforms/visibility.py  VisibilitySchemaTransform
     schema/transforms/camel_case.py  CamelCaseSchemaTransform
     sdl/schema_directives.py         _SchemaDirectivesApplicationVisitor (driver)
   Python object identity is an [oid]; attribute assignment is [write]; object
   construction is [alloc]. Dicts are insertion-ordered association lists.
   No proofs in this file. *)
From PyGql Require Export Base.Str Base.Pv.
Local Open Scope N_scope.

Definition oid := N.

Inductive tref := RNamed (o : oid) | RList (r : tref) | RNonNull (r : tref).
Inductive kind := Kscalar | Kobject | Kinterface | Kunion | Kenum | Kinput.
Definition dirapp := (str * option str)%type.   (* applied schema directive: name, "to" argument *)

Inductive obj :=
| OType (name : str) (k : kind) (desc : option str) (members ifaces : list oid)
        (res : option N) (dirs : list dirapp)
    (* members: fields | input fields | enum values; ifaces: interfaces of an object | member
       types of a union; res: default_resolver of an object | resolve_type of an abstract type *)
| OField (name pyname : str) (ty : tref) (args : list oid) (desc depr : option str)
         (res sub : option N) (dirs : list dirapp)
| OInput (is_arg : bool) (name pyname : str) (ty : tref) (default : option pv)
         (desc : option str) (dirs : list dirapp)          (* Argument | InputField *)
| OEnumV (name : str) (value : pv) (desc depr : option str) (dirs : list dirapp)
| ODir (name : str) (desc : option str) (locs : list str) (args : list oid).

(* ------------------------------------------------------------------ memory *)
Definition heap := list (oid * obj).

Fixpoint hget (h : heap) (o : oid) : option obj :=
  match h with
  | [] => None
  | (o', v) :: h' => if N.eqb o o' then Some v else hget h' o
  end.

Record mem := MkMem { m_heap : heap; m_next : oid }.

Definition mget (m : mem) (o : oid) : option obj := hget (m_heap m) o.
Definition alloc (m : mem) (v : obj) : mem * oid :=
  (MkMem ((m_next m, v) :: m_heap m) (N.succ (m_next m)), m_next m).
Definition write (m : mem) (o : oid) (v : obj) : mem := MkMem ((o, v) :: m_heap m) (m_next m).

(* specified scalars Int Float String Boolean ID live at oids 1..5 and are
   shared by every schema (SPECIFIED_SCALAR_TYPES / _PROTECTED_TYPES) *)
Definition is_builtin (o : oid) : bool := N.leb 1 o && N.leb o 5.

(* ------------------------------------------------------------- dictionaries *)
Fixpoint aset {A} (k : str) (v : A) (l : list (str * A)) : list (str * A) :=
  match l with
  | [] => [(k, v)]
  | (k', v') :: l' => if str_eqb k k' then (k', v) :: l' else (k', v') :: aset k v l'
  end.
Fixpoint adel {A} (k : str) (l : list (str * A)) : list (str * A) :=
  match l with
  | [] => []
  | (k', v') :: l' => if str_eqb k k' then l' else (k', v') :: adel k l'
  end.
Definition ahas {A} (k : str) (l : list (str * A)) : bool :=
  match alookup k l with Some _ => true | None => false end.
Fixpoint aappend (k : str) (v : oid) (l : list (str * list oid)) : list (str * list oid) :=
  match l with
  | [] => [(k, [v])]
  | (k', vs) :: l' => if str_eqb k k' then (k', vs ++ [v]) :: l' else (k', vs) :: aappend k v l'
  end.
Fixpoint nlookup {A} (k : oid) (l : list (oid * A)) : option A :=
  match l with
  | [] => None
  | (k', v) :: l' => if N.eqb k k' then Some v else nlookup k l'
  end.

Fixpoint oids_eqb (a b : list oid) : bool :=
  match a, b with
  | [], [] => true
  | x :: a', y :: b' => N.eqb x y && oids_eqb a' b'
  | _, _ => false
  end.
Definition ooid_eqb (a b : option oid) : bool :=
  match a, b with
  | None, None => true
  | Some x, Some y => N.eqb x y
  | _, _ => false
  end.
Definition kind_eqb (a b : kind) : bool :=
  match a, b with
  | Kscalar, Kscalar | Kobject, Kobject | Kinterface, Kinterface
  | Kunion, Kunion | Kenum, Kenum | Kinput, Kinput => true
  | _, _ => false
  end.

(* ------------------------------------------------------------------ schema *)
Record schema := MkSchema {
  s_types : list (str * oid);          (* Schema.types *)
  s_dirs : list (str * oid);           (* Schema.directives, specified ones left out *)
  s_query : option oid; s_mut : option oid; s_sub : option oid;
  s_impls : list (str * list oid);     (* Schema.implementations *)
  s_poss : list (oid * list oid)       (* Schema._possible_types (a cache keyed by object) *)
}.

Definition tname (m : mem) (o : oid) : option str :=
  match mget m o with Some (OType n _ _ _ _ _ _) => Some n | _ => None end.
Definition tkind (m : mem) (o : oid) : option kind :=
  match mget m o with Some (OType _ k _ _ _ _ _) => Some k | _ => None end.

Fixpoint unwrap (r : tref) : oid :=
  match r with RNamed o => o | RList r' => unwrap r' | RNonNull r' => unwrap r' end.

Definition member_type (m : mem) (o : oid) : list oid :=
  match mget m o with
  | Some (OInput _ _ _ ty _ _ _) => [unwrap ty]
  | _ => []
  end.
Definition field_children (m : mem) (f : oid) : list oid :=
  match mget m f with
  | Some (OField _ _ ty args _ _ _ _ _) => unwrap ty :: flat_map (member_type m) args
  | _ => []
  end.

(* the types _build_type_map looks at below a named type, in its order *)
Definition children (m : mem) (o : oid) : list oid :=
  match mget m o with
  | Some (OType _ k _ members ifaces _ _) =>
      match k with
      | Kunion => ifaces
      | Kobject => ifaces ++ flat_map (field_children m) members
      | Kinterface => flat_map (field_children m) members
      | Kinput => flat_map (member_type m) members
      | _ => []
      end
  | _ => []
  end.

(* _build_type_map: pre-order traversal; a second object under a registered
   name is 'Duplicate type' *)
Fixpoint build_map (fuel : nat) (m : mem) (stack : list oid) (tm : list (str * oid))
  : outcome (list (str * oid)) :=
  match fuel with
  | O => OutOfFuel
  | S f =>
      match stack with
      | [] => Ok tm
      | o :: rest =>
          match tname m o with
          | None => Crash 1
          | Some n =>
              match alookup n tm with
              | Some o' => if N.eqb o o' then build_map f m rest tm else Rejected 1 0
              | None => build_map f m (children m o ++ rest) (tm ++ [(n, o)])
              end
          end
      end
  end.

Definition builtin_types : list (str * oid) :=
  [(str_of_string "Int", 1); (str_of_string "Float", 2); (str_of_string "Boolean", 4);
   (str_of_string "String", 3); (str_of_string "ID", 5)].

Definition builtin_heap : heap :=
  map (fun e => (snd e, OType (fst e) Kscalar None [] [] None [])) builtin_types.

Definition dname (m : mem) (o : oid) : option str :=
  match mget m o with Some (ODir n _ _ _) => Some n | _ => None end.
Definition dir_args (m : mem) (o : oid) : list oid :=
  match mget m o with Some (ODir _ _ _ args) => args | _ => [] end.

(* _build_directive_map (custom directives only) *)
Fixpoint build_dirs (m : mem) (ds : list oid) (dm : list (str * oid)) : outcome (list (str * oid)) :=
  match ds with
  | [] => Ok dm
  | d :: rest =>
      match dname m d with
      | None => Rejected 4 0
      | Some n =>
          match alookup n dm with
          | Some d' => if N.eqb d d' then build_dirs m rest dm else Rejected 5 0
          | None => build_dirs m rest (dm ++ [(n, d)])
          end
      end
  end.

Definition otolist (o : option oid) : list oid := match o with Some x => [x] | None => [] end.

(* _invalidate_and_rebuild_caches *)
Definition impls_of_type (m : mem) (acc : list (str * list oid)) (e : str * oid) : list (str * list oid) :=
  match mget m (snd e) with
  | Some (OType _ Kobject _ _ ifaces _ _) =>
      fold_left (fun acc i => match tname m i with Some n => aappend n (snd e) acc | None => acc end)
                ifaces acc
  | _ => acc
  end.
Definition rebuild_caches (m : mem) (s : schema) : schema :=
  MkSchema (s_types s) (s_dirs s) (s_query s) (s_mut s) (s_sub s)
           (fold_left (impls_of_type m) (s_types s) []) [].

(* Schema(query_type, mutation_type, subscription_type, directives, types) *)
Definition build (fuel : nat) (m : mem) (q mu su : option oid) (dirs types : list oid)
  : outcome schema :=
  do dm <- build_dirs m dirs [];
  do tm <- build_map fuel m
             (types ++ otolist q ++ otolist mu ++ otolist su
                    ++ flat_map (member_type m) (flat_map (dir_args m) (map snd dm)))
             builtin_types;
  Ok (rebuild_caches m (MkSchema tm dm q mu su [] [])).

(* Schema.get_possible_types, for every registered abstract type (what
   observing a schema does to its cache) *)
Definition possible_of (m : mem) (s : schema) (o : oid) : option (list oid) :=
  match mget m o with
  | Some (OType _ Kunion _ _ members _ _) => Some members
  | Some (OType n Kinterface _ _ _ _ _) =>
      Some (match alookup n (s_impls s) with Some l => l | None => [] end)
  | _ => None
  end.
Definition touch_poss (m : mem) (s : schema) : schema :=
  MkSchema (s_types s) (s_dirs s) (s_query s) (s_mut s) (s_sub s) (s_impls s)
    (fold_left (fun cache e =>
                  match nlookup (snd e) cache with
                  | Some _ => cache
                  | None => match possible_of m s (snd e) with
                            | Some l => cache ++ [(snd e, l)]
                            | None => cache
                            end
                  end) (s_types s) (s_poss s)).

(* --------------------------------------------------------- schema visitors *)
(* result of a visitor method: None = a library error was raised; otherwise the
   new memory and the returned object (None = drop the element) *)
Definition hres := option (mem * option oid).
Definition hook := mem -> oid -> hres.
Definition hid : hook := fun m o => Some (m, Some o).

Record visitor := MkVisitor {
  v_arg_pre : hook;  v_arg_post : hook;          (* on_argument around SchemaVisitor.on_argument *)
  v_inf_pre : hook;  v_inf_post : hook;          (* on_input_field *)
  v_env_pre : hook;                              (* on_enum_value *)
  v_field_pre : hook; v_field_post : hook;       (* on_field *)
  v_type_pre : hook; v_type_post : hook;         (* on_object / on_interface / ... *)
  v_dir_pre : hook                               (* on_directive *)
}.

Definition hseq (pre : hook) (base : hook) (post : hook) : hook :=
  fun m o =>
    match pre m o with
    | None => None
    | Some (m1, None) => Some (m1, None)
    | Some (m1, Some o1) =>
        match base m1 o1 with
        | None => None
        | Some (m2, None) => Some (m2, None)
        | Some (m2, Some o2) => post m2 o2
        end
    end.

(* map_and_filter *)
Fixpoint map_filter (f : hook) (m : mem) (l : list oid) : option (mem * list oid) :=
  match l with
  | [] => Some (m, [])
  | x :: l' =>
      match f m x with
      | None => None
      | Some (m1, r) =>
          match map_filter f m1 l' with
          | None => None
          | Some (m2, rs) => Some (m2, match r with Some y => y :: rs | None => rs end)
          end
      end
  end.

Definition visit_arg (v : visitor) : hook := hseq (v_arg_pre v) hid (v_arg_post v).
Definition visit_inf (v : visitor) : hook := hseq (v_inf_pre v) hid (v_inf_post v).
Definition visit_env (v : visitor) : hook := hseq (v_env_pre v) hid hid.

(* SchemaVisitor.on_field *)
Definition base_field (v : visitor) : hook := fun m f =>
  match mget m f with
  | Some (OField _ _ _ args _ _ _ _ _) =>
      match map_filter (visit_arg v) m args with
      | None => None
      | Some (m1, args') =>
          if oids_eqb args' args then Some (m1, Some f)
          else match mget m1 f with
               | Some (OField n py ty _ d dp r s ds) =>
                   let (m2, f') := alloc m1 (OField n py ty args' d dp r s ds) in Some (m2, Some f')
               | _ => None
               end
      end
  | _ => None
  end.
Definition visit_field (v : visitor) : hook := hseq (v_field_pre v) (base_field v) (v_field_post v).

(* SchemaVisitor.on_object / on_interface / on_input_object / on_enum /
   on_scalar / on_union *)
Definition base_type (v : visitor) : hook := fun m t =>
  match mget m t with
  | Some (OType _ k _ members _ _ _) =>
      let member_hook := match k with
                         | Kobject | Kinterface => Some (visit_field v)
                         | Kinput => Some (visit_inf v)
                         | Kenum => Some (visit_env v)
                         | _ => None
                         end in
      match member_hook with
      | None => Some (m, Some t)
      | Some h =>
          match map_filter h m members with
          | None => None
          | Some (m1, members') =>
              if oids_eqb members' members then Some (m1, Some t)
              else match mget m1 t with
                   | Some (OType n k1 d _ ifaces r ds) =>
                       let (m2, t') := alloc m1 (OType n k1 d members' ifaces r ds) in Some (m2, Some t')
                   | _ => None
                   end
          end
      end
  | _ => None
  end.
Definition visit_type (v : visitor) : hook := hseq (v_type_pre v) (base_type v) (v_type_post v).

(* SchemaVisitor.on_directive *)
Definition base_dir (v : visitor) : hook := fun m d =>
  match mget m d with
  | Some (ODir _ _ _ args) =>
      match map_filter (visit_arg v) m args with
      | None => None
      | Some (m1, args') =>
          if oids_eqb args' args then Some (m1, Some d)
          else match mget m1 d with
               | Some (ODir n ds locs _) =>
                   let (m2, d') := alloc m1 (ODir n ds locs args') in Some (m2, Some d')
               | _ => None
               end
      end
  | _ => None
  end.
Definition visit_dir (v : visitor) : hook := hseq (v_dir_pre v) (base_dir v) hid.

Definition updates := list (str * option oid).

(* the two loops of SchemaVisitor.on_schema: updated_types / updated_directives *)
Fixpoint traverse_list (h : hook) (skip : oid -> bool) (m : mem) (l : list (str * oid))
  : option (mem * updates) :=
  match l with
  | [] => Some (m, [])
  | (n, o) :: l' =>
      if skip o then traverse_list h skip m l'
      else match h m o with
           | None => None
           | Some (m1, r) =>
               match traverse_list h skip m1 l' with
               | None => None
               | Some (m2, ups) =>
                   Some (m2, if ooid_eqb r (Some o) then ups else (n, r) :: ups)
               end
           end
  end.
Definition traverse (v : visitor) (m : mem) (s : schema) : option (mem * updates * updates) :=
  match traverse_list (visit_type v) is_builtin m (s_types s) with
  | None => None
  | Some (m1, tu) =>
      match traverse_list (visit_dir v) (fun _ => false) m1 (s_dirs s) with
      | None => None
      | Some (m2, du) => Some (m2, tu, du)
      end
  end.

(* ----------------------------------------------------- _HealSchemaVisitor *)
Fixpoint healed (m : mem) (tm : list (str * oid)) (r : tref) : option tref :=
  match r with
  | RNamed o => match tname m o with
                | Some n => match alookup n tm with Some o' => Some (RNamed o') | None => None end
                | None => None
                end
  | RList r' => match healed m tm r' with Some x => Some (RList x) | None => None end
  | RNonNull r' => match healed m tm r' with Some x => Some (RNonNull x) | None => None end
  end.
Definition healed_oid (m : mem) (tm : list (str * oid)) (o : oid) : option oid :=
  match tname m o with Some n => alookup n tm | None => None end.
Definition heal_oids (m : mem) (tm : list (str * oid)) (l : list oid) : list oid :=
  flat_map (fun o => otolist (healed_oid m tm o)) l.

Definition heal_member (tm : list (str * oid)) : hook := fun m o =>
  match mget m o with
  | Some (OField n py ty args d dp r s ds) =>
      match healed m tm ty with
      | Some ty' => Some (write m o (OField n py ty' args d dp r s ds), Some o)
      | None => Some (m, None)
      end
  | Some (OInput a n py ty df d ds) =>
      match healed m tm ty with
      | Some ty' => Some (write m o (OInput a n py ty' df d ds), Some o)
      | None => Some (m, None)
      end
  | _ => None
  end.
Definition heal_type (tm : list (str * oid)) : hook := fun m t =>
  match mget m t with
  | Some (OType n k d members ifaces r ds) =>
      match k with
      | Kobject | Kunion =>
          Some (write m t (OType n k d members (heal_oids m tm ifaces) r ds), Some t)
      | _ => Some (m, Some t)
      end
  | _ => None
  end.
Definition heal_visitor (tm : list (str * oid)) : visitor :=
  MkVisitor hid (heal_member tm) hid (heal_member tm) hid hid (heal_member tm) hid (heal_type tm) hid.

(* ------------------------------------------ _replace_types_and_directives *)
Fixpoint replace_types (m : mem) (ups : updates) (tm : list (str * oid)) (busted : bool)
  : outcome (list (str * oid) * bool) :=
  match ups with
  | [] => Ok (tm, busted)
  | (n, nw) :: rest =>
      match alookup n tm with
      | None => replace_types m rest tm busted
      | Some orig =>
          if is_builtin orig then Rejected 2 0
          else
            let busted' := busted || negb (ooid_eqb nw (Some orig)) in
            match nw with
            | None => replace_types m rest (adel n tm) busted'
            | Some o =>
                match tkind m orig, tkind m o with
                | Some k1, Some k2 =>
                    if kind_eqb k1 k2 then replace_types m rest (aset n o tm) busted'
                    else Rejected 3 0
                | _, _ => Crash 2
                end
            end
      end
  end.
Fixpoint replace_dirs (ups : updates) (dm : list (str * oid)) : outcome (list (str * oid)) :=
  match ups with
  | [] => Ok dm
  | (n, None) :: rest => if ahas n dm then replace_dirs rest (adel n dm) else Crash 3
  | (n, Some d) :: rest => replace_dirs rest (aset n d dm)
  end.
Definition reroot (m : mem) (tm : list (str * oid)) (r : option oid) : option oid :=
  match r with
  | None => None
  | Some o => match tname m o with Some n => alookup n tm | None => None end
  end.

(* _replace_types_and_directives, fix_type_references and the recursion
   between them ("recursive calls until no type needs to be updated") *)
Fixpoint replace_and_heal (fuel : nat) (m : mem) (s : schema) (tu du : updates)
  : outcome (mem * schema) :=
  match fuel with
  | O => OutOfFuel
  | S f =>
      do tb <- replace_types m tu (s_types s) false;
      do dm <- replace_dirs du (s_dirs s);
      let tm := fst tb in
      let s1 := MkSchema tm dm (reroot m tm (s_query s)) (reroot m tm (s_mut s))
                         (reroot m tm (s_sub s)) (s_impls s) (s_poss s) in
      if snd tb then
        match traverse (heal_visitor tm) m s1 with
        | None => Crash 4
        | Some (m1, tu1, du1) =>
            do r <- replace_and_heal f m1 s1 tu1 du1;
            Ok (fst r, rebuild_caches (fst r) (snd r))
        end
      else Ok (m, s1)
  end.

(* fix_type_references (after fix C14-04 it also refreshes the derived
   indexes; in the branch above the second refresh that follows it in
   _replace_types_and_directives is the same function of the same state) *)
Definition fix_type_references (fuel : nat) (m : mem) (s : schema) : outcome (mem * schema) :=
  match traverse (heal_visitor (s_types s)) m s with
  | None => Crash 4
  | Some (m1, tu, du) =>
      do r <- replace_and_heal fuel m1 s tu du;
      Ok (fst r, rebuild_caches (fst r) (snd r))
  end.

(* SchemaVisitor.on_schema *)
Definition on_schema (fuel : nat) (v : visitor) (m : mem) (s : schema) : outcome (mem * schema) :=
  match traverse v m s with
  | None => Rejected 6 0
  | Some (m1, tu, du) => replace_and_heal fuel m1 s tu du
  end.

(* ------------------------------------------------------------ Schema.clone *)
Fixpoint copy_all (m : mem) (l : list oid) : mem * list oid :=
  match l with
  | [] => (m, [])
  | o :: l' =>
      match mget m o with
      | Some v => let (m1, o') := alloc m v in
                  let (m2, r) := copy_all m1 l' in (m2, o' :: r)
      | None => copy_all m l'
      end
  end.
Definition clone_field (m : mem) (f : oid) : mem * list oid :=
  match mget m f with
  | Some (OField n py ty args d dp r s ds) =>
      let (m1, args') := copy_all m args in
      let (m2, f') := alloc m1 (OField n py ty args' d dp r s ds) in (m2, [f'])
  | _ => (m, [])
  end.
Fixpoint clone_fields (m : mem) (l : list oid) : mem * list oid :=
  match l with
  | [] => (m, [])
  | f :: l' => let (m1, r1) := clone_field m f in
               let (m2, r2) := clone_fields m1 l' in (m2, r1 ++ r2)
  end.
Definition clone_type (m : mem) (t : oid) : mem * option oid :=
  match mget m t with
  | Some (OType n k d members ifaces r ds) =>
      let (m1, members') := match k with
                            | Kobject | Kinterface => clone_fields m members
                            | Kinput | Kenum => copy_all m members
                            | _ => (m, members)
                            end in
      let (m2, t') := alloc m1 (OType n k d members' ifaces r ds) in (m2, Some t')
  | _ => (m, None)
  end.
Definition clone_dir (m : mem) (d : oid) : mem * option oid :=
  match mget m d with
  | Some (ODir n ds locs args) =>
      let (m1, args') := copy_all m args in
      let (m2, d') := alloc m1 (ODir n ds locs args') in (m2, Some d')
  | _ => (m, None)
  end.
Fixpoint clone_entries (c : mem -> oid -> mem * option oid) (skip : oid -> bool) (m : mem)
         (l : list (str * oid)) : mem * updates :=
  match l with
  | [] => (m, [])
  | (n, o) :: l' =>
      if skip o then clone_entries c skip m l'
      else let (m1, r) := c m o in
           let (m2, ups) := clone_entries c skip m1 l' in
           (m2, match r with Some o' => (n, Some o') :: ups | None => ups end)
  end.

Definition clone (fuel : nat) (m : mem) (s : schema) : outcome (mem * schema) :=
  do s0 <- build fuel m (s_query s) (s_mut s) (s_sub s) (map snd (s_dirs s)) (map snd (s_types s));
  let (m1, tu) := clone_entries clone_type is_builtin m (s_types s) in
  let (m2, du) := clone_entries clone_dir (fun _ => false) m1 (s_dirs s) in
  replace_and_heal fuel m2 s0 tu du.

(* transform_schema(schema, t) without its final validate() *)
Definition transform (fuel : nat) (v : visitor) (m : mem) (s : schema) : outcome (mem * schema) :=
  do c <- clone fuel m s;
  on_schema fuel v (fst c) (snd c).

(* -------------------------------------------- VisibilitySchemaTransform *)
Record vis_preds := MkVis {
  vp_type : str -> bool;               (* is_type_visible *)
  vp_dir : str -> bool;                (* is_directive_visible *)
  vp_field : str -> str -> bool;       (* is_field_visible *)
  vp_inf : str -> str -> bool;         (* is_input_field_visible *)
  vp_arg : str -> bool;                (* a subclass overriding on_argument *)
  vp_env : str -> bool                 (* a subclass overriding on_enum_value *)
}.

Definition oname (m : mem) (o : oid) : option str :=
  match mget m o with
  | Some (OType n _ _ _ _ _ _) | Some (OField n _ _ _ _ _ _ _ _) | Some (OInput _ n _ _ _ _ _)
  | Some (OEnumV n _ _ _ _) | Some (ODir n _ _ _) => Some n
  | None => None
  end.
Definition type_visible (p : vis_preds) (m : mem) (t : oid) : bool :=
  is_builtin t || match tname m t with Some n => vp_type p n | None => true end.
Definition by_name (pred : str -> bool) : hook := fun m o =>
  match oname m o with
  | Some n => Some (m, if pred n then Some o else None)
  | None => None
  end.
Definition filter_by_name (m : mem) (pred : str -> bool) (l : list oid) : list oid :=
  filter (fun o => match oname m o with Some n => pred n | None => false end) l.

Definition vis_type_pre (p : vis_preds) : hook := fun m t =>
  match mget m t with
  | Some (OType n k d members ifaces r ds) =>
      match k with
      | Kobject | Kinterface =>
          if type_visible p m t then
            let members' := filter_by_name m (vp_field p n) members in
            Some (if oids_eqb members' members then m
                  else write m t (OType n k d members' ifaces r ds), Some t)
          else Some (m, None)
      | Kinput =>
          let members' := filter_by_name m (vp_inf p n) members in
          Some (if oids_eqb members' members then m
                else write m t (OType n k d members' ifaces r ds), Some t)
      | _ => Some (m, Some t)
      end
  | _ => None
  end.
Definition vis_type_post (p : vis_preds) : hook := fun m t =>
  match tkind m t with
  | Some Kobject | Some Kinterface => Some (m, Some t)
  | Some _ => Some (m, if type_visible p m t then Some t else None)
  | None => None
  end.
Definition vis_inf_pre (p : vis_preds) : hook := fun m o =>
  match mget m o with
  | Some (OInput _ _ _ ty _ _ _) => Some (m, if type_visible p m (unwrap ty) then Some o else None)
  | _ => None
  end.
Definition vis_visitor (p : vis_preds) : visitor :=
  MkVisitor (by_name (vp_arg p)) hid (vis_inf_pre p) hid (by_name (vp_env p)) hid hid
            (vis_type_pre p) (vis_type_post p) (by_name (vp_dir p)).

(* ---------------------------------------------- CamelCaseSchemaTransform *)
Definition camel_member (camel : str -> str) : hook := fun m o =>
  match mget m o with
  | Some (OField n py ty args d dp r s ds) =>
      let (m1, o') := alloc m (OField (camel n) py ty args d dp r s ds) in Some (m1, Some o')
  | Some (OInput a n py ty df d ds) =>
      let (m1, o') := alloc m (OInput a (camel n) py ty df d ds) in Some (m1, Some o')
  | _ => None
  end.
Definition camel_visitor (camel : str -> str) : visitor :=
  MkVisitor (camel_member camel) hid (camel_member camel) hid hid (camel_member camel) hid hid hid hid.

(* -------------------------- _SchemaDirectivesApplicationVisitor (driver) *)
(* a schema directive implementation: given the directive name, its "to"
   argument and the element, returns the same element, a new element of the
   same kind, or None *)
Definition sdimpl := str -> option str -> mem -> oid -> mem * option oid.

Definition obj_dirs (m : mem) (o : oid) : list dirapp :=
  match mget m o with
  | Some (OType _ _ _ _ _ _ ds) | Some (OField _ _ _ _ _ _ _ _ ds) | Some (OInput _ _ _ _ _ _ ds)
  | Some (OEnumV _ _ _ _ ds) => ds
  | _ => []
  end.

(* for sd in self._collect_schema_directives(x, loc): x = sd.on_X(x); if x is None: return None *)
Fixpoint sd_chain (defs : list (str * list str)) (impl : sdimpl) (loc : str)
         (ds : list dirapp) (applied : list str) (m : mem) (o : oid) : hres :=
  match ds with
  | [] => Some (m, Some o)
  | (dn, arg) :: rest =>
      match alookup dn defs with
      | None => None                                   (* Unknown directive *)
      | Some locs =>
          if negb (mem_str loc locs) then None         (* not applicable *)
          else if mem_str dn applied then None         (* already applied *)
          else match impl dn arg m o with
               | (m1, None) => Some (m1, None)
               | (m1, Some o1) => sd_chain defs impl loc rest (dn :: applied) m1 o1
               end
      end
  end.
Definition sd_hook (defs : list (str * list str)) (impl : sdimpl) (loc : mem -> oid -> option str) : hook :=
  fun m o => match loc m o with
             | Some l => sd_chain defs impl l (obj_dirs m o) [] m o
             | None => None
             end.
Definition loc_const (l : string) : mem -> oid -> option str := fun _ _ => Some (str_of_string l).
Definition loc_type : mem -> oid -> option str := fun m t =>
  match tkind m t with
  | Some Kscalar => Some (str_of_string "SCALAR")
  | Some Kobject => Some (str_of_string "OBJECT")
  | Some Kinterface => Some (str_of_string "INTERFACE")
  | Some Kunion => Some (str_of_string "UNION")
  | Some Kenum => Some (str_of_string "ENUM")
  | Some Kinput => Some (str_of_string "INPUT_OBJECT")
  | None => None
  end.
Definition sd_visitor (defs : list (str * list str)) (impl : sdimpl) : visitor :=
  MkVisitor (sd_hook defs impl (loc_const "ARGUMENT_DEFINITION")) hid
            (sd_hook defs impl (loc_const "INPUT_FIELD_DEFINITION")) hid
            (sd_hook defs impl (loc_const "ENUM_VALUE"))
            (sd_hook defs impl (loc_const "FIELD_DEFINITION")) hid
            (sd_hook defs impl loc_type) hid
            hid.

(* the constructor of the driver resolves each SchemaDirective.definition
   (a name) in schema.directives *)
Fixpoint sd_defs (m : mem) (s : schema) (names : list str) : option (list (str * list str)) :=
  match names with
  | [] => Some []
  | n :: rest =>
      match alookup n (s_dirs s) with
      | None => None
      | Some d => match mget m d, sd_defs m s rest with
                  | Some (ODir _ _ locs _), Some r => Some ((n, locs) :: r)
                  | _, _ => None
                  end
      end
  end.
Definition apply_schema_directives (fuel : nat) (names : list str) (impl : sdimpl) (m : mem) (s : schema)
  : outcome (mem * schema) :=
  match sd_defs m s names with
  | None => Rejected 7 0
  | Some defs => on_schema fuel (sd_visitor defs impl) m s
  end.

(* ------------------------------------------------------------------ observe *)
Inductive sx := SA (n : N) | SS (s : str) | SL (l : list sx).

Fixpoint str_cmp (a b : str) : comparison :=
  match a, b with
  | [], [] => Eq
  | [], _ => Lt
  | _, [] => Gt
  | x :: a', y :: b' => match N.compare x y with Eq => str_cmp a' b' | c => c end
  end.
Fixpoint sx_cmp (a b : sx) : comparison :=
  match a, b with
  | SA x, SA y => N.compare x y
  | SA _, _ => Lt
  | _, SA _ => Gt
  | SS x, SS y => str_cmp x y
  | SS _, _ => Lt
  | _, SS _ => Gt
  | SL x, SL y =>
      (fix go (x y : list sx) : comparison :=
         match x, y with
         | [], [] => Eq
         | [], _ => Lt
         | _, [] => Gt
         | p :: x', q :: y' => match sx_cmp p q with Eq => go x' y' | c => c end
         end) x y
  end.
Definition sx_eqb (a b : sx) : bool := match sx_cmp a b with Eq => true | _ => false end.
Fixpoint sx_insert (x : sx) (l : list sx) : list sx :=
  match l with
  | [] => [x]
  | y :: l' => match sx_cmp x y with Gt => y :: sx_insert x l' | _ => x :: l end
  end.
Definition sx_sort (l : list sx) : list sx := fold_right sx_insert [] l.

Definition sx_ostr (o : option str) : sx := SL (match o with Some x => [SS x] | None => [] end).
Definition sx_on (o : option N) : sx := SL (match o with Some x => [SA x] | None => [] end).
Definition sx_bool (b : bool) : sx := SA (if b then 1 else 0).
Fixpoint sx_pv (v : pv) : sx :=
  match v with
  | PNone => SL [SA 0]
  | PBool b => SL [SA 1; sx_bool b]
  | PInt z => SL [SA 2; sx_bool (Z.ltb z 0); SA (Z.abs_N z)]
  | PFloat r => SL [SA 3; SS r]
  | PStr x => SL [SA 4; SS x]
  | PList l => SL (SA 5 :: map sx_pv l)
  | PDict kvs => SL (SA 6 :: map (fun kv => SL [SS (fst kv); sx_pv (snd kv)]) kvs)
  end.

Definition registered (m : mem) (tm : list (str * oid)) (o : oid) : bool :=
  match tname m o with
  | Some n => match alookup n tm with Some o' => N.eqb o o' | None => false end
  | None => false
  end.
Definition sx_named (m : mem) (tm : list (str * oid)) (o : oid) : sx :=
  SL [SS (match tname m o with Some n => n | None => [] end); sx_bool (registered m tm o)].
Fixpoint ref_wrappers (r : tref) : list sx :=
  match r with
  | RNamed _ => []
  | RList r' => SA 1 :: ref_wrappers r'
  | RNonNull r' => SA 2 :: ref_wrappers r'
  end.
Definition sx_ref (m : mem) (tm : list (str * oid)) (r : tref) : sx :=
  match sx_named m tm (unwrap r) with
  | SL [n; b] => SL [SL (ref_wrappers r); n; b]
  | x => x
  end.
(* the schema directives applied to an element (read from its AST nodes) *)
Definition sx_dirs (ds : list dirapp) : sx := SL (map (fun d => SL [SS (fst d); sx_ostr (snd d)]) ds).
Definition sx_input (m : mem) (tm : list (str * oid)) (o : oid) : sx :=
  match mget m o with
  | Some (OInput _ n py ty df d ds) =>
      SL [SS n; SS py; sx_ref m tm ty; SL (match df with Some v => [sx_pv v] | None => [] end); sx_ostr d; sx_dirs ds]
  | _ => SA 99
  end.
Definition sx_field (m : mem) (tm : list (str * oid)) (o : oid) : sx :=
  match mget m o with
  | Some (OField n py ty args d dp r s ds) =>
      SL [SS n; SS py; sx_ref m tm ty; SL (map (sx_input m tm) args); sx_ostr d; sx_ostr dp; sx_on r; sx_on s; sx_dirs ds]
  | _ => SA 99
  end.
Definition sx_enumv (m : mem) (o : oid) : sx :=
  match mget m o with
  | Some (OEnumV n v d dp ds) => SL [SS n; sx_pv v; sx_ostr d; sx_ostr dp; sx_dirs ds]
  | _ => SA 99
  end.
Definition kind_code (k : kind) : N :=
  match k with Kscalar => 0 | Kobject => 1 | Kinterface => 2 | Kunion => 3 | Kenum => 4 | Kinput => 5 end.
Definition sx_type (m : mem) (tm : list (str * oid)) (o : oid) : sx :=
  match mget m o with
  | Some (OType n k d members ifaces r ds) =>
      SL [SS n; SA (kind_code k); sx_ostr d;
          SL (match k with
              | Kobject | Kinterface => map (sx_field m tm) members
              | Kinput => map (sx_input m tm) members
              | Kenum => map (sx_enumv m) members
              | _ => []
              end);
          SL (map (sx_named m tm) ifaces); sx_on r; sx_dirs ds]
  | _ => SA 99
  end.
Definition sx_dir (m : mem) (tm : list (str * oid)) (o : oid) : sx :=
  match mget m o with
  | Some (ODir n d locs args) => SL [SS n; sx_ostr d; SL (map SS locs); SL (map (sx_input m tm) args)]
  | _ => SA 99
  end.
Definition is_abstract (m : mem) (o : oid) : bool :=
  match tkind m o with Some Kinterface | Some Kunion => true | _ => false end.

(* identity-free dump of a schema (whose possible-types cache was touched) *)
Definition observe (m : mem) (s : schema) : sx :=
  let tm := s_types s in
  let root r := SL (match r with Some o => [sx_named m tm o] | None => [] end) in
  SL [SL [root (s_query s); root (s_mut s); root (s_sub s)];
      SL (sx_sort (map (fun e => sx_type m tm (snd e)) (filter (fun e => negb (is_builtin (snd e))) tm)));
      SL (sx_sort (map (fun e => sx_dir m tm (snd e)) (s_dirs s)));
      SL (sx_sort (flat_map (fun e => match snd e with
                                      | [] => []
                                      | l => [SL [SS (fst e); SL (sx_sort (map (sx_named m tm) l))]]
                                      end) (s_impls s)));
      SL (sx_sort (flat_map (fun e =>
                     if is_abstract m (snd e) then
                       [SL [SS (fst e);
                            SL (sx_sort (map (sx_named m tm)
                                  (match nlookup (snd e) (s_poss s) with Some l => l | None => [] end)))]]
                     else []) tm))].
