(* Model of the answer of the standard introspection query (C15).

   Stands for (py_gql, /repo/src/py_gql):
     schema/introspection.py   resolvers of __Schema / __Type / __Field /
                               __InputValue / __EnumValue / __Directive,
                               _resolve_type_kind, _format_default_value,
                               the __schema / __type / __typename fields
     utilities/introspection_query.py   the fixed selection shape (fragments
                               FullType / InputValue / TypeRef with its
                               seven nested ofType levels)
     schema/schema.py          Schema.types / directives registries,
                               implementations, get_possible_types
     execution/wrappers.py     ResolutionContext.field_definition (meta-field
                               injection, disable_introspection)
   The answer tree is written directly as a function of the schema (no
   executor model): dict key order is the order of the selections, lists are
   in the order the resolvers produce. *)
From PyGql Require Export Schema.IntrospectSchema.
Definition S_ (x : string) : str := str_of_string x.
Arguments S_ x%string.

(* ------------------------------------------------------------------ *)
(* json.dumps on the JSON-like values used as defaults                 *)

Fixpoint uint_digits (u : Decimal.uint) : str :=
  match u with
  | Decimal.Nil => []
  | Decimal.D0 u' => 48%N :: uint_digits u'
  | Decimal.D1 u' => 49%N :: uint_digits u'
  | Decimal.D2 u' => 50%N :: uint_digits u'
  | Decimal.D3 u' => 51%N :: uint_digits u'
  | Decimal.D4 u' => 52%N :: uint_digits u'
  | Decimal.D5 u' => 53%N :: uint_digits u'
  | Decimal.D6 u' => 54%N :: uint_digits u'
  | Decimal.D7 u' => 55%N :: uint_digits u'
  | Decimal.D8 u' => 56%N :: uint_digits u'
  | Decimal.D9 u' => 57%N :: uint_digits u'
  end.

(* str(int) *)
Definition dec_of_Z (z : Z) : str :=
  match z with
  | Z0 => [48%N]
  | Zpos p => uint_digits (Pos.to_uint p)
  | Zneg p => 45%N :: uint_digits (Pos.to_uint p)
  end.

Definition hex_digit (n : N) : N := if N.ltb n 10 then (48 + n)%N else (87 + n)%N.
(* '\\u{0:04x}' *)
Definition u_escape (n : N) : str :=
  [92%N; 117%N; hex_digit (N.modulo (N.div n 4096) 16); hex_digit (N.modulo (N.div n 256) 16);
   hex_digit (N.modulo (N.div n 16) 16); hex_digit (N.modulo n 16)].

(* json.encoder.py_encode_basestring_ascii: every character that is a double quote, a backslash, or outside space..tilde is escaped *)
Definition json_escape_char (c : N) : str :=
  if N.eqb c 34 then [92%N; 34%N]
  else if N.eqb c 92 then [92%N; 92%N]
  else if N.eqb c 10 then [92%N; 110%N]
  else if N.eqb c 13 then [92%N; 114%N]
  else if N.eqb c 9 then [92%N; 116%N]
  else if N.eqb c 8 then [92%N; 98%N]
  else if N.eqb c 12 then [92%N; 102%N]
  else if N.leb 32 c && N.leb c 126 then [c]
  else if N.ltb c 65536 then u_escape c
  else let n := (c - 65536)%N in
       u_escape (N.lor 55296 (N.land (N.shiftr n 10) 1023)) ++ u_escape (N.lor 56320 (N.land n 1023)).

Definition json_string (s : str) : str := 34%N :: flat_map json_escape_char s ++ [34%N].

Definition comma_sp : str := [44%N; 32%N].

Fixpoint json_dumps (v : pv) : str :=
  match v with
  | PNone => S_ "null"
  | PBool true => S_ "true"
  | PBool false => S_ "false"
  | PInt z => dec_of_Z z
  | PFloat r => r                      (* float.__repr__, finite floats only *)
  | PStr s => json_string s
  | PList l =>
      91%N :: (fix go (l : list pv) : str :=
                 match l with
                 | [] => []
                 | x :: l' => json_dumps x ++ match l' with [] => [] | _ => comma_sp ++ go l' end
                 end) l ++ [93%N]
  | PDict kvs =>
      123%N :: (fix go (l : list (str * pv)) : str :=
                  match l with
                  | [] => []
                  | (k, x) :: l' => json_string k ++ [58%N; 32%N] ++ json_dumps x
                                    ++ match l' with [] => [] | _ => comma_sp ++ go l' end
                  end) kvs ++ [125%N]
  end.

(* schema/introspection.py _format_default_value (as it is today: booleans
   and null as GraphQL keywords, a top-level str raw between double quotes,
   everything else through json.dumps) *)
Definition format_default_value (d : option pv) : pv :=
  match d with
  | None => PNone
  | Some (PBool true) => PStr (S_ "true")
  | Some (PBool false) => PStr (S_ "false")
  | Some PNone => PStr (S_ "null")
  | Some (PStr s) => PStr (34%N :: s ++ [34%N])
  | Some v => PStr (json_dumps v)
  end.

(* ------------------------------------------------------------------ *)
(* flags of the query text *)
Record iflags := IFlags {
  include_deprecated : bool;     (* fields(includeDeprecated: b) / enumValues(includeDeprecated: b) *)
  with_descriptions : bool }.    (* introspection_query(description=b) *)

Definition opt_str (o : option str) : pv := match o with Some x => PStr x | None => PNone end.

Definition desc_entry (fl : iflags) (d : option str) : list (str * pv) :=
  if with_descriptions fl then [(S_ "description", opt_str d)] else [].

(* _resolve_type_kind on a named type *)
Definition kind_of_def {D} (d : itypedef D) : str :=
  match d with
  | IScalar => S_ "SCALAR"
  | IObject _ _ => S_ "OBJECT"
  | IInterface _ => S_ "INTERFACE"
  | IUnion _ => S_ "UNION"
  | IEnum _ => S_ "ENUM"
  | IInputObject _ => S_ "INPUT_OBJECT"
  end.

Definition kind_of_name {D} (ts : list (itype D)) (n : str) : pv :=
  match find_type n ts with Some t => PStr (kind_of_def (t_def t)) | None => PNone end.

(* fragment TypeRef: [depth] further ofType levels are selected below this
   one (7 at the top); the innermost level has only kind and name *)
Fixpoint type_ref {D} (ts : list (itype D)) (depth : nat) (t : iref) : pv :=
  let head :=
    match t with
    | IRNamed n => [(S_ "kind", kind_of_name ts n); (S_ "name", PStr n)]
    | IRList _ => [(S_ "kind", PStr (S_ "LIST")); (S_ "name", PNone)]
    | IRNonNull _ => [(S_ "kind", PStr (S_ "NON_NULL")); (S_ "name", PNone)]
    end in
  match depth with
  | O => PDict head
  | S d =>
      PDict (head ++ [(S_ "ofType",
                       match t with
                       | IRNamed _ => PNone
                       | IRList t' => type_ref ts d t'
                       | IRNonNull t' => type_ref ts d t'
                       end)])
  end.

Definition top_ref {D} (ts : list (itype D)) (t : iref) : pv := type_ref ts 7 t.

(* fragment InputValue *)
Definition input_value_answer (fl : iflags) (ts : list (itype pv)) (iv : iinput pv) : pv :=
  PDict ([(S_ "name", PStr (iv_name iv))] ++ desc_entry fl (iv_desc iv) ++
         [(S_ "type", top_ref ts (iv_type iv));
          (S_ "defaultValue", format_default_value (iv_default iv))]).

Definition field_answer (fl : iflags) (ts : list (itype pv)) (f : ifield pv) : pv :=
  PDict ([(S_ "name", PStr (f_name f))] ++ desc_entry fl (f_desc f) ++
         [(S_ "args", PList (map (input_value_answer fl ts) (f_args f)));
          (S_ "type", top_ref ts (f_type f));
          (S_ "isDeprecated", PBool (f_deprecated f));
          (S_ "deprecationReason", opt_str (f_reason f))]).

Definition enum_value_answer (fl : iflags) (ev : ienumval) : pv :=
  PDict ([(S_ "name", PStr (ev_name ev))] ++ desc_entry fl (ev_desc ev) ++
         [(S_ "isDeprecated", PBool (ev_deprecated ev));
          (S_ "deprecationReason", opt_str (ev_reason ev))]).

(* __Type.fields / enumValues resolvers: declaration order, deprecated
   members only when includeDeprecated *)
Definition visible_fields {D} (fl : iflags) (fs : list (ifield D)) : list (ifield D) :=
  filter (fun f => negb (f_deprecated f) || include_deprecated fl) fs.
Definition visible_values (fl : iflags) (vs : list ienumval) : list ienumval :=
  filter (fun v => negb (ev_deprecated v) || include_deprecated fl) vs.

(* Schema._invalidate_and_rebuild_caches + get_possible_types: for an
   interface the object types of the registry (registry order) listing it,
   for a union its members (declaration order) *)
Definition implements {D} (iname : str) (t : itype D) : bool :=
  match t_def t with IObject _ ifs => mem_str iname ifs | _ => false end.
Definition implementations {D} (ts : list (itype D)) (iname : str) : list str :=
  map t_name (filter (implements iname) ts).

(* __Type.possibleTypes resolver: sorted by name *)
Definition possible_types {D} (ts : list (itype D)) (t : itype D) : option (list str) :=
  match t_def t with
  | IInterface _ => Some (sort_by (fun n => n) (implementations ts (t_name t)))
  | IUnion ms => Some (sort_by (fun n => n) ms)
  | _ => None
  end.

Definition opt_list (o : option (list pv)) : pv :=
  match o with Some l => PList l | None => PNone end.

(* fragment FullType *)
Definition full_type (fl : iflags) (ts : list (itype pv)) (t : itype pv) : pv :=
  let d := t_def t in
  PDict ([(S_ "kind", PStr (kind_of_def d)); (S_ "name", PStr (t_name t))] ++
         desc_entry fl (t_desc t) ++
         [(S_ "fields",
           opt_list match d with
                    | IObject fs _ => Some (map (field_answer fl ts) (visible_fields fl fs))
                    | IInterface fs => Some (map (field_answer fl ts) (visible_fields fl fs))
                    | _ => None
                    end);
          (S_ "inputFields",
           opt_list match d with
                    | IInputObject ivs => Some (map (input_value_answer fl ts) ivs)
                    | _ => None
                    end);
          (S_ "interfaces",
           opt_list match d with
                    | IObject _ ifs => Some (map (fun n => top_ref ts (IRNamed n)) ifs)
                    | _ => None
                    end);
          (S_ "enumValues",
           opt_list match d with
                    | IEnum vs => Some (map (enum_value_answer fl) (visible_values fl vs))
                    | _ => None
                    end);
          (S_ "possibleTypes",
           opt_list (option_map (map (fun n => top_ref ts (IRNamed n))) (possible_types ts t)))]).

Definition directive_answer (fl : iflags) (ts : list (itype pv)) (d : idirective pv) : pv :=
  PDict ([(S_ "name", PStr (dr_name d))] ++ desc_entry fl (dr_desc d) ++
         [(S_ "locations", PList (map PStr (dr_locations d)));
          (S_ "args", PList (map (input_value_answer fl ts) (dr_args d)))]).

Definition root_answer (o : option str) : pv :=
  match o with Some n => PDict [(S_ "name", PStr n)] | None => PNone end.

(* __Schema.types / directives resolvers: sorted by name *)
Definition sorted_types {D} (s : ischema D) : list (itype D) := sort_by t_name (s_types s).
Definition sorted_directives {D} (s : ischema D) : list (idirective D) := sort_by dr_name (s_directives s).

Definition schema_answer (s : ischema pv) (fl : iflags) : pv :=
  let ts := s_types s in
  PDict [(S_ "queryType", root_answer (Some (s_query s)));
         (S_ "mutationType", root_answer (s_mutation s));
         (S_ "subscriptionType", root_answer (s_subscription s));
         (S_ "types", PList (map (full_type fl ts) (sorted_types s)));
         (S_ "directives", PList (map (directive_answer fl ts) (sorted_directives s)))].

(* data of graphql_blocking(schema, introspection_query(description)) with
   includeDeprecated set to the flag *)
Definition introspect_model (s : ischema pv) (fl : iflags) : pv :=
  PDict [(S_ "__schema", schema_answer s fl)].

(* data of  { __type(name: n) { ...FullType } }  (unknown name: null) *)
Definition type_query_model (s : ischema pv) (fl : iflags) (n : str) : pv :=
  PDict [(S_ "__type",
          match find_type n (s_types s) with
          | Some t => full_type fl (s_types s) t
          | None => PNone
          end)].

(* ------------------------------------------------------------------ *)
(* Meta-field injection and the disable switch:
   ResolutionContext.field_definition(parent_type, name) *)
Inductive fdef_result :=
| FDNone                 (* None: the executor skips the selection *)
| FDSchema | FDType | FDTypename
| FDOrdinary (f : ifield pv)
| FDUnbound.             (* __schema/__type below a non-query parent: the code
                            reaches an unassigned local (UnboundLocalError);
                            validation rejects such documents first *)

Fixpoint find_field {D} (n : str) (fs : list (ifield D)) : option (ifield D) :=
  match fs with
  | [] => None
  | f :: fs' => if str_eqb n (f_name f) then Some f else find_field n fs'
  end.

Definition fields_of {D} (t : itype D) : list (ifield D) :=
  match t_def t with IObject fs _ => fs | IInterface fs => fs | _ => [] end.

Definition is_meta_name (n : str) : bool :=
  str_eqb n (S_ "__schema") || str_eqb n (S_ "__type") || str_eqb n (S_ "__typename").

Definition field_definition (disabled : bool) (s : ischema pv) (parent : itype pv) (n : str) : fdef_result :=
  if is_meta_name n then
    let is_query := str_eqb (s_query s) (t_name parent) in
    if disabled then FDNone
    else if str_eqb n (S_ "__schema") && is_query then FDSchema
    else if str_eqb n (S_ "__type") && is_query then FDType
    else if str_eqb n (S_ "__typename") then FDTypename
    else FDUnbound
  else match find_field n (fields_of parent) with
       | Some f => FDOrdinary f
       | None => FDNone
       end.

(* ------------------------------------------------------------------ *)
(* A small executor for probe selections: __typename at composite
   positions, ordinary fields resolved by the default resolver from a dict
   tree, abstract positions resolved through the __typename__ key (the
   executor's default type resolution), meta-fields with fixed sub-selections. *)
Inductive psel :=
| PSField (key : str) (name : str) (sub : list psel)     (* sub = [] for leaves *)
| PSTypename (key : str)
| PSSchema (key : str)                                   (* key: __schema { queryType { name } } *)
| PSType (key : str) (fl : iflags) (n : str).            (* key: __type(name: n) { ...FullType } *)

Definition psel_name (p : psel) : str :=
  match p with
  | PSField _ n _ => n
  | PSTypename _ => S_ "__typename"
  | PSSchema _ => S_ "__schema"
  | PSType _ _ _ => S_ "__type"
  end.

Definition is_object {D} (t : itype D) : bool :=
  match t_def t with IObject _ _ => true | _ => false end.
Definition is_abstract {D} (t : itype D) : bool :=
  match t_def t with IInterface _ => true | IUnion _ => true | _ => false end.

Definition is_possible {D} (ts : list (itype D)) (abstract : itype D) (n : str) : bool :=
  match possible_types ts abstract with Some l => mem_str n l | None => false end.

(* result of the probe executor: Some data, or None when the model's
   preconditions fail (not an object where one is needed, resolver value of
   the wrong shape, null below non-null ...: outside the probes generated) *)

(* Executor.complete_value; [rec] executes a selection on an object type *)
Fixpoint complete_value (s : ischema pv)
         (rec : itype pv -> pv -> list psel -> option (list (str * pv)))
         (t : iref) (sub : list psel) (v : pv) {struct t} : option pv :=
  match t with
  | IRNonNull t' => match complete_value s rec t' sub v with Some PNone => None | r => r end
  | IRList t' =>
      match v with
      | PNone => Some PNone
      | PList l =>
          option_map PList
            (fold_right (fun x acc => match complete_value s rec t' sub x, acc with
                                      | Some r, Some rs => Some (r :: rs)
                                      | _, _ => None end) (Some []) l)
      | _ => None
      end
  | IRNamed n =>
      match v with
      | PNone => Some PNone
      | _ =>
        match find_type n (s_types s) with
        | None => None
        | Some ty =>
            if is_object ty then option_map PDict (rec ty v sub)
            else if is_abstract ty then
              (* Executor.resolve_type, default type resolution *)
              match v with
              | PDict kvs =>
                  match alookup (S_ "__typename__") kvs with
                  | Some (PStr rn) =>
                      match find_type rn (s_types s) with
                      | Some rt => if is_object rt && is_possible (s_types s) ty rn
                                   then option_map PDict (rec rt v sub)
                                   else None
                      | None => None
                      end
                  | _ => None
                  end
              | _ => None
              end
            else match sub with [] => Some v | _ => None end   (* leaf: serialised as is *)
        end
      end
  end.

(* one selection: None = precondition failure, Some None = skipped *)
Definition exec_one (rec : itype pv -> pv -> list psel -> option (list (str * pv)))
           (disabled : bool) (s : ischema pv) (parent : itype pv) (value : pv) (p : psel)
  : option (option (str * pv)) :=
  match field_definition disabled s parent (psel_name p), p with
  | FDNone, _ => Some None
  | FDTypename, PSTypename k => Some (Some (k, PStr (t_name parent)))
  | FDSchema, PSSchema k =>
      Some (Some (k, PDict [(S_ "queryType", root_answer (Some (s_query s)))]))
  | FDType, PSType k fl n =>
      Some (Some (k, match find_type n (s_types s) with
                     | Some t => full_type fl (s_types s) t
                     | None => PNone end))
  | FDOrdinary f, PSField k _ sub =>
      (* default_resolver on a dict *)
      let v := match value with
               | PDict kvs => match alookup (f_name f) kvs with Some x => x | None => PNone end
               | _ => PNone
               end in
      match complete_value s rec (f_type f) sub v with
      | Some r => Some (Some (k, r))
      | None => None
      end
  | _, _ => None
  end.

(* Executor.execute_fields on an object type *)
Fixpoint exec_sels (fuel : nat) (disabled : bool) (s : ischema pv) (parent : itype pv)
         (value : pv) (sels : list psel) : option (list (str * pv)) :=
  match fuel with
  | O => None
  | S fuel' =>
    match sels with
    | [] => Some []
    | p :: rest =>
        match exec_one (exec_sels fuel' disabled s) disabled s parent value p,
              exec_sels fuel' disabled s parent value rest with
        | Some None, Some r => Some r
        | Some (Some kv), Some r => Some (kv :: r)
        | _, _ => None
        end
    end
  end.

Definition root_type (s : ischema pv) (mutation : bool) : option (itype pv) :=
  if mutation then match s_mutation s with Some n => find_type n (s_types s) | None => None end
  else find_type (s_query s) (s_types s).

Definition probe_model (fuel : nat) (disabled mutation : bool) (s : ischema pv) (root : pv)
           (sels : list psel) : option pv :=
  match root_type s mutation with
  | Some rt => option_map PDict (exec_sels fuel disabled s rt root sels)
  | None => None
  end.
