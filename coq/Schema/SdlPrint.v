(* Model of py_gql.sdl.ASTSchemaPrinter (sdl/ast_schema_printer.py) with
   utilities/ast_node_from_value.py, the value / directive part of
   lang/printer.py and _string_utils.wrapped_lines, producing the exact text
   of Schema.to_string for every option, over the by-name schema.  The
   printer is a pure function of (schema, options) by construction; that the
   implementation is one too is checked by the call-history correspondence. *)
From PyGql Require Export Schema.SdlSchema Schema.SdlBuild.
From PyGql Require Export Lang.PrinterModel.

Definition cat (l : list str) : str := concat l.

Fixpoint join (sep : str) (l : list str) : str :=
  match l with
  | [] => []
  | [x] => x
  | x :: l' => x ++ sep ++ join sep l'
  end.

Definition NLc : N := 10%N.
Definition nl : str := [NLc].

(* ------------------------------------------------------------------ *)
(* Python string helpers                                                *)

(* str.isspace() *)
Definition py_space (c : N) : bool :=
  ((9 <=? c) && (c <=? 13))%N || ((28 <=? c) && (c <=? 32))%N
  || (c =? 133)%N || (c =? 160)%N || (c =? 5760)%N || ((8192 <=? c) && (c <=? 8202))%N
  || (c =? 8232)%N || (c =? 8233)%N || (c =? 8239)%N || (c =? 8287)%N || (c =? 12288)%N.

Fixpoint lstrip (s : str) : str :=
  match s with
  | c :: s' => if py_space c then lstrip s' else s
  | [] => []
  end.
Definition rstrip (s : str) : str := rev (lstrip (rev s)).
Definition strip (s : str) : str := rstrip (lstrip s).

(* str.split("\n") *)
Fixpoint split_nl (s : str) : list str :=
  match s with
  | [] => [[]]
  | c :: s' =>
      match split_nl s' with
      | l :: ls => if (c =? NLc)%N then [] :: l :: ls else (c :: l) :: ls
      | [] => [[c]]
      end
  end.

(* s.replace('"""', '\\"""') *)
Fixpoint escape_triple (s : str) : str :=
  match s with
  | 34%N :: 34%N :: 34%N :: r => (92 :: 34 :: 34 :: 34 :: escape_triple r)%N
  | c :: r => c :: escape_triple r
  | [] => []
  end.

Fixpoint ends_with_quote (s : str) : bool :=
  match s with
  | [] => false
  | [c] => (c =? 34)%N
  | _ :: r => ends_with_quote r
  end.

(* the line ends with a double quote or a backslash (fixes/C12-07, /repo 6320d32) *)
Fixpoint ends_with_qb (s : str) : bool :=
  match s with
  | [] => false
  | [c] => (c =? 34)%N || (c =? 92)%N
  | _ :: r => ends_with_qb r
  end.

Fixpoint repeat_str (n : nat) (s : str) : str :=
  match n with O => [] | S n' => s ++ repeat_str n' s end.

(* _string_utils._split_words_with_boundaries(line, " -_") *)
Definition is_boundary (c : N) : bool := (c =? 32)%N || (c =? 45)%N || (c =? 95)%N.

Fixpoint split_words (stack : str) (s : str) : list str :=
  match s with
  | [] => match stack with [] => [] | _ => [rev stack] end
  | c :: s' =>
      if is_boundary c then
        match stack with
        | [] => [c] :: split_words [] s'
        | _ => rev stack :: [c] :: split_words [] s'
        end
      else split_words (c :: stack) s'
  end.

(* _string_utils.wrapped_lines for one over-long line *)
Fixpoint wrap_entries (max_len : nat) (wrapped : str) (es : list str) : list str :=
  match es with
  | [] => match wrapped with [] => [] | _ => [wrapped] end
  | e :: es' =>
      let over := Nat.ltb max_len (length (wrapped ++ e)) in
      let w := if over then [] else wrapped in
      let w' := if negb (str_eqb e [32%N]) || (match w with [] => false | _ => true end)
                then w ++ e else w in
      if over then wrapped :: wrap_entries max_len w' es' else wrap_entries max_len w' es'
  end.

Definition wrapped_lines (lines : list str) (max_len : nat) : list str :=
  flat_map (fun line => if Nat.leb (length line) max_len then [line]
                        else wrap_entries max_len [] (split_words [] line)) lines.

(* ------------------------------------------------------------------ *)
(* lang/printer.py: values and directive applications are printed by
   print_ast(node) (indent 2), i.e. by the ASTPrinter model of C03
   (Lang/PrinterModel.v: json.dumps(ensure_ascii=False), _block_string, lists,
   objects, @name(args)) *)

Definition vcfg : cfg := Cfg (lit "  ") true.
Definition print_value (v : value) : str := pr_value vcfg v.
Definition print_directive (d : directive) : str := pr_directive vcfg d.
Definition json_string (s : str) : str := json_quote s.

(* ------------------------------------------------------------------ *)
(* utilities/ast_node_from_value.py                                     *)

Fixpoint Z_digits_pos (fuel : nat) (z : Z) (acc : str) : str :=
  match fuel with
  | O => acc
  | S f => if (z <? 10)%Z then N.add 48 (Z.to_N z) :: acc
           else Z_digits_pos f (z / 10)%Z (N.add 48 (Z.to_N (z mod 10)%Z) :: acc)
  end.

(* str(int) *)
Definition str_of_Z (z : Z) : str :=
  let a := Z.abs z in
  let ds := Z_digits_pos (S (Z.to_nat (Z.log2 a))) a [] in
  if (z <? 0)%Z then 45%N :: ds else ds.

(* _INT_RE: optional minus, then 0 or a non-zero digit followed by digits *)
Definition all_digits (s : str) : bool := forallb is_digit s.
Definition int_re (s : str) : bool :=
  let body := match s with 45%N :: r => r | _ => s end in
  match body with
  | [48%N] => true
  | c :: r => is_digit c && negb (c =? 48)%N && all_digits r
  | [] => false
  end.

(* _FLOAT_RE: the integer part of _INT_RE, then a fraction with optional
   exponent, or an exponent alone *)
Fixpoint span_digits (s : str) : str * str :=
  match s with
  | c :: r => if is_digit c then let '(a, b) := span_digits r in (c :: a, b) else ([], s)
  | [] => ([], [])
  end.

Definition exp_part (s : str) : bool :=
  match s with
  | c :: r =>
      ((c =? 101)%N || (c =? 69)%N) &&
      let r' := match r with x :: y => if (x =? 43)%N || (x =? 45)%N then y else r | [] => r end in
      match r' with [] => false | _ => all_digits r' end
  | [] => false
  end.

Definition float_re (s : str) : bool :=
  let body := match s with 45%N :: r => r | _ => s end in
  let '(ip, rest) := span_digits body in
  let ip_ok := match ip with
               | [48%N] => true
               | c :: _ => negb (c =? 48)%N
               | [] => false
               end in
  ip_ok &&
  match rest with
  | 46%N :: r =>
      let '(fp, rest') := span_digits r in
      match fp with [] => false | _ => true end
      && match rest' with [] => true | _ => exp_part rest' end
  | _ => exp_part rest
  end.

(* the integer a float repr denotes, when it is integral ("12.0") *)
Definition float_integral (r : str) : option Z :=
  if has_exponent r then None else
  let '(ip, fp) := split_dot r in
  match fp with
  | Some [48%N] => Z_of_str ip
  | _ => None
  end.

Definition strict_int32 (z : Z) : bool := ((-2147483648 <? z) && (z <? 2147483647))%Z.

Definition K_PRINT : nat := 7.   (* ValueError / TypeError out of ast_node_from_value *)

Fixpoint enum_name_of (v : pv) (vals : list (str * pv)) : option str :=
  match vals with
  | [] => None
  | (n, x) :: r =>
      match enum_name_of v r with     (* _reverse_values: a later value overwrites *)
      | Some m => Some m
      | None => if pv_eqb x v then Some n else None
      end
  end.

(* _scalar_node_from_value after serialize, for the specified scalars and
   default_scalar (identity) *)
Definition scalar_node (n : str) (v : pv) : outcome value :=
  if str_eqb n (S_ "Int") then
    match v with
    | PInt z => if strict_int32 z then Ok (VInt (str_of_Z z) None) else Crash K_PRINT
    | PBool b => Ok (VBool b None)
    | PFloat r => match float_integral r with
                  | Some z => if strict_int32 z then Ok (VInt (str_of_Z z) None) else Crash K_PRINT
                  | None => Crash K_PRINT
                  end
    | _ => Crash K_PRINT
    end
  else if str_eqb n (S_ "Float") then
    match v with
    | PInt z => if strict_int32 z then Ok (VInt (str_of_Z z) None)
                else Ok (VFloat (str_of_Z z ++ lit ".0") None)
    | PFloat r => match float_integral r with
                  | Some z => if strict_int32 z then Ok (VInt (str_of_Z z) None) else Ok (VFloat r None)
                  | None => Ok (VFloat r None)
                  end
    | _ => Crash K_PRINT
    end
  else if str_eqb n (S_ "String") then
    match v with
    | PStr s => Ok (VString s false None)
    | PInt z => Ok (VString (str_of_Z z) false None)
    | PBool b => Ok (VString (if b then lit "true" else lit "false") false None)
    | PFloat r => Ok (VString r false None)            (* str(float) = repr *)
    | _ => Crash K_PRINT
    end
  else if str_eqb n (S_ "Boolean") then Ok (VBool (truthy v) None)
  else if str_eqb n (S_ "ID") then
    match v with
    | PStr s => if int_re s then Ok (VInt s None) else Ok (VString s false None)
    | PInt z => Ok (VInt (str_of_Z z) None)
    | PBool b => Ok (VString (if b then lit "True" else lit "False") false None)   (* str(bool) *)
    | PFloat r => if int_re r then Ok (VInt r None) else Ok (VString r false None)
    | _ => Crash K_PRINT
    end
  else
    match v with
    | PBool b => Ok (VBool b None)
    | PInt z => Ok (VFloat (str_of_Z z) None)
    | PFloat r => Ok (VFloat r None)
    | PStr s =>
        if int_re s then
          match Z_of_str s with
          | Some z => if strict_int32 z then Ok (VInt s None) else Ok (VFloat s None)
          | None => Ok (VString s false None)
          end
        else if float_re s then Ok (VFloat s None)
        else Ok (VString s false None)
    | _ => Crash K_PRINT
    end.

Definition is_null (v : value) : bool := match v with VNull _ => true | _ => false end.

Fixpoint node_of_value (fuel : nat) (E : env) (v : pv) (t : tref) {struct fuel} : outcome value :=
  match fuel with
  | O => OutOfFuel
  | S f =>
    match t with
    | RNonNull t' =>
        do n <- node_of_value f E v t';
        if is_null n then Crash K_PRINT else Ok n
    | _ =>
      match v with
      | PNone => Ok (VNull None)
      | _ =>
        match t with
        | RNonNull _ => Crash K_PRINT
        | RList t' =>
            match v with
            | PList l => do ns <- omap (fun x => node_of_value f E x t') l; Ok (VList ns None)
            | _ => node_of_value f E v t'
            end
        | RNamed n =>
            if mem_str n specified_scalars then scalar_node n v else
            match alookup n E with
            | Some IScalar => scalar_node n v
            | Some (IEnum vals) =>
                match enum_name_of v vals with
                | Some m => Ok (VEnum m None)
                | None => Crash K_PRINT
                end
            | Some (IInput fs) =>
                match v with
                | PDict kvs =>
                    do fns <- omap (fun fd =>
                        match alookup (if_py fd) kvs with
                        | Some x => do nx <- node_of_value f E x (if_type fd);
                                    Ok [(Name (if_name fd) None, nx, None)]
                        | None =>
                            (* field_def.required *)
                            if is_nonnull (if_type fd) && (match if_def fd with DNo => true | _ => false end)
                            then Crash K_PRINT else Ok []
                        end) fs;
                    Ok (VObject (concat fns) None)
                | _ => Crash K_PRINT
                end
            | _ => Crash K_PRINT
            end
        end
      end
    end
  end.

(* ------------------------------------------------------------------ *)
(* ASTSchemaPrinter                                                     *)

Inductive custom_opt := CustomOff | CustomAll | CustomOnly (names : list str).

Record popts := POpts {
  po_indent : str; po_descriptions : bool; po_introspection : bool; po_custom : custom_opt }.

Fixpoint print_tref (t : tref) : str :=
  match t with
  | RNamed n => n
  | RList t' => lit "[" ++ print_tref t' ++ lit "]"
  | RNonNull t' => print_tref t' ++ lit "!"
  end.

Definition nonempty (s : str) : bool := match s with [] => false | _ => true end.

(* the lines of the block form of a description: the first one goes on its
   own line (after a line break and the indent) unless it starts with white
   space, in which case it follows the opening quotes directly *)
Fixpoint block_lines (hlw : bool) (indent : str) (i : nat) (ls : list str) : list str :=
  match ls with
  | [] => []
  | l :: r =>
      ((if Nat.eqb i 0 && negb hlw then nl else [])
       ++ (if negb (Nat.eqb i 0) || negb hlw then indent else [])
       ++ escape_triple l) :: block_lines hlw indent (S i) r
  end.

Section Printer.
  Variable o : popts.
  Variable E : env.
  Variable fuel : nat.

  Definition ind (depth : nat) : str := repeat_str depth (po_indent o).

  Definition triple : str := lit """""""".

  (* the text print_description puts between the triple quotes *)
  Definition description_body (desc : str) (depth : nat) : str :=
    let indent := ind depth in
    let max_len := 120 - length indent in
    let lines := wrapped_lines (split_nl desc) max_len in
    let first := match lines with l :: _ => l | [] => [] end in
    if Nat.eqb (length lines) 1 && Nat.ltb (length first) 70 && negb (ends_with_qb first)
    then escape_triple first
    else
      let hlw := match first with c :: _ => py_space c | [] => false end in
      join nl (block_lines hlw indent 0 lines) ++ nl ++ indent.

  (* print_description(definition, depth, first_in_block) *)
  Definition print_description (d : option str) (depth : nat) (first_in_block : bool) : str :=
    match d with
    | None => []
    | Some [] => []
    | Some desc =>
      if negb (po_descriptions o) then [] else
      let indent := ind depth in
      (if nonempty indent && negb first_in_block then nl else [])
      ++ indent ++ triple ++ description_body desc depth ++ triple ++ nl
    end.

  Definition print_deprecated (dep : option str) : str :=
    match dep with
    | None => []
    | Some r =>
        if str_eqb r default_deprecation then lit " @deprecated"
        else lit " @deprecated(reason: " ++ json_string r ++ lit ")"
    end.

  Definition include_custom (n : str) : bool :=
    if mem_str n specified_directive_names then false else
    match po_custom o with
    | CustomOff => false
    | CustomAll => true
    | CustomOnly l => mem_str n l
    end.

  Definition custom_enabled : bool :=
    match po_custom o with
    | CustomOff => false
    | CustomAll => true
    | CustomOnly l => match l with [] => false | _ => true end
    end.

  Definition print_directives (ds : list directive) : str :=
    if negb custom_enabled then [] else
    match filter (fun d => include_custom (n_val (d_name d))) ds with
    | [] => []
    | printed => lit " " ++ join (lit " ") (map print_directive printed)
    end.

  Definition print_input_value (a : sivalue) : outcome str :=
    do dflt <- match siv_default a with
               | None => Ok []
               | Some v => do n <- node_of_value fuel E v (siv_type a);
                           Ok (lit " = " ++ print_value n)
               end;
    Ok (strip (siv_name a ++ lit ": " ++ print_tref (siv_type a) ++ dflt
               ++ print_directives (siv_dirs a))).

  Definition imap {A B} (f : nat -> A -> outcome B) (l : list A) : outcome (list B) :=
    (fix go (i : nat) (l : list A) : outcome (list B) :=
       match l with
       | [] => Ok []
       | x :: r => do y <- f i x; do ys <- go (S i) r; Ok (y :: ys)
       end) 0 l.

  Definition print_arguments (args : list sivalue) (depth : nat) : outcome str :=
    match args with
    | [] => Ok []
    | _ =>
      let indent := ind depth in
      if po_descriptions o && existsb (fun a => match siv_desc a with Some (_ :: _) => true | _ => false end) args
      then
        do ls <- imap (fun i a =>
                  do iv <- print_input_value a;
                  Ok (print_description (siv_desc a) (S depth) (Nat.eqb i 0)
                      ++ po_indent o ++ indent ++ iv)) args;
        Ok (indent ++ lit "(" ++ nl ++ join nl ls ++ nl ++ indent ++ lit ")")
      else
        do ls <- omap print_input_value args;
        Ok (lit "(" ++ join (lit ", ") ls ++ lit ")")
    end.

  Definition print_fields (fs : list sfield) : outcome str :=
    do ls <- imap (fun i f =>
              do args <- print_arguments (sf_args f) 1;
              Ok (rstrip (print_description (sf_desc f) 1 (Nat.eqb i 0)
                          ++ po_indent o ++ sf_name f ++ args ++ lit ": " ++ print_tref (sf_type f)
                          ++ print_deprecated (sf_dep f) ++ print_directives (sf_dirs f)))) fs;
    Ok (join nl ls).

  Definition print_type (t : tdef) : outcome str :=
    match t with
    | TScalar n d ds =>
        Ok (print_description d 0 true ++ lit "scalar " ++ n ++ print_directives ds)
    | TEnum n d vs ds =>
        let ls := (fix go (i : nat) (vs : list sevalue) : list str :=
                     match vs with
                     | [] => []
                     | v :: r =>
                         rstrip (print_description (sev_desc v) 1 (Nat.eqb i 0) ++ po_indent o
                                 ++ sev_name v ++ print_deprecated (sev_dep v)
                                 ++ print_directives (sev_dirs v)) :: go (S i) r
                     end) 0 vs in
        Ok (print_description d 0 true ++ lit "enum " ++ n ++ print_directives ds ++ lit " {" ++ nl
            ++ join nl ls ++ nl ++ lit "}")
    | TUnion n d ms ds =>
        Ok (print_description d 0 true ++ lit "union " ++ n ++ print_directives ds ++ lit " = "
            ++ join (lit " | ") ms)
    | TObject n d is_ fs ds =>
        do body <- print_fields fs;
        Ok (print_description d 0 true ++ lit "type " ++ n
            ++ (match is_ with [] => [] | _ => lit " implements " ++ join (lit " & ") is_ end)
            ++ print_directives ds ++ lit " {" ++ nl ++ body ++ nl ++ lit "}")
    | TInterface n d fs ds =>
        do body <- print_fields fs;
        Ok (print_description d 0 true ++ lit "interface " ++ n ++ print_directives ds
            ++ lit " {" ++ nl ++ body ++ nl ++ lit "}")
    | TInput n d fs ds =>
        do ls <- imap (fun i f =>
                  do iv <- print_input_value f;
                  Ok (print_description (siv_desc f) 1 (Nat.eqb i 0) ++ po_indent o ++ iv)) fs;
        Ok (print_description d 0 true ++ lit "input " ++ n ++ print_directives ds
            ++ lit " {" ++ nl ++ join nl ls ++ nl ++ lit "}")
    end.

  Definition print_directive_definition (d : ddef) : outcome str :=
    do args <- print_arguments (dd_args d) 0;
    Ok (print_description (dd_desc d) 0 true ++ lit "directive @" ++ dd_name d ++ args
        ++ lit " on " ++ join (lit " | ") (dd_locs d)).
End Printer.

(* sorted(..., key=lambda x: x.name): insertion sort on code points (stable) *)
Fixpoint str_leb (a b : str) : bool :=
  match a, b with
  | [], _ => true
  | _ :: _, [] => false
  | x :: a', y :: b' => if (x <? y)%N then true else if (y <? x)%N then false else str_leb a' b'
  end.

Fixpoint insert_by {A} (key : A -> str) (x : A) (l : list A) : list A :=
  match l with
  | [] => [x]
  | y :: l' => if str_leb (key y) (key x) then y :: insert_by key x l' else x :: l
  end.

Definition sort_by {A} (key : A -> str) (l : list A) : list A :=
  fold_left (fun acc x => insert_by key x acc) l [].

(* print_schema_definition (with the repair: the definition is only omitted
   when the default names give the same roots back) *)
Definition root_is_default (sc : schema) (root : option str) (default_name : str) : bool :=
  match root with
  | None => match find_type default_name (s_types sc) with
            | Some (TObject _ _ _ _ _) => false
            | _ => true
            end
  | Some n => str_eqb n default_name
  end.

Definition print_schema_definition (o : popts) (sc : schema) : str :=
  let ds := print_directives o (s_dirs sc) in
  if negb (nonempty ds)
     && root_is_default sc (s_query sc) (S_ "Query")
     && root_is_default sc (s_mutation sc) (S_ "Mutation")
     && root_is_default sc (s_subscription sc) (S_ "Subscription")
  then []
  else
    let op (k : string) (r : option str) : list str :=
      match r with
      | Some n => [po_indent o ++ lit k ++ lit ": " ++ n]
      | None => []
      end in
    lit "schema" ++ ds ++ lit " {" ++ nl
    ++ join nl (op "query"%string (s_query sc) ++ op "mutation"%string (s_mutation sc)
                ++ op "subscription"%string (s_subscription sc))
    ++ nl ++ lit "}".

Definition env_of_schema (intro : list tdef) (sc : schema) : env :=
  map (fun t => (tdef_name t, tinfo_of_tdef t)) (s_types sc ++ intro).

Definition print_fuel : nat := 2000.

(* ASTSchemaPrinter.__call__; [intro] / [spec_dirs] are the introspection
   types and the specified directives every Schema carries (Schema/SdlIntro.v) *)
Definition print_schema (intro : list tdef) (spec_dirs : list ddef) (o : popts) (sc : schema)
  : outcome str :=
  let E := env_of_schema intro sc in
  let ddefs := sort_by dd_name (s_ddefs sc) in
  let types := sort_by tdef_name (s_types sc ++ (if po_introspection o then intro else [])) in
  do pspec <- (if po_introspection o then omap (print_directive_definition o E print_fuel) spec_dirs
               else Ok []);
  do pd <- omap (print_directive_definition o E print_fuel) ddefs;
  do pt <- omap (print_type o E print_fuel) types;
  let parts := filter nonempty ([print_schema_definition o sc] ++ pspec ++ pd ++ pt) in
  match parts with
  | [] => Ok []
  | _ => Ok (join (nl ++ nl) parts ++ nl)
  end.
