(* Model of py_gql/schema/differ/__init__.py (diff_schema and its helpers) and
   of the severity table of differ/changes.py.

   A change is (class, severity, element path).  The path names the edited
   element: [type], [type; field], [type; field; argument], [enum; value],
   [union; member], [object; interface], [directive], [directive; location],
   [directive; argument].  Messages are not modelled.

   [safe_out] is the REPAIRED [_is_safe_output_type_change]
   (fixes/C20-01-output-list-item-nullability.patch): the item types of two
   list types must be a safe change in both directions.  A default-value change
   that makes a member required is Breaking
   (fixes/C20-02-default-removed-required.patch). *)
From PyGql Require Export Schema.SchemaFull.

Inductive severity := Compatible | Dangerous | Breaking.

Inductive change_class :=
| CTypeChangedKind | CTypeRemoved | CTypeAdded
| CTypeRemovedFromUnion | CTypeAddedToUnion
| CTypeRemovedFromInterface | CTypeAddedToInterface
| CEnumValueRemoved | CEnumValueAdded
| CEnumValueDeprecated | CEnumValueDeprecationRemoved | CEnumValueDeprecationReasonChanged
| CDirectiveRemoved | CDirectiveAdded
| CDirectiveLocationRemoved | CDirectiveLocationAdded
| CDirectiveArgumentRemoved | CDirectiveArgumentAdded
| CDirectiveArgumentDefaultValueChange | CDirectiveArgumentChangedType
| CFieldArgumentRemoved | CFieldArgumentAdded
| CFieldArgumentDefaultValueChange | CFieldArgumentChangedType
| CFieldChangedType | CFieldRemoved | CFieldAdded
| CFieldDeprecated | CFieldDeprecationRemoved | CFieldDeprecationReasonChanged
| CInputFieldRemoved | CInputFieldAdded
| CInputFieldDefaultValueChange | CInputFieldChangedType.

Record change := mkChange { c_class : change_class; c_sev : severity; c_path : list str }.

(* ------------------------------------------------ safe type changes *)
(* _is_safe_input_type_change *)
Fixpoint safe_in (o n : ty) {struct o} : bool :=
  match o with
  | TyNamed a => match n with TyNamed b => str_eqb a b | _ => false end
  | TyList oi => match n with TyList ni => safe_in oi ni | _ => false end
  | TyNonNull oi =>
      match n with
      | TyNonNull ni => safe_in oi ni
      | _ => safe_in oi n
      end
  end.

(* _is_safe_output_type_change, repaired list-item rule *)
Fixpoint safe_out (o n : ty) {struct n} : bool :=
  match o with
  | TyNamed a =>
      match n with
      | TyNamed b => str_eqb a b
      | TyNonNull ni => safe_out o ni
      | TyList _ => false
      end
  | TyList oi =>
      match n with
      | TyList ni => safe_out oi ni && safe_in oi ni
      | TyNonNull ni => safe_out o ni
      | TyNamed _ => false
      end
  | TyNonNull oi =>
      match n with
      | TyNonNull ni => safe_out oi ni
      | _ => false
      end
  end.

(* the unrepaired predicate of the unchanged tree, kept to state the defect *)
Fixpoint safe_out_unfixed (o n : ty) {struct n} : bool :=
  match o with
  | TyNamed a =>
      match n with
      | TyNamed b => str_eqb a b
      | TyNonNull ni => safe_out_unfixed o ni
      | TyList _ => false
      end
  | TyList oi =>
      match n with
      | TyList ni => safe_in oi ni
      | TyNonNull ni => safe_out_unfixed o ni
      | TyNamed _ => false
      end
  | TyNonNull oi =>
      match n with
      | TyNonNull ni => safe_out_unfixed oi ni
      | _ => false
      end
  end.

(* ------------------------------------------------ member-level helpers *)
(* InputValue.required *)
Definition arg_required (a : arg_def) : bool :=
  is_non_null (a_type a) && match a_default a with None => true | Some _ => false end.
Definition input_required (a : input_field) : bool :=
  is_non_null (i_type a) && match i_default a with None => true | Some _ => false end.

(* the three-way default comparison shared by arguments and input fields *)
Definition default_changed (o n : option pv) : bool :=
  match o, n with
  | Some _, None => true
  | None, Some _ => true
  | Some x, Some y => negb (pv_eqb x y)
  | None, None => false
  end.

Definition field_deprecated (f : field_def) : bool :=
  match f_depr f with Some (_ :: _) => true | _ => false end.
Definition enum_deprecated (e : enum_value) : bool :=
  match e_depr e with Some _ => true | None => false end.

Definition ch (c : change_class) (s : severity) (p : list str) : change := mkChange c s p.

(* _diff_field_arguments / _diff_directive_arguments *)
Definition diff_args (removed changed_type default_change added : change_class)
           (path : list str) (oa na : list arg_def) : list change :=
  flat_map (fun a =>
    match find_arg na (a_name a) with
    | None => [ch removed Breaking (path ++ [a_name a])]
    | Some b =>
        if negb (safe_in (a_type a) (a_type b))
        then [ch changed_type Breaking (path ++ [a_name a])]
        else if default_changed (a_default a) (a_default b)
             then [ch default_change
                      (if arg_required b && negb (arg_required a) then Breaking else Dangerous)
                      (path ++ [a_name a])]
             else []
    end) oa
  ++
  flat_map (fun b =>
    match find_arg oa (a_name b) with
    | None => [ch added (if arg_required b then Breaking else Compatible) (path ++ [a_name b])]
    | Some _ => []
    end) na.

(* _diff_field *)
Definition diff_field (tname : str) (o n : field_def) : list change :=
  (if negb (safe_out (f_type o) (f_type n))
   then [ch CFieldChangedType Breaking [tname; f_name o]] else [])
  ++ diff_args CFieldArgumentRemoved CFieldArgumentChangedType
               CFieldArgumentDefaultValueChange CFieldArgumentAdded
               [tname; f_name o] (f_args o) (f_args n)
  ++ (if field_deprecated o
      then if negb (field_deprecated n)
           then [ch CFieldDeprecationRemoved Compatible [tname; f_name o]]
           else if negb (opt_eqb str_eqb (f_depr o) (f_depr n))
                then [ch CFieldDeprecationReasonChanged Compatible [tname; f_name o]]
                else []
      else if field_deprecated n
           then [ch CFieldDeprecated Compatible [tname; f_name o]]
           else []).

Definition diff_fields (tname : str) (ofs nfs : list field_def) : list change :=
  flat_map (fun f =>
    match find_field nfs (f_name f) with
    | None => [ch CFieldRemoved Breaking [tname; f_name f]]
    | Some g => diff_field tname f g
    end) ofs
  ++
  flat_map (fun g =>
    match find_field ofs (f_name g) with
    | None => [ch CFieldAdded Compatible [tname; f_name g]]
    | Some _ => []
    end) nfs.

Definition diff_interfaces_of (tname : str) (oi ni : list str) : list change :=
  map (fun i => ch CTypeRemovedFromInterface Breaking [tname; i])
      (filter (fun i => negb (mem_str i ni)) (dedup oi))
  ++ map (fun i => ch CTypeAddedToInterface Dangerous [tname; i])
      (filter (fun i => negb (mem_str i oi)) (dedup ni)).

Definition diff_union (tname : str) (om nm : list str) : list change :=
  map (fun m => ch CTypeRemovedFromUnion Breaking [tname; m])
      (filter (fun m => negb (mem_str m nm)) (dedup om))
  ++ map (fun m => ch CTypeAddedToUnion Dangerous [tname; m])
      (filter (fun m => negb (mem_str m om)) (dedup nm)).

Definition diff_enum (tname : str) (ov nv : list enum_value) : list change :=
  flat_map (fun e =>
    match find_enum nv (e_name e) with
    | None => [ch CEnumValueRemoved Breaking [tname; e_name e]]
    | Some e' =>
        if enum_deprecated e
        then if negb (enum_deprecated e')
             then [ch CEnumValueDeprecationRemoved Compatible [tname; e_name e]]
             else if negb (opt_eqb str_eqb (e_depr e) (e_depr e'))
                  then [ch CEnumValueDeprecationReasonChanged Compatible [tname; e_name e]]
                  else []
        else if enum_deprecated e'
             then [ch CEnumValueDeprecated Compatible [tname; e_name e]]
             else []
    end) ov
  ++
  flat_map (fun e' =>
    match find_enum ov (e_name e') with
    | None => [ch CEnumValueAdded Dangerous [tname; e_name e']]
    | Some _ => []
    end) nv.

Definition diff_input (tname : str) (ofs nfs : list input_field) : list change :=
  flat_map (fun a =>
    match find_input nfs (i_name a) with
    | None => [ch CInputFieldRemoved Breaking [tname; i_name a]]
    | Some b =>
        if negb (safe_in (i_type a) (i_type b))
        then [ch CInputFieldChangedType Breaking [tname; i_name a]]
        else if default_changed (i_default a) (i_default b)
             then [ch CInputFieldDefaultValueChange
                      (if input_required b && negb (input_required a) then Breaking else Dangerous)
                      [tname; i_name a]]
             else []
    end) ofs
  ++
  flat_map (fun b =>
    match find_input ofs (i_name b) with
    | None => [ch CInputFieldAdded (if input_required b then Breaking else Compatible) [tname; i_name b]]
    | Some _ => []
    end) nfs.

(* --------------------------------------------- the nine passes, per type *)
(* Each pass is a [flat_map] over the type list of one schema of a function
   that reads the other schema only through [find_type]. *)
Definition removed_of (nts : list type_def) (t : type_def) : list change :=
  match find_type nts (t_name t) with
  | None => [ch CTypeRemoved Breaking [t_name t]]
  | Some _ => []
  end.

Definition added_of (ots : list type_def) (t : type_def) : list change :=
  match find_type ots (t_name t) with
  | None => [ch CTypeAdded Compatible [t_name t]]
  | Some _ => []
  end.

Definition changed_kind_of (nts : list type_def) (t : type_def) : list change :=
  match find_type nts (t_name t) with
  | Some t' => if N.eqb (kind_code (t_body t)) (kind_code (t_body t')) then []
               else [ch CTypeChangedKind Breaking [t_name t]]
  | None => []
  end.

(* _iterate_matching_pairs for one kind + the per-kind diff *)
Definition union_of (nts : list type_def) (t : type_def) : list change :=
  if t_intro t then [] else
  match t_body t, find_type nts (t_name t) with
  | BUnion om, Some t' => match t_body t' with BUnion nm => diff_union (t_name t) om nm | _ => [] end
  | _, _ => []
  end.

Definition enum_of (nts : list type_def) (t : type_def) : list change :=
  if t_intro t then [] else
  match t_body t, find_type nts (t_name t) with
  | BEnum ov, Some t' => match t_body t' with BEnum nv => diff_enum (t_name t) ov nv | _ => [] end
  | _, _ => []
  end.

Definition object_of (nts : list type_def) (t : type_def) : list change :=
  if t_intro t then [] else
  match t_body t, find_type nts (t_name t) with
  | BObject oi ofs _, Some t' =>
      match t_body t' with
      | BObject ni nfs _ => diff_fields (t_name t) ofs nfs ++ diff_interfaces_of (t_name t) oi ni
      | _ => []
      end
  | _, _ => []
  end.

Definition interface_of (nts : list type_def) (t : type_def) : list change :=
  if t_intro t then [] else
  match t_body t, find_type nts (t_name t) with
  | BInterface ofs, Some t' =>
      match t_body t' with BInterface nfs => diff_fields (t_name t) ofs nfs | _ => [] end
  | _, _ => []
  end.

Definition input_of (nts : list type_def) (t : type_def) : list change :=
  if t_intro t then [] else
  match t_body t, find_type nts (t_name t) with
  | BInput ofs, Some t' =>
      match t_body t' with BInput nfs => diff_input (t_name t) ofs nfs | _ => [] end
  | _, _ => []
  end.

(* _diff_directives *)
Definition diff_directives (od nd : list directive_def) : list change :=
  flat_map (fun d =>
    if d_specified d then [] else
    match find_dir nd (d_name d) with
    | None => [ch CDirectiveRemoved Breaking [d_name d]]
    | Some d' =>
        map (fun l => ch CDirectiveLocationRemoved Breaking [d_name d; l])
            (filter (fun l => negb (mem_str l (d_locs d'))) (dedup (d_locs d)))
        ++ map (fun l => ch CDirectiveLocationAdded Compatible [d_name d; l])
            (filter (fun l => negb (mem_str l (d_locs d))) (dedup (d_locs d')))
        ++ diff_args CDirectiveArgumentRemoved CDirectiveArgumentChangedType
                     CDirectiveArgumentDefaultValueChange CDirectiveArgumentAdded
                     [d_name d] (d_args d) (d_args d')
    end) od
  ++
  flat_map (fun d' =>
    if d_specified d' then [] else
    match find_dir od (d_name d') with
    | None => [ch CDirectiveAdded Compatible [d_name d']]
    | Some _ => []
    end) nd.

(* diff_schema, in the order of the code (the two [validate()] calls are
   modelled in Run/C20run.v through the C13 validator model) *)
Definition diff_model (o n : schema) : list change :=
  let ots := s_types o in
  let nts := s_types n in
  flat_map (removed_of nts) ots
  ++ flat_map (added_of ots) nts
  ++ diff_directives (s_dirs o) (s_dirs n)
  ++ flat_map (changed_kind_of nts) ots
  ++ flat_map (union_of nts) ots
  ++ flat_map (enum_of nts) ots
  ++ flat_map (object_of nts) ots
  ++ flat_map (interface_of nts) ots
  ++ flat_map (input_of nts) ots.

Definition has_breaking (l : list change) : bool :=
  existsb (fun c => match c_sev c with Breaking => true | _ => false end) l.

(* ------------------------------------------------ equality of changes *)
Definition class_code (c : change_class) : N :=
  match c with
  | CTypeChangedKind => 0 | CTypeRemoved => 1 | CTypeAdded => 2
  | CTypeRemovedFromUnion => 3 | CTypeAddedToUnion => 4
  | CTypeRemovedFromInterface => 5 | CTypeAddedToInterface => 6
  | CEnumValueRemoved => 7 | CEnumValueAdded => 8
  | CEnumValueDeprecated => 9 | CEnumValueDeprecationRemoved => 10
  | CEnumValueDeprecationReasonChanged => 11
  | CDirectiveRemoved => 12 | CDirectiveAdded => 13
  | CDirectiveLocationRemoved => 14 | CDirectiveLocationAdded => 15
  | CDirectiveArgumentRemoved => 16 | CDirectiveArgumentAdded => 17
  | CDirectiveArgumentDefaultValueChange => 18 | CDirectiveArgumentChangedType => 19
  | CFieldArgumentRemoved => 20 | CFieldArgumentAdded => 21
  | CFieldArgumentDefaultValueChange => 22 | CFieldArgumentChangedType => 23
  | CFieldChangedType => 24 | CFieldRemoved => 25 | CFieldAdded => 26
  | CFieldDeprecated => 27 | CFieldDeprecationRemoved => 28
  | CFieldDeprecationReasonChanged => 29
  | CInputFieldRemoved => 30 | CInputFieldAdded => 31
  | CInputFieldDefaultValueChange => 32 | CInputFieldChangedType => 33
  end%N.

Definition sev_code (s : severity) : N :=
  match s with Compatible => 0 | Dangerous => 1 | Breaking => 2 end%N.

Fixpoint path_eqb (a b : list str) : bool :=
  match a, b with
  | [], [] => true
  | x :: a', y :: b' => str_eqb x y && path_eqb a' b'
  | _, _ => false
  end.

Definition change_eqb (a b : change) : bool :=
  N.eqb (class_code (c_class a)) (class_code (c_class b))
  && N.eqb (sev_code (c_sev a)) (sev_code (c_sev b))
  && path_eqb (c_path a) (c_path b).
