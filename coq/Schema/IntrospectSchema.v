(* By-name schema model sufficient for introspection (C15).

   Stands for the attributes of py_gql.schema.Schema and of the type objects in
   schema/types.py that the introspection resolvers read: all six named kinds
   with their members in declaration order, arguments and input fields with
   their (coerced, Python-level) default values, enum values, deprecation
   flags and reasons, descriptions, interfaces / union members, directives
   with locations and arguments, root type names, and the type registry
   [schema.types] in its dict order.  Identity of Python objects is not
   observable by introspection, so references are by name.

   The record is parametric in the representation [D] of default values:
   [D := pv] is the schema as the library holds it (defaults are coerced
   Python values); [D := lit] is the schema as a reader of the introspection
   answer sees it (defaults are GraphQL literals). *)
From PyGql Require Export Base.Str Base.Pv.

(* type references: named / list-of / non-null-of *)
Inductive iref :=
| IRNamed (n : str)
| IRList (t : iref)
| IRNonNull (t : iref).

Fixpoint iref_base (t : iref) : str :=
  match t with IRNamed n => n | IRList t' => iref_base t' | IRNonNull t' => iref_base t' end.

Fixpoint iref_depth (t : iref) : nat :=
  match t with IRNamed _ => 0 | IRList t' => S (iref_depth t') | IRNonNull t' => S (iref_depth t') end.

(* GraphQL value literals without locations (what [parse_value] yields) *)
Inductive lit :=
| LNull
| LBool (b : bool)
| LInt (z : Z)
| LFloat (text : str)
| LStr (s : str)
| LEnum (n : str)
| LList (l : list lit)
| LObj (fs : list (str * lit)).

(* Argument / InputField (schema/types.py InputValue):
   [iv_default = None] <-> has_default_value is False *)
Record iinput (D : Type) := IInput {
  iv_name : str;
  iv_desc : option str;
  iv_type : iref;
  iv_default : option D }.
Arguments IInput {D}. Arguments iv_name {D}. Arguments iv_desc {D}.
Arguments iv_type {D}. Arguments iv_default {D}.

(* Field: [deprecated] and [deprecation_reason] are two attributes of the
   object (Field.deprecated = bool(reason), EnumValue.deprecated = reason is
   not None); introspection reports both as they are. *)
Record ifield (D : Type) := IField {
  f_name : str;
  f_desc : option str;
  f_args : list (iinput D);
  f_type : iref;
  f_deprecated : bool;
  f_reason : option str }.
Arguments IField {D}. Arguments f_name {D}. Arguments f_desc {D}. Arguments f_args {D}.
Arguments f_type {D}. Arguments f_deprecated {D}. Arguments f_reason {D}.

(* EnumValue; [ev_value] is the internal Python value (not observable) *)
Record ienumval := IEnumVal {
  ev_name : str;
  ev_desc : option str;
  ev_deprecated : bool;
  ev_reason : option str;
  ev_value : pv }.

Inductive itypedef (D : Type) :=
| IScalar
| IObject (fields : list (ifield D)) (interfaces : list str)
| IInterface (fields : list (ifield D))
| IUnion (members : list str)
| IEnum (values : list ienumval)
| IInputObject (fields : list (iinput D)).
Arguments IScalar {D}. Arguments IObject {D}. Arguments IInterface {D}.
Arguments IUnion {D}. Arguments IEnum {D}. Arguments IInputObject {D}.

Record itype (D : Type) := IType {
  t_name : str;
  t_desc : option str;
  t_def : itypedef D }.
Arguments IType {D}. Arguments t_name {D}. Arguments t_desc {D}. Arguments t_def {D}.

Record idirective (D : Type) := IDirective {
  dr_name : str;
  dr_desc : option str;
  dr_locations : list str;
  dr_args : list (iinput D) }.
Arguments IDirective {D}. Arguments dr_name {D}. Arguments dr_desc {D}.
Arguments dr_locations {D}. Arguments dr_args {D}.

(* [s_types] / [s_directives] are the registries [schema.types] /
   [schema.directives] in dict order (which depends on how the schema was
   built).  The registry includes the specified scalars and the eight
   introspection types, as in the library. *)
Record ischema (D : Type) := ISchema {
  s_types : list (itype D);
  s_directives : list (idirective D);
  s_query : str;
  s_mutation : option str;
  s_subscription : option str }.
Arguments ISchema {D}. Arguments s_types {D}. Arguments s_directives {D}.
Arguments s_query {D}. Arguments s_mutation {D}. Arguments s_subscription {D}.

Fixpoint find_type {D} (n : str) (ts : list (itype D)) : option (itype D) :=
  match ts with
  | [] => None
  | t :: ts' => if str_eqb n (t_name t) then Some t else find_type n ts'
  end.

(* lexicographic order on code points = Python's [str] comparison *)
Fixpoint str_leb (a b : str) : bool :=
  match a, b with
  | [], _ => true
  | _ :: _, [] => false
  | x :: a', y :: b' => if N.ltb x y then true else if N.eqb x y then str_leb a' b' else false
  end.

(* Python's [sorted(xs, key=...)]: a stable sort; insertion sort inserting
   after equal keys, processed from the right, is stable. *)
Section Sort.
  Context {A : Type} (key : A -> str).
  Fixpoint insert_by (x : A) (l : list A) : list A :=
    match l with
    | [] => [x]
    | y :: l' => if str_leb (key x) (key y) then x :: l else y :: insert_by x l'
    end.
  Fixpoint sort_by (l : list A) : list A :=
    match l with
    | [] => []
    | x :: l' => insert_by x (sort_by l')
    end.
End Sort.

(* structural equality of Python values (dict order matters) *)
Fixpoint pv_eqb (a b : pv) : bool :=
  match a, b with
  | PNone, PNone => true
  | PBool x, PBool y => Bool.eqb x y
  | PInt x, PInt y => Z.eqb x y
  | PFloat x, PFloat y => str_eqb x y
  | PStr x, PStr y => str_eqb x y
  | PList x, PList y =>
      (fix go (x y : list pv) : bool :=
         match x, y with
         | [], [] => true
         | u :: x', v :: y' => pv_eqb u v && go x' y'
         | _, _ => false
         end) x y
  | PDict x, PDict y =>
      (fix go (x y : list (str * pv)) : bool :=
         match x, y with
         | [], [] => true
         | (k, u) :: x', (k', v) :: y' => str_eqb k k' && pv_eqb u v && go x' y'
         | _, _ => false
         end) x y
  | _, _ => false
  end.
