(* C14 -- extend_schema in the store model.

   Stands for sdl/schema_from_ast.py extend_schema (strict mode, no
   additional_types, no schema_directives; without its final validate()) and
   the _extend_* / _build_* builders of sdl/ast_type_builder.py (after fixes
   C11-01..08). Every non-default type of the schema is rebuilt as a new object
   (new Field / Argument / InputField objects too; EnumValue objects are
   reused), references are re-resolved *by name* through the builder's caches,
   members declared by the extension document are appended in document order,
   and the result is a new Schema(...) over the rebuilt types. The laziness of
   the builder only decides when an error surfaces; all of them surface before
   Schema(...) returns. No proofs in this file. *)
From PyGql Require Export Schema.StoreModel.
Local Open Scope N_scope.

(* ------------------------------------------------- the extension document *)
Inductive ntref := NNamed (n : str) | NList (r : ntref) | NNonNull (r : ntref).
Inductive narg := NArg (name : str) (ty : ntref) (default : option pv) (desc : option str)
                       (dirs : list dirapp).
Inductive nfield := NField (name : str) (ty : ntref) (args : list narg) (desc depr : option str)
                           (dirs : list dirapp).
Inductive nvalue := NValue (name : str) (desc depr : option str) (dirs : list dirapp).
Inductive nbody :=
| NBFields (fs : list nfield) (ifaces : list str)       (* object / interface (no ifaces) *)
| NBInputs (fs : list narg)
| NBValues (vs : list nvalue)
| NBUnion (members : list str)
| NBScalar.
Inductive ntypedef := NTypeDef (name : str) (k : kind) (desc : option str) (body : nbody)
                               (dirs : list dirapp).
Inductive ntypeext := NTypeExt (target : str) (k : kind) (body : nbody) (dirs : list dirapp).
Inductive ndirdef := NDirDef (name : str) (desc : option str) (locs : list str) (args : list narg).
Record extdoc := MkExt {
  x_schema_def : bool;                 (* a `schema { ... }` definition (refused in strict mode) *)
  x_defs : list ntypedef;
  x_exts : list ntypeext;
  x_dirs : list ndirdef;
  x_ops : list (N * str)               (* extend schema { query|mutation|subscription: T } as 0|1|2 *)
}.

Definition td_name (d : ntypedef) : str := match d with NTypeDef n _ _ _ _ => n end.
Definition td_kind (d : ntypedef) : kind := match d with NTypeDef _ k _ _ _ => k end.
Definition te_target (e : ntypeext) : str := match e with NTypeExt t _ _ _ => t end.
Definition dd_name (d : ndirdef) : str := match d with NDirDef n _ _ _ => n end.

Definition specified_directive_names : list str :=
  [str_of_string "include"; str_of_string "skip"; str_of_string "deprecated"].

(* builder context: the new object of every (old or newly defined) type name,
   and its kind *)
Record bctx := MkCtx { c_plan : list (str * oid); c_kinds : list (str * kind) }.

Definition resolve_name (c : bctx) (n : str) : option oid :=
  match alookup n builtin_types with
  | Some o => Some o
  | None => alookup n (c_plan c)
  end.
Fixpoint resolve_ntref (c : bctx) (r : ntref) : option tref :=
  match r with
  | NNamed n => match resolve_name c n with Some o => Some (RNamed o) | None => None end
  | NList r' => match resolve_ntref c r' with Some x => Some (RList x) | None => None end
  | NNonNull r' => match resolve_ntref c r' with Some x => Some (RNonNull x) | None => None end
  end.
Fixpoint ntref_name (r : ntref) : str :=
  match r with NNamed n => n | NList r' => ntref_name r' | NNonNull r' => ntref_name r' end.

(* extend_type on an existing reference: by the name of the referenced object *)
Definition extend_oid (c : bctx) (m : mem) (o : oid) : option oid :=
  if is_builtin o then Some o
  else match tname m o with Some n => alookup n (c_plan c) | None => None end.
Fixpoint extend_tref (c : bctx) (m : mem) (r : tref) : option tref :=
  match r with
  | RNamed o => match extend_oid c m o with Some o' => Some (RNamed o') | None => None end
  | RList r' => match extend_tref c m r' with Some x => Some (RList x) | None => None end
  | RNonNull r' => match extend_tref c m r' with Some x => Some (RNonNull x) | None => None end
  end.

(* failures: 1 = library error (ExtensionError / SDLError), 2 = outside the model *)
Inductive xres (A : Type) := XOk (a : A) | XRejected | XUnsupported.
Arguments XOk {A} a. Arguments XRejected {A}. Arguments XUnsupported {A}.
Definition xbind {A B} (x : xres A) (f : A -> xres B) : xres B :=
  match x with XOk a => f a | XRejected => XRejected | XUnsupported => XUnsupported end.
Notation "'dx' x <- e ; f" := (xbind e (fun x => f))
  (at level 200, x pattern, e at level 100, f at level 200, right associativity).

Definition is_output_only (k : kind) : bool :=
  match k with Kobject | Kinterface | Kunion => true | _ => false end.

(* _build_argument / _build_input_field followed by _extend_argument / _extend_input_field *)
Definition build_input (c : bctx) (is_arg : bool) (m : mem) (a : narg) : xres (mem * oid) :=
  match a with
  | NArg n ty df d ds =>
      match alookup (ntref_name ty) (c_kinds c) with
      | Some k => if is_output_only k then XRejected
                  else match resolve_ntref c ty with
                       | Some r => let (m1, o) := alloc m (OInput is_arg n n r df d ds) in XOk (m1, o)
                       | None => XRejected
                       end
      | None => match resolve_ntref c ty with
                | Some r => let (m1, o) := alloc m (OInput is_arg n n r df d ds) in XOk (m1, o)
                | None => XRejected
                end
      end
  end.
Fixpoint build_inputs (c : bctx) (is_arg : bool) (m : mem) (l : list narg) : xres (mem * list oid) :=
  match l with
  | [] => XOk (m, [])
  | a :: l' => dx r <- build_input c is_arg m a;
               dx rs <- build_inputs c is_arg (fst r) l';
               XOk (fst rs, snd r :: snd rs)
  end.

(* _build_field followed by _extend_field *)
Definition build_field (c : bctx) (m : mem) (f : nfield) : xres (mem * oid) :=
  match f with
  | NField n ty args d dp ds =>
      dx ra <- build_inputs c true m args;
      match resolve_ntref c ty with
      | Some r => let (m1, o) := alloc (fst ra) (OField n n r (snd ra) d dp None None ds) in XOk (m1, o)
      | None => XRejected
      end
  end.

(* _extend_argument / _extend_input_field on an existing member *)
Definition extend_input (c : bctx) (m : mem) (a : oid) : xres (mem * oid) :=
  match mget m a with
  | Some (OInput ia n py ty df d ds) =>
      match extend_tref c m ty with
      | Some r => let (m1, o) := alloc m (OInput ia n py r df d ds) in XOk (m1, o)
      | None => XUnsupported
      end
  | _ => XUnsupported
  end.
Fixpoint extend_inputs (c : bctx) (m : mem) (l : list oid) : xres (mem * list oid) :=
  match l with
  | [] => XOk (m, [])
  | a :: l' => dx r <- extend_input c m a;
               dx rs <- extend_inputs c (fst r) l';
               XOk (fst rs, snd r :: snd rs)
  end.
(* _extend_field *)
Definition extend_field (c : bctx) (m : mem) (f : oid) : xres (mem * oid) :=
  match mget m f with
  | Some (OField n py ty args d dp r s ds) =>
      dx ra <- extend_inputs c m args;
      match extend_tref c m ty with
      | Some ty' => let (m1, o) := alloc (fst ra) (OField n py ty' (snd ra) d dp r s ds) in XOk (m1, o)
      | None => XUnsupported
      end
  | _ => XUnsupported
  end.
Fixpoint extend_fields (c : bctx) (m : mem) (l : list oid) : xres (mem * list oid) :=
  match l with
  | [] => XOk (m, [])
  | a :: l' => dx r <- extend_field c m a;
               dx rs <- extend_fields c (fst r) l';
               XOk (fst rs, snd r :: snd rs)
  end.

Definition nf_name (f : nfield) : str := match f with NField n _ _ _ _ _ => n end.
Definition na_name (a : narg) : str := match a with NArg n _ _ _ _ => n end.
Definition nv_name (v : nvalue) : str := match v with NValue n _ _ _ => n end.

(* appending members declared by extensions, refusing duplicates *)
Fixpoint add_fields (c : bctx) (m : mem) (seen : list str) (acc : list oid) (l : list nfield)
  : xres (mem * list str * list oid) :=
  match l with
  | [] => XOk (m, seen, acc)
  | f :: l' => if mem_str (nf_name f) seen then XRejected
               else dx r <- build_field c m f;
                    add_fields c (fst r) (nf_name f :: seen) (acc ++ [snd r]) l'
  end.
Fixpoint add_inputs (c : bctx) (m : mem) (seen : list str) (acc : list oid) (l : list narg)
  : xres (mem * list str * list oid) :=
  match l with
  | [] => XOk (m, seen, acc)
  | f :: l' => if mem_str (na_name f) seen then XRejected
               else dx r <- build_input c false m f;
                    add_inputs c (fst r) (na_name f :: seen) (acc ++ [snd r]) l'
  end.
Fixpoint add_values (m : mem) (seen : list str) (acc : list oid) (l : list nvalue)
  : xres (mem * list str * list oid) :=
  match l with
  | [] => XOk (m, seen, acc)
  | NValue n d dp ds :: l' =>
      if mem_str n seen then XRejected
      else let (m1, o) := alloc m (OEnumV n (PStr n) d dp ds) in
           add_values m1 (n :: seen) (acc ++ [o]) l'
  end.
Fixpoint add_names (c : bctx) (seen : list str) (acc : list oid) (l : list str)
  : xres (list str * list oid) :=
  match l with
  | [] => XOk (seen, acc)
  | n :: l' => if mem_str n seen then XRejected
               else match resolve_name c n with
                    | Some o => add_names c (n :: seen) (acc ++ [o]) l'
                    | None => XRejected
                    end
  end.

Definition names_of (m : mem) (l : list oid) : list str :=
  flat_map (fun o => match oname m o with Some n => [n] | None => [] end) l.

Definition body_kind_ok (k : kind) (b : nbody) : bool :=
  match k, b with
  | Kobject, NBFields _ _ | Kinterface, NBFields _ _ | Kinput, NBInputs _ | Kenum, NBValues _
  | Kunion, NBUnion _ | Kscalar, NBScalar => true
  | _, _ => false
  end.

(* members of one extension / definition body appended to what is there *)
Definition add_body (c : bctx) (k : kind) (st : xres (mem * list str * list oid * list str * list oid))
           (b : nbody) : xres (mem * list str * list oid * list str * list oid) :=
  dx s <- st;
  let '(m, mseen, ms, rseen, rs) := s in
  match b with
  | NBFields fs ifs =>
      dx r <- add_fields c m mseen ms fs;
      let '(m1, mseen1, ms1) := r in
      dx q <- add_names c rseen rs (match k with Kobject => ifs | _ => [] end);
      XOk (m1, mseen1, ms1, fst q, snd q)
  | NBInputs fs =>
      dx r <- add_inputs c m mseen ms fs;
      let '(m1, mseen1, ms1) := r in XOk (m1, mseen1, ms1, rseen, rs)
  | NBValues vs =>
      dx r <- add_values m mseen ms vs;
      let '(m1, mseen1, ms1) := r in XOk (m1, mseen1, ms1, rseen, rs)
  | NBUnion members =>
      dx q <- add_names c rseen rs members;
      XOk (m, mseen, ms, fst q, snd q)
  | NBScalar => XOk s
  end.

Definition exts_for (doc : extdoc) (n : str) : list ntypeext :=
  filter (fun e => str_eqb (te_target e) n) (x_exts doc).
Definition ext_body (e : ntypeext) : nbody := match e with NTypeExt _ _ b _ => b end.
Definition ext_kind (e : ntypeext) : kind := match e with NTypeExt _ k _ _ => k end.
Definition ext_dirs (e : ntypeext) : list dirapp := match e with NTypeExt _ _ _ ds => ds end.

(* _extend_<kind>_type on an existing type object [t]; the new object is written at [self] *)
Definition extend_existing (c : bctx) (doc : extdoc) (m : mem) (t self : oid) : xres mem :=
  match mget m t with
  | Some (OType n k d ms ifs r ds) =>
      let exts := exts_for doc n in
      if negb (forallb (fun e => kind_eqb (ext_kind e) k) exts) then XRejected
      else
        dx base <- match k with
                   | Kobject | Kinterface => dx x <- extend_fields c m ms; XOk x
                   | Kinput => dx x <- extend_inputs c m ms; XOk x
                   | _ => XOk (m, ms)
                   end;
        let refs := flat_map (fun o => otolist (extend_oid c m o)) ifs in
        if negb (N.eqb (N.of_nat (length refs)) (N.of_nat (length ifs))) then XUnsupported
        else
          dx fin <- fold_left (add_body c k) (map ext_body exts)
                      (XOk (fst base, names_of m ms, snd base, names_of m ifs, refs));
          let '(m1, _, ms1, _, rs1) := fin in
          XOk (write m1 self (OType n k d ms1 rs1 r (ds ++ flat_map ext_dirs exts)))
  | _ => XUnsupported
  end.

(* build_type of a definition of the document followed by extend_type *)
Definition build_new (c : bctx) (doc : extdoc) (m : mem) (def : ntypedef) (self : oid) : xres mem :=
  match def with
  | NTypeDef n k d body ds =>
      let exts := exts_for doc n in
      if negb (body_kind_ok k body && forallb (fun e => kind_eqb (ext_kind e) k) exts) then XRejected
      else
        dx fin <- fold_left (add_body c k) (body :: map ext_body exts) (XOk (m, [], [], [], []));
        let '(m1, _, ms1, _, rs1) := fin in
        XOk (write m1 self (OType n k d ms1 rs1 None (ds ++ flat_map ext_dirs exts)))
  end.

(* extend_directive on an existing directive; build_directive + extend_directive on a new one *)
Definition extend_dir (c : bctx) (m : mem) (d : oid) : xres (mem * oid) :=
  match mget m d with
  | Some (ODir n ds locs args) =>
      dx ra <- extend_inputs c m args;
      let (m1, o) := alloc (fst ra) (ODir n ds locs (snd ra)) in XOk (m1, o)
  | _ => XUnsupported
  end.
Definition build_dir (c : bctx) (m : mem) (d : ndirdef) : xres (mem * oid) :=
  match d with
  | NDirDef n ds locs args =>
      dx ra <- build_inputs c true m args;
      let (m1, o) := alloc (fst ra) (ODir n ds locs (snd ra)) in XOk (m1, o)
  end.

Fixpoint reserve (m : mem) (l : list (str * kind)) : mem * list (str * oid) :=
  match l with
  | [] => (m, [])
  | (n, k) :: l' => let (m1, o) := alloc m (OType n k None [] [] None []) in
                    let (m2, r) := reserve m1 l' in (m2, (n, o) :: r)
  end.

Fixpoint xfold {A} (f : mem -> A -> xres mem) (m : mem) (l : list A) : xres mem :=
  match l with
  | [] => XOk m
  | a :: l' => dx m1 <- f m a; xfold f m1 l'
  end.
Fixpoint xmap {A} (f : mem -> A -> xres (mem * oid)) (m : mem) (l : list A) : xres (mem * list oid) :=
  match l with
  | [] => XOk (m, [])
  | a :: l' => dx r <- f m a; dx rs <- xmap f (fst r) l'; XOk (fst rs, snd r :: snd rs)
  end.

Definition old_entries (m : mem) (s : schema) : list (str * oid) :=
  filter (fun e => negb (is_builtin (snd e))) (s_types s).
Definition kind_or_scalar (m : mem) (o : oid) : kind :=
  match tkind m o with Some k => k | None => Kscalar end.

Definition ext_root (c : bctx) (m : mem) (r : option oid) : xres (option oid) :=
  match r with
  | None => XOk None
  | Some o => match extend_oid c m o with Some o' => XOk (Some o') | None => XUnsupported end
  end.
Fixpoint apply_ops (c : bctx) (roots : option oid * option oid * option oid) (ops : list (N * str))
  : xres (option oid * option oid * option oid) :=
  match ops with
  | [] => XOk roots
  | (i, n) :: rest =>
      let '(q, mu, su) := roots in
      let cur := if N.eqb i 0 then q else if N.eqb i 1 then mu else su in
      match cur with
      | Some _ => XRejected
      | None =>
          match resolve_name c n with
          | None => XRejected
          | Some o => apply_ops c (if N.eqb i 0 then (Some o, mu, su)
                                   else if N.eqb i 1 then (q, Some o, su) else (q, mu, Some o)) rest
          end
      end
  end.

(* _collect_extensions in strict mode *)
Fixpoint nodup_strs (l : list str) : bool :=
  match l with
  | [] => true
  | x :: l' => negb (mem_str x l') && nodup_strs l'
  end.
(* ... a type or directive defined twice in the document itself is refused
   too (fix C11-09) *)
Definition collect_ok (m : mem) (s : schema) (doc : extdoc) : bool :=
  negb (x_schema_def doc)
  && nodup_strs (map td_name (x_defs doc)) && nodup_strs (map dd_name (x_dirs doc))
  && forallb (fun d => negb (ahas (td_name d) (s_types s))) (x_defs doc)
  && forallb (fun d => negb (ahas (dd_name d) (s_dirs s) || mem_str (dd_name d) specified_directive_names))
             (x_dirs doc)
  && forallb (fun e => ahas (te_target e) (s_types s) || mem_str (te_target e) (map td_name (x_defs doc)))
             (x_exts doc).

Definition extend_x (fuel : nat) (m : mem) (s : schema) (doc : extdoc) : xres (outcome (mem * schema)) :=
  if negb (collect_ok m s doc) then XRejected
  else
    let olds := old_entries m s in
    let (m1, plan_old) := reserve m (map (fun e => (fst e, kind_or_scalar m (snd e))) olds) in
    let (m2, plan_new) := reserve m1 (map (fun d => (td_name d, td_kind d)) (x_defs doc)) in
    let c := MkCtx (plan_old ++ plan_new)
                   (map (fun e => (fst e, kind_or_scalar m (snd e))) olds
                        ++ map (fun d => (td_name d, td_kind d)) (x_defs doc)) in
    dx rd <- xmap (extend_dir c) m2 (map snd (s_dirs s));
    dx rn <- xmap (build_dir c) (fst rd) (x_dirs doc);
    dx m3 <- xfold (fun mm e => match alookup (fst e) plan_old with
                                | Some self => extend_existing c doc mm (snd e) self
                                | None => XUnsupported
                                end) (fst rn) olds;
    dx m4 <- xfold (fun mm d => match alookup (td_name d) plan_new with
                                | Some self => build_new c doc mm d self
                                | None => XUnsupported
                                end) m3 (x_defs doc);
    dx q <- ext_root c m (s_query s);
    dx mu <- ext_root c m (s_mut s);
    dx su <- ext_root c m (s_sub s);
    dx roots <- apply_ops c (q, mu, su) (x_ops doc);
    let '(q', mu', su') := roots in
    let types' := map (fun e => if is_builtin (snd e) then snd e
                                else match alookup (fst e) plan_old with Some o => o | None => snd e end)
                      (s_types s) ++ map snd plan_new in
    XOk (do sc <- build fuel m4 q' mu' su' (snd rd ++ snd rn) types'; Ok (m4, sc)).

Definition extend (fuel : nat) (m : mem) (s : schema) (doc : extdoc) : outcome (mem * schema) :=
  match extend_x fuel m s doc with
  | XOk r => r
  | XRejected => Rejected 8 0
  | XUnsupported => Crash 11
  end.
