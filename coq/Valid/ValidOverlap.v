(* Model of validation/rules/overlapping_fields_can_be_merged.py (rule 25)
   after fixes C05-01 (_same_arguments on non scalar values), C05-02 (nested
   fragment pairs) and C05-07 (a collection of fields and a fragment are
   compared once). The recursion through fragments is bounded by the two memo
   sets of the code: compared fragment pairs, and compared (field map,
   fragment) pairs; in Gallina it runs on explicit fuel, and the memo sets are
   kept as their complements with respect to the finite universe of keys of
   the document ("not yet compared": every fragment name pair / every
   (selection set, fragment name), with the exclusivity flag), which is what
   makes the stated fuel provably sufficient. A field map is identified by
   the location of its selection set (unique in parser output; Python uses
   the identity of the cached dict).

   Not modelled: the memo table ctx.fields_and_fragments (pure cache), the
   identity test `field_map is fragment_field_map` (it only avoids comparing a
   fragment with itself, which can add no conflict that the "within" pass of
   the same selection set does not report) and the per-walk compared_fragments
   set (subsumed by the (field map, fragment) memo: within one walk the field
   map and the flag are fixed). Only whether a selection set has a conflict is
   computed, not the conflict's reason. *)
From PyGql Require Export Valid.ValidRules.

Record finfo := FInfo {
  fi_parent : option str;            (* named parent type, any kind *)
  fi_name : str;
  fi_args : list argument;
  fi_sub : option (loc * list selection);   (* selection set: its location and selections *)
  fi_def : option sfield }.
Definition fmap := list (str * list finfo).

Fixpoint fmap_add (k : str) (x : finfo) (m : fmap) : fmap :=
  match m with
  | [] => [(k, [x])]
  | (k', xs) :: m' => if str_eqb k k' then (k', xs ++ [x]) :: m' else (k', xs) :: fmap_add k x m'
  end.

Definition ov_field_def (s : schema) (parent : option str) (fname : str) : option sfield :=
  match parent with
  | Some p => match type_fields s p with Some fs => find_field fname fs | None => None end
  | None => None
  end.

Definition ov_type_name (s : schema) (t : ty) : option str :=
  match type_from_ast s t with Some r => Some (unwrap r) | None => None end.

(* _collect_fields_and_fragments *)
Fixpoint ov_collect_sel (s : schema) (parent : option str) (x : selection)
         (acc : fmap * list str) {struct x} : fmap * list str :=
  match x with
  | SField alias n args _ sl sub _ =>
      let rn := match alias with
                | Some a => match n_val a with [] => n_val n | _ => n_val a end
                | None => n_val n
                end in
      (fmap_add rn (FInfo parent (n_val n) args
                          (match sl with Some l0 => Some (l0, sub) | None => None end)
                          (ov_field_def s parent (n_val n))) (fst acc), snd acc)
  | SSpread n _ _ => (fst acc, snd acc ++ [n_val n])
  | SInline tc _ _ sub _ =>
      let p := match tc with Some t => ov_type_name s t | None => parent end in
      (fix go (ss : list selection) (a : fmap * list str) : fmap * list str :=
         match ss with [] => a | y :: ys => go ys (ov_collect_sel s p y a) end) sub acc
  end.

Definition fields_and_fragments (s : schema) (parent : option str) (sels : list selection)
  : fmap * list str :=
  let r := fold_left (fun a y => ov_collect_sel s parent y a) sels ([], []) in
  (fst r, dedup (snd r)).

(* ---- _same_arguments (repaired) ---- *)
Fixpoint same_value (a b : value) {struct a} : bool :=
  match a, b with
  | VVar n _, VVar m _ => str_eqb (n_val n) (n_val m)
  | VInt x _, VInt y _ => str_eqb x y
  | VFloat x _, VFloat y _ => str_eqb x y
  | VString x _ _, VString y _ _ => str_eqb x y
  | VBool x _, VBool y _ => Bool.eqb x y
  | VNull _, VNull _ => true
  | VEnum x _, VEnum y _ => str_eqb x y
  | VList xs _, VList ys _ =>
      (fix go (l1 : list value) (l2 : list value) : bool :=
         match l1, l2 with
         | [], [] => true
         | x :: l1', y :: l2' => same_value x y && go l1' l2'
         | _, _ => false
         end) xs ys
  | VObject fs _, VObject gs _ =>
      (fix go (l1 : list (name * value * loc)) (l2 : list (name * value * loc)) : bool :=
         match l1, l2 with
         | [], [] => true
         | (n, x, _) :: l1', (m, y, _) :: l2' =>
             str_eqb (n_val n) (n_val m) && same_value x y && go l1' l2'
         | _, _ => false
         end) fs gs
  | _, _ => false
  end.

(* code point order of Python str *)
Fixpoint str_ltb (a b : str) : bool :=
  match a, b with
  | _, [] => false
  | [], _ :: _ => true
  | x :: a', y :: b' => if N.ltb x y then true else if N.eqb x y then str_ltb a' b' else false
  end.

(* sorted(args, key=name): stable *)
Fixpoint arg_insert (a : argument) (l : list argument) : list argument :=
  match l with
  | [] => [a]
  | b :: l' => if str_ltb (n_val (a_name b)) (n_val (a_name a)) then b :: arg_insert a l' else a :: l
  end.
Definition arg_sort (l : list argument) : list argument := fold_right arg_insert [] l.

Fixpoint args_pairwise (l1 l2 : list argument) : bool :=
  match l1, l2 with
  | [], [] => true
  | a :: l1', b :: l2' =>
      str_eqb (n_val (a_name a)) (n_val (a_name b)) && same_value (a_val a) (a_val b)
      && args_pairwise l1' l2'
  | _, _ => false
  end.
Definition same_arguments (l1 l2 : list argument) : bool :=
  Nat.eqb (length l1) (length l2) && args_pairwise (arg_sort l1) (arg_sort l2).

(* _types_conflict *)
Fixpoint types_conflict (s : schema) (a b : tref) : bool :=
  match a, b with
  | RList x, RList y => types_conflict s x y
  | RNonNull x, RNonNull y => types_conflict s x y
  | RNamed x, RNamed y => if is_leaf s x || is_leaf s y then negb (str_eqb x y) else false
  | _, _ => true
  end.

Definition opt_name_eqb (a b : option str) : bool :=
  match a, b with
  | Some x, Some y => str_eqb x y
  | None, None => true
  | _, _ => false
  end.
Definition opt_is_object (s : schema) (a : option str) : bool :=
  match a with Some x => is_object s x | None => false end.

Inductive call :=
| CFind (me : bool) (f1 f2 : finfo)
| CBetween (me : bool) (m1 m2 : fmap)
| CFieldsFrag (me : bool) (mid : loc) (m : fmap) (f : str)
| CFrags (me : bool) (f1 f2 : str)
| CSub (me : bool) (p1 : option str) (l1 : loc) (s1 : list selection)
       (p2 : option str) (l2 : loc) (s2 : list selection).

(* (fragment pairs not yet compared, (field map, fragment) pairs not yet compared) *)
Definition qstate := list (loc * list (str * bool)).   (* per selection set: fragments not yet compared with it *)
Definition ostate := (list (str * str * bool) * qstate)%type.

Definition loc_eqb (a b : loc) : bool :=
  match a, b with
  | Some (x, y), Some (x', y') => Nat.eqb x x' && Nat.eqb y y'
  | None, None => true
  | _, _ => false
  end.

Definition pkey_match (a b : str) (me : bool) (k : str * str * bool) : bool :=
  let '(x, y, m) := k in
  Bool.eqb m me && ((str_eqb x a && str_eqb y b) || (str_eqb x b && str_eqb y a)).
Definition ematch (f : str) (me : bool) (k : str * bool) : bool :=
  Bool.eqb (snd k) me && str_eqb (fst k) f.
(* take the key (l, f, me) out of the not-yet-compared set; None: already compared *)
Fixpoint q_take (l : loc) (f : str) (me : bool) (q : qstate) : option qstate :=
  match q with
  | [] => None
  | (l', es) :: q' =>
      if loc_eqb l' l && existsb (ematch f me) es
      then Some ((l', filter (fun k => negb (ematch f me k)) es) :: q')
      else match q_take l f me q' with Some r => Some ((l', es) :: r) | None => None end
  end.
Fixpoint q_size (q : qstate) : nat :=
  match q with [] => 0 | (_, es) :: q' => length es + q_size q' end.

Fixpoint perms {A} (l : list A) : list (A * A) :=
  match l with [] => [] | x :: l' => map (fun y => (x, y)) l' ++ perms l' end.
Definition cross {A B} (l1 : list A) (l2 : list B) : list (A * B) :=
  flat_map (fun a => map (fun b => (a, b)) l2) l1.

(* ctx.fragments: a later definition of the same name wins *)
Fixpoint frag_table (ds : list definition) : list (str * (ty * list selection)) :=
  match ds with
  | [] => []
  | DFragment n _ tc _ _ sels _ :: ds' =>
      let rest := frag_table ds' in
      match alookup (n_val n) rest with
      | Some _ => rest
      | None => (n_val n, (tc, sels)) :: rest
      end
  | _ :: ds' => frag_table ds'
  end.

Definition frag_ff (s : schema) (frs : list (str * (ty * list selection))) (f : str)
  : option (fmap * list str) :=
  match alookup f frs with
  | Some (tc, sels) => Some (fields_and_fragments s (ov_type_name s tc) sels)
  | None => None
  end.

Fixpoint run (fuel : nat) (s : schema) (frs : list (str * (ty * list selection)))
         (c : call) (st : ostate) {struct fuel} : outcome (bool * ostate) :=
  match fuel with
  | O => OutOfFuel
  | S f =>
      let seq :=
        (fix seq (cs : list call) (st0 : ostate) (b : bool) : outcome (bool * ostate) :=
           match cs with
           | [] => Ok (b, st0)
           | c' :: cs' =>
               match run f s frs c' st0 with
               | Ok (b', st') => seq cs' st' (b || b')
               | OutOfFuel => OutOfFuel
               | Rejected k p => Rejected k p
               | Crash k => Crash k
               end
           end) in
      match c with
      | CFind me f1 f2 =>
          let mex := me || (negb (opt_name_eqb (fi_parent f1) (fi_parent f2))
                            && opt_is_object s (fi_parent f1) && opt_is_object s (fi_parent f2)) in
          let t1 := match fi_def f1 with Some d => Some (sf_type d) | None => None end in
          let t2 := match fi_def f2 with Some d => Some (sf_type d) | None => None end in
          if negb mex && negb (str_eqb (fi_name f1) (fi_name f2)) then Ok (true, st)
          else if negb mex && negb (same_arguments (fi_args f1) (fi_args f2)) then Ok (true, st)
          else if match t1, t2 with Some a, Some b => types_conflict s a b | _, _ => false end
               then Ok (true, st)
          else match fi_sub f1, fi_sub f2 with
               | Some (l1, s1), Some (l2, s2) =>
                   run f s frs (CSub mex (option_map unwrap t1) l1 s1 (option_map unwrap t2) l2 s2) st
               | _, _ => Ok (false, st)
               end
      | CBetween me m1 m2 =>
          seq (flat_map (fun kv => match alookup (fst kv) m2 with
                                   | Some fs2 => map (fun p => CFind me (fst p) (snd p)) (cross (snd kv) fs2)
                                   | None => []
                                   end) m1) st false
      | CFieldsFrag me mid m fr =>
          match q_take mid fr me (snd st) with
          | None => Ok (false, st)
          | Some q' =>
              let st1 := (fst st, q') in
              match frag_ff s frs fr with
              | None => Ok (false, st1)
              | Some (fm2, fns) => seq (CBetween me m fm2 :: map (CFieldsFrag me mid m) fns) st1 false
              end
          end
      | CFrags me a b =>
          if str_eqb a b then Ok (false, st)
          else if negb (existsb (pkey_match a b me) (fst st)) then Ok (false, st)
          else let st1 := (filter (fun k => negb (pkey_match a b me k)) (fst st), snd st) in
               match frag_ff s frs a, frag_ff s frs b with
               | Some (fm1, fns1), Some (fm2, fns2) =>
                   seq (CBetween me fm1 fm2
                        :: map (fun x => CFrags me x b) fns1 ++ map (fun x => CFrags me a x) fns2) st1 false
               | _, _ => Ok (false, st1)
               end
      | CSub me p1 l1 s1 p2 l2 s2 =>
          let ff1 := fields_and_fragments s p1 s1 in
          let ff2 := fields_and_fragments s p2 s2 in
          seq (CBetween me (fst ff1) (fst ff2)
               :: map (CFieldsFrag me l1 (fst ff1)) (snd ff2)
               ++ map (CFieldsFrag me l2 (fst ff2)) (snd ff1)
               ++ map (fun p => CFrags me (fst p) (snd p)) (cross (snd ff1) (snd ff2))) st false
      end
  end.

Fixpoint run_list (fuel : nat) (s : schema) (frs : list (str * (ty * list selection)))
         (cs : list call) (st : ostate) (b : bool) : outcome (bool * ostate) :=
  match cs with
  | [] => Ok (b, st)
  | c :: cs' => do r <- run fuel s frs c st; run_list fuel s frs cs' (snd r) (b || fst r)
  end.

(* find_conflicts_within_selection_set *)
Definition selset_calls (s : schema) (parent : option str) (l : loc) (sels : list selection) : list call :=
  let ff := fields_and_fragments s parent sels in
  flat_map (fun kv => map (fun p => CFind false (fst p) (snd p)) (perms (snd kv))) (fst ff)
  ++ map (CFieldsFrag false l (fst ff)) (snd ff)
  ++ map (fun p => CFrags false (fst p) (snd p)) (perms (snd ff)).

Fixpoint overlap_events (fuel : nat) (s : schema) (frs : list (str * (ty * list selection)))
         (es : list ev) (st : ostate) : outcome (list viol) :=
  match es with
  | [] => Ok []
  | ESelSet parent l sels :: es' =>
      do r <- run_list fuel s frs (selset_calls s parent l sels) st false;
      do rest <- overlap_events fuel s frs es' (snd r);
      Ok ((if fst r then [mk 25 None] else []) ++ rest)
  | _ :: es' => overlap_events fuel s frs es' st
  end.

(* ---- the finite universe of memo keys of a document ---- *)
Definition both_flags {A} (x : A) : list (A * bool) := [(x, true); (x, false)].
Definition pair_universe (names : list str) : list (str * str * bool) :=
  flat_map (fun a => flat_map (fun b => both_flags (a, b)) names) names.
Definition selset_locs (es : list ev) : list loc :=
  flat_map (fun e => match e with ESelSet _ l _ => [l] | _ => [] end) es.
Definition ff_universe (locs : list loc) (names : list str) : qstate :=
  map (fun l => (l, flat_map both_flags names)) locs.
Definition initial_state (s : schema) (d : document) : ostate :=
  let names := map fst (frag_table (doc_defs d)) in
  (pair_universe names, ff_universe (selset_locs (doc_events s d)) names).

Definition r25_overlapping_fields (fuel : nat) (s : schema) (d : document) : outcome (list viol) :=
  overlap_events fuel s (frag_table (doc_defs d)) (doc_events s d) (initial_state s d).

(* ---- the stated fuel ---- *)
Fixpoint sel_h (x : selection) : nat :=
  match x with
  | SField _ _ _ _ _ sub _ =>
      S ((fix go (ss : list selection) : nat :=
            match ss with [] => 0 | y :: ys => Nat.max (sel_h y) (go ys) end) sub)
  | SSpread _ _ _ => 0
  | SInline _ _ _ sub _ =>
      S ((fix go (ss : list selection) : nat :=
            match ss with [] => 0 | y :: ys => Nat.max (sel_h y) (go ys) end) sub)
  end.
Fixpoint sels_h (ss : list selection) : nat :=
  match ss with [] => 0 | y :: ys => Nat.max (sel_h y) (sels_h ys) end.
Definition def_body (d : definition) : list selection :=
  match d with
  | DOperation _ _ _ _ _ sels _ => sels
  | DFragment _ _ _ _ _ sels _ => sels
  | _ => []
  end.
Fixpoint defs_h (ds : list definition) : nat :=
  match ds with [] => 0 | d :: ds' => Nat.max (sels_h (def_body d)) (defs_h ds') end.

Definition state_size (st : ostate) : nat := length (fst st) + q_size (snd st).
(* every memo key buys one more descent through the deepest selection *)
Definition overlap_fuel (s : schema) (d : document) : nat :=
  let h := defs_h (doc_defs d) in
  state_size (initial_state s d) * (3 * h + 4) + 3 * h + 3.

(* ------------------------------------------------------------------ *)
(* validate_model: concatenation of the per-rule results               *)

Definition rule_model (fuel : nat) (s : schema) (d : document) (r : N) : outcome (list viol) :=
  match r with
  | 1 => Ok (r01_executable d)
  | 2 => Ok (r02_unique_op_names d)
  | 3 => Ok (r03_lone_anonymous d)
  | 4 => Ok (r04_single_field_subscription d)
  | 5 => Ok (r05_known_type_names s d)
  | 6 => Ok (r06_fragments_on_composite s d)
  | 7 => Ok (r07_variables_are_input_types s d)
  | 8 => Ok (r08_scalar_leafs s d)
  | 9 => Ok (r09_fields_on_correct_type s d)
  | 10 => Ok (r10_unique_fragment_names d)
  | 11 => Ok (r11_known_fragment_names s d)
  | 12 => Ok (r12_no_unused_fragments s d)
  | 13 => Ok (r13_possible_spreads s d)
  | 14 => r14_no_fragment_cycles s d
  | 15 => Ok (r15_unique_variable_names d)
  | 16 => r16_no_undefined_variables s d
  | 17 => r17_no_unused_variables s d
  | 18 => Ok (r18_known_directives s d)
  | 19 => Ok (r19_unique_directives s d)
  | 20 => Ok (r20_known_argument_names s d)
  | 21 => Ok (r21_unique_argument_names s d)
  | 22 => Ok (r22_values_of_correct_type s d)
  | 23 => Ok (r23_provided_required_arguments s d)
  | 24 => r24_variables_in_allowed_position s d
  | 25 => r25_overlapping_fields fuel s d
  | 26 => Ok (r26_unique_input_field_names s d)
  | _ => Ok []
  end%N.

Definition all_rules : list N :=
  [1; 2; 3; 4; 5; 6; 7; 8; 9; 10; 11; 12; 13; 14; 15; 16; 17; 18; 19; 20; 21; 22; 23; 24; 25; 26]%N.
Definition rules_but_overlap : list N :=
  [1; 2; 3; 4; 5; 6; 7; 8; 9; 10; 11; 12; 13; 14; 15; 16; 17; 18; 19; 20; 21; 22; 23; 24; 26]%N.

Definition validate_rules (fuel : nat) (s : schema) (d : document) (rs : list N) : outcome (list viol) :=
  ocat (rule_model fuel s d) rs.
Definition validate_model (fuel : nat) (s : schema) (d : document) : outcome (list viol) :=
  validate_rules fuel s d all_rules.
(* with the stated fuel *)
Definition validate (s : schema) (d : document) : outcome (list viol) :=
  validate_model (overlap_fuel s d) s d.
