(* Executable model of py_gql/validation: TypeInfoVisitor context
   (validation/visitors.py), VariablesCollector, and 25 of the 26 rule
   visitors of validation/rules/__init__.py + values_of_correct_type.py
   (OverlappingFieldsCanBeMerged is in ValidOverlap.v), for the tree after
   the repairs fixes/C05-*.patch and fixes/C06-*.patch.

   A rule returns its violations as (rule number in SPECIFIED_RULES order,
   location of the first reported node). SkipNode pruning is not modelled:
   every SkipNode in the rule visitors is preceded by add_error of the same
   rule, so emptiness of a rule's list is unaffected (the correspondence
   compares emptiness per rule). *)
From PyGql Require Export Valid.ValidSchema.


Definition viol := (N * loc)%type.
Definition mk (r : N) (l : loc) : viol := (r, l).

Fixpoint dup_locs_aux (seen : list str) (l : list (str * loc)) : list loc :=
  match l with
  | [] => []
  | (n, lc) :: l' => if mem_str n seen then lc :: dup_locs_aux seen l'
                     else dup_locs_aux (n :: seen) l'
  end.
Definition dup_locs := dup_locs_aux [].

Fixpoint dedup_aux (seen : list str) (l : list str) : list str :=
  match l with
  | [] => []
  | x :: l' => if mem_str x seen then dedup_aux seen l' else x :: dedup_aux (x :: seen) l'
  end.
Definition dedup := dedup_aux [].

(* ------------------------------------------------------------------ *)
(* TypeInfoVisitor: the context every rule sees at a node              *)

Inductive ev :=
| EField (parent : option str) (fdef : option sfield) (alias : option name) (n : name)
         (args : list argument) (dirs : list directive) (sl : option loc) (l : loc)
| ESelSet (parent : option str) (ssl : loc) (sels : list selection)
| ESpread (parent : option str) (n : name) (dirs : list directive) (l : loc)
| EInline (ity : option tref) (parent : option str) (tc : option ty) (dirs : list directive) (l : loc)
| EDirective (where_ : str) (cf : option sfield) (d : directive).

Definition out_filter (s : schema) (t : option tref) : option tref :=
  match t with Some r => if is_output_type s r then Some r else None | None => None end.
Definition in_filter (s : schema) (t : option tref) : option tref :=
  match t with Some r => if is_input_type s r then Some r else None | None => None end.
(* enter_selection_set: named type of the current type if composite *)
Definition sel_parent (s : schema) (t : option tref) : option str :=
  match t with
  | Some r => let n := unwrap r in if is_composite s n then Some n else None
  | None => None
  end.

Definition field_def_of (s : schema) (parent : option str) (fname : str) : option sfield :=
  match parent with Some p => get_field_def s p fname | None => None end.
Definition field_type_of (s : schema) (fdef : option sfield) : option tref :=
  match fdef with Some f => out_filter s (Some (sf_type f)) | None => None end.

Fixpoint sel_events (s : schema) (ty_ : option tref) (parent : option str) (cf : option sfield)
         (x : selection) {struct x} : list ev :=
  match x with
  | SField alias n args dirs sl sub l =>
      let fdef := field_def_of s parent (n_val n) in
      let fty := field_type_of s fdef in
      EField parent fdef alias n args dirs sl l
      :: map (EDirective (S_ "FIELD") fdef) dirs
      ++ match sl with
         | None => []
         | Some l0 =>
             let p' := sel_parent s fty in
             ESelSet p' l0 sub ::
             (fix go (ss : list selection) : list ev :=
                match ss with [] => [] | y :: ys => sel_events s fty p' fdef y ++ go ys end) sub
         end
  | SSpread n dirs l =>
      ESpread parent n dirs l :: map (EDirective (S_ "FRAGMENT_SPREAD") cf) dirs
  | SInline tc dirs ssl sub l =>
      let ity := match tc with
                 | Some t => out_filter s (type_from_ast s t)
                 | None => out_filter s ty_
                 end in
      let p' := sel_parent s ity in
      EInline ity parent tc dirs l
      :: map (EDirective (S_ "INLINE_FRAGMENT") cf) dirs
      ++ ESelSet p' ssl sub ::
         (fix go (ss : list selection) : list ev :=
            match ss with [] => [] | y :: ys => sel_events s ity p' cf y ++ go ys end) sub
  end.

Definition op_loc_name (k : op_kind) : str :=
  match k with OpQuery => S_ "QUERY" | OpMutation => S_ "MUTATION" | OpSubscription => S_ "SUBSCRIPTION" end.

Definition op_root (s : schema) (k : op_kind) : option tref :=
  match root_type s k with
  | Some r => if is_object s r then Some (RNamed r) else None
  | None => None
  end.

Definition def_events (s : schema) (d : definition) : list ev :=
  match d with
  | DOperation k _ _ dirs ssl sels _ =>
      let ty_ := op_root s k in
      let p := sel_parent s ty_ in
      map (EDirective (op_loc_name k) None) dirs
      ++ ESelSet p ssl sels :: flat_map (sel_events s ty_ p None) sels
  | DFragment _ _ tc dirs ssl sels _ =>
      let ty_ := out_filter s (type_from_ast s tc) in
      let p := sel_parent s ty_ in
      map (EDirective (S_ "FRAGMENT_DEFINITION") None) dirs
      ++ ESelSet p ssl sels :: flat_map (sel_events s ty_ p None) sels
  | _ => []
  end.

Definition doc_events (s : schema) (d : document) : list ev :=
  flat_map (def_events s) (doc_defs d).

(* ---- input positions: enter_argument / enter_list_value / enter_object_field ---- *)
Definition arg_slot (s : schema) (ctx : option (list sarg)) (aname : str) : option tref * bool :=
  match ctx with
  | None => (None, false)
  | Some defs => match find_arg aname defs with
                 | Some ad => (in_filter s (Some (sa_type ad)), sa_default ad)
                 | None => (None, false)
                 end
  end.

(* ctx = self.directive or self.field *)
Definition dir_arg_ctx (s : schema) (cf : option sfield) (d : directive) : option (list sarg) :=
  match alookup (n_val (d_name d)) (s_dirs s) with
  | Some dd => Some (sd_args dd)
  | None => match cf with Some f => Some (sf_args f) | None => None end
  end.

Definition item_type (s : schema) (ity : option tref) : option tref :=
  match ity with
  | None => None
  | Some t => let lt := nullable t in
              let it := match lt with RList e => e | _ => lt end in
              in_filter s (Some it)
  end.

Definition obj_field_slot (s : schema) (ity : option tref) (fname : str) : option tref * bool :=
  match ity with
  | None => (None, false)
  | Some t => match lookup_type s (unwrap t) with
              | Some (TInput fs) =>
                  match find_arg fname fs with
                  | Some fd => (in_filter s (Some (sa_type fd)), sa_default fd)
                  | None => (None, false)
                  end
              | _ => (None, false)
              end
  end.

(* every argument value of an event with the input type / default flag at it *)
Definition typed_args (s : schema) (ctx : option (list sarg)) (args : list argument)
  : list (option tref * bool * value) :=
  map (fun a => let sl := arg_slot s ctx (n_val (a_name a)) in (fst sl, snd sl, a_val a)) args.

Definition typed_values_ev (s : schema) (e : ev) : list (option tref * bool * value) :=
  match e with
  | EField _ fdef _ _ args _ _ _ =>
      typed_args s (match fdef with Some f => Some (sf_args f) | None => None end) args
  | EDirective _ cf d => typed_args s (dir_arg_ctx s cf d) (d_args d)
  | _ => []
  end.

Definition op_vardefs (d : definition) : list var_def :=
  match d with DOperation _ _ vds _ _ _ _ => vds | _ => [] end.

(* default values of operation variable definitions (enter_variable_definition) *)
Definition typed_defaults (s : schema) (d : definition) : list (option tref * bool * value) :=
  flat_map (fun vd => match vd_default vd with
                      | Some v => [(in_filter s (type_from_ast s (vd_type vd)), false, v)]
                      | None => []
                      end) (op_vardefs d).

(* ------------------------------------------------------------------ *)
(* ValuesOfCorrectType (22)                                            *)

Fixpoint digits_val (acc : Z) (l : str) : option Z :=
  match l with
  | [] => Some acc
  | c :: l' => if (N.leb 48 c && N.leb c 57)%bool
               then digits_val (acc * 10 + Z.of_N (c - 48)) l' else None
  end.
Definition z_of_str (l : str) : option Z :=
  match l with
  | [] => None
  | c :: l' => if N.eqb c 45
               then match l' with [] => None | _ => option_map Z.opp (digits_val 0 l') end
               else digits_val 0 l
  end.
Definition int_ok (sv : str) : bool :=
  match z_of_str sv with
  | Some z => (Z.leb (-2147483648) z && Z.leb z 2147483647)%bool
  | None => false
  end.

Definition parse_literal_ok (k : scalar_kind) (v : value) : bool :=
  match k, v with
  | SkInt, VInt sv _ => int_ok sv
  | SkFloat, VInt _ _ => true
  | SkFloat, VFloat _ _ => true
  | SkString, VString _ _ _ => true
  | SkBoolean, VBool _ _ => true
  | SkID, VString _ _ _ => true
  | SkID, VInt _ _ => true
  | SkCustom, VInt _ _ => true
  | SkCustom, VFloat _ _ => true
  | SkCustom, VString _ _ _ => true
  | SkCustom, VBool _ _ => true
  | SkCustom, VEnum _ _ => true
  | _, _ => false
  end.

Definition value_loc (v : value) : loc :=
  match v with
  | VVar _ l | VInt _ l | VFloat _ l | VString _ _ l | VBool _ l | VNull l | VEnum _ l
  | VList _ l | VObject _ l => l
  end.

Definition check_scalar (s : schema) (ity : option tref) (v : value) : list viol :=
  match ity with
  | None => []
  | Some t => match lookup_type s (unwrap t) with
              | Some (TScalar k) => if parse_literal_ok k v then [] else [mk 22 (value_loc v)]
              | _ => [mk 22 (value_loc v)]
              end
  end.

Fixpoint check_value (s : schema) (ity : option tref) (v : value) {struct v} : list viol :=
  match v with
  | VVar _ _ => []
  | VInt _ _ | VFloat _ _ | VString _ _ _ | VBool _ _ => check_scalar s ity v
  | VNull l => match ity with Some (RNonNull _) => [mk 22 l] | _ => [] end
  | VEnum e l =>
      match ity with
      | None => []
      | Some t => match lookup_type s (unwrap t) with
                  | Some (TEnum vals) => if mem_str e vals then [] else [mk 22 l]
                  | _ => check_scalar s ity v
                  end
      end
  | VList vs l =>
      (match ity with
       | None => []
       | Some t => match nullable t with RList _ => [] | _ => [mk 22 l] end
       end)
      ++ (fix go (xs : list value) : list viol :=
            match xs with [] => [] | x :: xs' => check_value s (item_type s ity) x ++ go xs' end) vs
  | VObject fs l =>
      match ity with
      | None => []
      | Some t =>
          match lookup_type s (unwrap t) with
          | Some (TInput defs) =>
              map (fun _ => mk 22 l)
                  (filter (fun fd => sarg_required fd
                                     && negb (mem_str (sa_name fd) (map (fun f => n_val (fst (fst f))) fs)))
                          defs)
              ++ (fix go (xs : list (name * value * loc)) : list viol :=
                    match xs with
                    | [] => []
                    | (n, x, fl) :: xs' =>
                        let slot := obj_field_slot s ity (n_val n) in
                        (match fst slot with None => [mk 22 fl] | Some _ => [] end)
                        ++ check_value s (fst slot) x ++ go xs'
                    end) fs
          | _ => [mk 22 l]
          end
      end
  end.

(* ------------------------------------------------------------------ *)
(* VariablesCollector.enter_variable                                   *)

Record usage := Usage { u_name : str; u_loc : loc; u_type : option tref; u_default : bool }.

Fixpoint value_usages (s : schema) (ity : option tref) (hd : bool) (v : value) {struct v} : list usage :=
  match v with
  | VVar n l => [Usage (n_val n) l ity hd]
  | VList vs _ =>
      (fix go (xs : list value) : list usage :=
         match xs with [] => [] | x :: xs' => value_usages s (item_type s ity) false x ++ go xs' end) vs
  | VObject fs _ =>
      (fix go (xs : list (name * value * loc)) : list usage :=
         match xs with
         | [] => []
         | (n, x, _) :: xs' =>
             let slot := obj_field_slot s ity (n_val n) in
             value_usages s (fst slot) (snd slot) x ++ go xs'
         end) fs
  | _ => []
  end.

Definition ev_usages (s : schema) (e : ev) : list usage :=
  flat_map (fun p => value_usages s (fst (fst p)) (snd (fst p)) (snd p)) (typed_values_ev s e).
Definition def_usages (s : schema) (d : definition) : list usage :=
  flat_map (ev_usages s) (def_events s d).

Definition ev_spread (e : ev) : list str :=
  match e with ESpread _ n _ _ => [n_val n] | _ => [] end.
Definition def_spreads (s : schema) (d : definition) : list str :=
  flat_map ev_spread (def_events s d).

(* ---- definitions by kind ---- *)
Definition is_op (d : definition) : bool := match d with DOperation _ _ _ _ _ _ _ => true | _ => false end.
Definition is_frag (d : definition) : bool := match d with DFragment _ _ _ _ _ _ _ => true | _ => false end.
Definition frag_name (d : definition) : option str :=
  match d with DFragment n _ _ _ _ _ _ => Some (n_val n) | _ => None end.
Definition frag_names (d : document) : list str :=
  flat_map (fun x => match frag_name x with Some n => [n] | None => [] end) (doc_defs d).
(* VariablesCollector: self._op = node.name.value if node.name else "" *)
Definition op_key (d : definition) : option str :=
  match d with
  | DOperation _ (Some n) _ _ _ _ _ => Some (n_val n)
  | DOperation _ None _ _ _ _ _ => Some []
  | _ => None
  end.
Definition op_keys (d : document) : list str :=
  dedup (flat_map (fun x => match op_key x with Some k => [k] | None => [] end) (doc_defs d)).
Definition defs_with_key (d : document) (k : str) : list definition :=
  filter (fun x => match op_key x with Some k' => str_eqb k k' | None => false end) (doc_defs d).
Definition defs_named (d : document) (f : str) : list definition :=
  filter (fun x => match frag_name x with Some f' => str_eqb f f' | None => false end) (doc_defs d).

(* _op_fragments[op], _fragment_fragments[f], _fragment_variables[f], ... *)
Definition op_frags (s : schema) (d : document) (k : str) : list str :=
  flat_map (def_spreads s) (defs_with_key d k).
Definition frag_frags (s : schema) (d : document) (f : str) : list str :=
  filter (fun x => negb (str_eqb x f)) (flat_map (def_spreads s) (defs_named d f)).
Definition frag_usages (s : schema) (d : document) (f : str) : list usage :=
  flat_map (def_usages s) (defs_named d f).
Definition op_usages (s : schema) (d : document) (k : str) : list usage :=
  flat_map (def_usages s) (defs_with_key d k).
Definition op_defined (d : document) (k : str) : list var_def :=
  flat_map op_vardefs (defs_with_key d k).
Definition vd_name (vd : var_def) : str := n_val (vd_var vd).

(* ---- transitive closure of spreads (repaired _flatten_fragments; also the
        reachable set of NoFragmentCycles._search). One round adds every
        candidate spread by a member; stops when a round adds nothing. ---- *)
Fixpoint close (fuel : nat) (cands : list str) (g : str -> list str) (S0 : list str)
  : outcome (list str) :=
  match fuel with
  | O => OutOfFuel
  | S f =>
      let new := filter (fun c => negb (mem_str c S0) && existsb (fun p => mem_str c (g p)) S0) cands in
      match new with
      | [] => Ok S0
      | _ => close f (filter (fun c => negb (mem_str c new)) cands) g (S0 ++ new)
      end
  end.

Definition close_fuel (d : document) : nat := S (length (frag_names d)).

Definition op_closure (s : schema) (d : document) (k : str) : outcome (list str) :=
  close (close_fuel d) (frag_names d) (frag_frags s d) (op_frags s d k).

(* sequencing over a list of outcome-producing computations *)
Fixpoint ocat {A B} (f : A -> outcome (list B)) (l : list A) : outcome (list B) :=
  match l with
  | [] => Ok []
  | x :: l' => do a <- f x; do b <- ocat f l'; Ok (a ++ b)
  end.

(* ------------------------------------------------------------------ *)
(* the rules, numbered as in validate.SPECIFIED_RULES                  *)

Definition def_loc (d : definition) : loc :=
  match d with
  | DOperation _ _ _ _ _ _ l | DFragment _ _ _ _ _ _ l | DSchema _ _ _ l | DScalar _ _ _ _ l
  | DObject _ _ _ _ _ _ l | DInterface _ _ _ _ _ l | DUnion _ _ _ _ _ l | DEnum _ _ _ _ _ l
  | DInput _ _ _ _ _ l | DDirective _ _ _ _ l => l
  end.

Definition r01_executable (d : document) : list viol :=
  flat_map (fun x => if is_op x || is_frag x then [] else [mk 1 (def_loc x)]) (doc_defs d).

Definition op_kind_str (k : op_kind) : str :=
  match k with OpQuery => S_ "query" | OpMutation => S_ "mutation" | OpSubscription => S_ "subscription" end.
Definition r02_unique_op_names (d : document) : list viol :=
  map (mk 2) (dup_locs (flat_map (fun x => match x with
     | DOperation k (Some n) _ _ _ _ l => [(n_val n, l)]
     | DOperation k None _ _ _ _ l => [(op_kind_str k, l)]
     | _ => [] end) (doc_defs d))).

Definition r03_lone_anonymous (d : document) : list viol :=
  let ops := filter is_op (doc_defs d) in
  let anon := existsb (fun x => match x with DOperation _ None _ _ _ _ _ => true | _ => false end) ops in
  if anon && Nat.ltb 1 (length ops) then [mk 3 (doc_loc d)] else [].

Definition r04_single_field_subscription (d : document) : list viol :=
  flat_map (fun x => match x with
     | DOperation OpSubscription _ _ _ _ sels l =>
         if Nat.eqb (length sels) 1 then [] else [mk 4 l]
     | _ => [] end) (doc_defs d).

Definition ty_loc (t : ty) : loc :=
  match t with TNamed _ l | TList _ l | TNonNull _ l => l end.

Definition r05_known_type_names (s : schema) (d : document) : list viol :=
  flat_map (fun x => flat_map (fun vd => match type_from_ast s (vd_type vd) with
                                         | Some _ => []
                                         | None => [mk 5 (ty_loc (vd_type vd))]
                                         end) (op_vardefs x)) (doc_defs d).

Definition bad_type_condition (s : schema) (t : ty) : list viol :=
  match type_from_ast s t with
  | None => [mk 6 (ty_loc t)]
  | Some r => match r with
              | RNamed n => if is_composite s n then [] else [mk 6 (ty_loc t)]
              | _ => [mk 6 (ty_loc t)]
              end
  end.
Definition r06_fragments_on_composite (s : schema) (d : document) : list viol :=
  flat_map (fun x => match x with DFragment _ _ tc _ _ _ _ => bad_type_condition s tc | _ => [] end) (doc_defs d)
  ++ flat_map (fun e => match e with EInline _ _ (Some t) _ _ => bad_type_condition s t | _ => [] end)
              (doc_events s d).

Definition r07_variables_are_input_types (s : schema) (d : document) : list viol :=
  flat_map (fun x => flat_map (fun vd => match type_from_ast s (vd_type vd) with
                                         | Some r => if is_input_type s r then [] else [mk 7 (vd_loc vd)]
                                         | None => [mk 7 (vd_loc vd)]
                                         end) (op_vardefs x)) (doc_defs d).

Definition r08_scalar_leafs (s : schema) (d : document) : list viol :=
  flat_map (fun e => match e with
     | EField _ fdef _ _ _ _ sl l =>
         match field_type_of s fdef with
         | None => []
         | Some t =>
             let n := unwrap t in
             (if is_leaf s n && (match sl with Some _ => true | None => false end) then [mk 8 l] else [])
             ++ (if is_composite s n && (match sl with Some _ => false | None => true end) then [mk 8 l] else [])
         end
     | _ => [] end) (doc_events s d).

Definition r09_fields_on_correct_type (s : schema) (d : document) : list viol :=
  flat_map (fun e => match e with
     | EField (Some _) None _ _ _ _ _ l => [mk 9 l]
     | _ => [] end) (doc_events s d).

Definition r10_unique_fragment_names (d : document) : list viol :=
  map (mk 10) (dup_locs (flat_map (fun x => match x with
     | DFragment n _ _ _ _ _ l => [(n_val n, l)] | _ => [] end) (doc_defs d))).

Definition r11_known_fragment_names (s : schema) (d : document) : list viol :=
  flat_map (fun e => match e with
     | ESpread _ n _ l => if mem_str (n_val n) (frag_names d) then [] else [mk 11 l]
     | _ => [] end) (doc_events s d).

Definition all_spreads (s : schema) (d : document) : list str := flat_map ev_spread (doc_events s d).
Definition r12_no_unused_fragments (s : schema) (d : document) : list viol :=
  if forallb (fun f => mem_str f (all_spreads s d)) (frag_names d) then [] else [mk 12 None].

(* PossibleFragmentSpreads._fragment_types: last definition wins; unknown -> absent *)
Fixpoint frag_type_of (s : schema) (ds : list definition) (f : str) : option tref :=
  match ds with
  | [] => None
  | x :: ds' =>
      match frag_type_of s ds' f with
      | Some r => Some r
      | None =>
          if existsb (fun y => match frag_name y with Some f' => str_eqb f f' | None => false end) ds'
          then None
          else match x with
               | DFragment n _ tc _ _ _ _ => if str_eqb (n_val n) f then type_from_ast s tc else None
               | _ => None
               end
      end
  end.
Definition named_composite (s : schema) (t : option tref) : option str :=
  match t with Some (RNamed n) => if is_composite s n then Some n else None | _ => None end.
Definition r13_possible_spreads (s : schema) (d : document) : list viol :=
  flat_map (fun e => match e with
     | ESpread (Some p) n _ l =>
         match named_composite s (frag_type_of s (doc_defs d) (n_val n)) with
         | Some ft => if types_overlap s ft p then [] else [mk 13 l]
         | None => []
         end
     | EInline ity (Some p) _ _ l =>
         match named_composite s ity with
         | Some t => if types_overlap s t p then [] else [mk 13 l]
         | None => []
         end
     | _ => [] end) (doc_events s d).

(* NoFragmentCycles: _spreads[name] is reset by every definition of that
   name (last wins); a spread of the fragment in itself is reported at the
   spread and not recorded. *)
Fixpoint last_named (ds : list definition) (f : str) : option definition :=
  match ds with
  | [] => None
  | x :: ds' => match last_named ds' f with
                | Some y => Some y
                | None => match frag_name x with
                          | Some f' => if str_eqb f f' then Some x else None
                          | None => None
                          end
                end
  end.
Definition cyc_spreads (s : schema) (d : document) (f : str) : list str :=
  match last_named (doc_defs d) f with
  | Some x => dedup (filter (fun y => negb (str_eqb y f)) (def_spreads s x))
  | None => []
  end.
Definition self_spreads (s : schema) (d : document) : list viol :=
  flat_map (fun x => match frag_name x with
     | Some f => flat_map (fun e => match e with
                    | ESpread _ n _ l => if str_eqb (n_val n) f then [mk 14 l] else []
                    | _ => [] end) (def_events s x)
     | None => [] end) (doc_defs d).
Definition r14_no_fragment_cycles (s : schema) (d : document) : outcome (list viol) :=
  do cyc <- ocat (fun f =>
      do acc <- close (close_fuel d) (frag_names d) (cyc_spreads s d) (cyc_spreads s d f);
      Ok (if mem_str f acc then [mk 14 (doc_loc d)] else []))
    (dedup (frag_names d));
  Ok (self_spreads s d ++ cyc).

Definition r15_unique_variable_names (d : document) : list viol :=
  flat_map (fun x => map (mk 15) (dup_locs (map (fun vd => (vd_name vd, vd_loc vd)) (op_vardefs x))))
           (doc_defs d).

Definition defined_names (d : document) (k : str) : list str := map vd_name (op_defined d k).

Definition r16_no_undefined_variables (s : schema) (d : document) : outcome (list viol) :=
  ocat (fun k =>
     do fr <- op_closure s d k;
     Ok (flat_map (fun u => if mem_str (u_name u) (defined_names d k) then [] else [mk 16 (u_loc u)])
                  (flat_map (frag_usages s d) (dedup fr) ++ op_usages s d k)))
    (op_keys d).

Definition r17_no_unused_variables (s : schema) (d : document) : outcome (list viol) :=
  ocat (fun k =>
     do fr <- op_closure s d k;
     let used := map u_name (flat_map (frag_usages s d) (dedup fr) ++ op_usages s d k) in
     Ok (flat_map (fun vd => if mem_str (vd_name vd) used then [] else [mk 17 (vd_loc vd)])
                  (op_defined d k)))
    (op_keys d).

Definition r18_known_directives (s : schema) (d : document) : list viol :=
  flat_map (fun e => match e with
     | EDirective w _ dr =>
         match alookup (n_val (d_name dr)) (s_dirs s) with
         | None => [mk 18 (d_loc dr)]
         | Some dd => if mem_str w (sd_locs dd) then [] else [mk 18 (d_loc dr)]
         end
     | _ => [] end) (doc_events s d).

Definition dup_dirs (dirs : list directive) : list viol :=
  map (mk 19) (dup_locs (map (fun dr => (n_val (d_name dr), d_loc dr)) dirs)).
Definition r19_unique_directives (s : schema) (d : document) : list viol :=
  flat_map (fun x => match x with
     | DOperation _ _ _ dirs _ _ _ => dup_dirs dirs
     | DFragment _ _ _ dirs _ _ _ => dup_dirs dirs
     | _ => [] end) (doc_defs d)
  ++ flat_map (fun e => match e with
     | EField _ _ _ _ _ dirs _ _ => dup_dirs dirs
     | ESpread _ _ dirs _ => dup_dirs dirs
     | EInline _ _ _ dirs _ => dup_dirs dirs
     | _ => [] end) (doc_events s d).

Definition unknown_args (r : N) (defs : list sarg) (args : list argument) : list viol :=
  flat_map (fun a => match find_arg (n_val (a_name a)) defs with
                     | Some _ => []
                     | None => [mk r (a_loc a)]
                     end) args.
Definition r20_known_argument_names (s : schema) (d : document) : list viol :=
  flat_map (fun e => match e with
     | EField _ (Some f) _ _ args _ _ _ => unknown_args 20 (sf_args f) args
     | EDirective _ _ dr =>
         match alookup (n_val (d_name dr)) (s_dirs s) with
         | Some dd => unknown_args 20 (sd_args dd) (d_args dr)
         | None => []
         end
     | _ => [] end) (doc_events s d).

Definition dup_args (args : list argument) : list viol :=
  map (mk 21) (dup_locs (map (fun a => (n_val (a_name a), a_loc a)) args)).
Definition r21_unique_argument_names (s : schema) (d : document) : list viol :=
  flat_map (fun e => match e with
     | EField _ _ _ _ args _ _ _ => dup_args args
     | EDirective _ _ dr => dup_args (d_args dr)
     | _ => [] end) (doc_events s d).

Definition doc_typed_values (s : schema) (d : document) : list (option tref * bool * value) :=
  flat_map (fun x => typed_defaults s x ++ flat_map (typed_values_ev s) (def_events s x)) (doc_defs d).

Definition r22_values_of_correct_type (s : schema) (d : document) : list viol :=
  flat_map (fun p => check_value s (fst (fst p)) (snd p)) (doc_typed_values s d).

Definition missing_args (l : loc) (defs : list sarg) (args : list argument) : list viol :=
  flat_map (fun ad => if sarg_required ad && negb (mem_str (sa_name ad) (map (fun a => n_val (a_name a)) args))
                      then [mk 23 l] else []) defs.
Definition r23_provided_required_arguments (s : schema) (d : document) : list viol :=
  flat_map (fun e => match e with
     | EField _ (Some f) _ _ args _ _ l => missing_args l (sf_args f) args
     | EDirective _ _ dr =>
         match alookup (n_val (d_name dr)) (s_dirs s) with
         | Some dd => missing_args (d_loc dr) (sd_args dd) (d_args dr)
         | None => []
         end
     | _ => [] end) (doc_events s d).

(* _op_defined_variables[op][name] = node: the last definition wins *)
Fixpoint last_vardef (vds : list var_def) (x : str) : option var_def :=
  match vds with
  | [] => None
  | vd :: vds' => match last_vardef vds' x with
                  | Some r => Some r
                  | None => if str_eqb (vd_name vd) x then Some vd else None
                  end
  end.
Definition is_nonnull (t : tref) : bool := match t with RNonNull _ => true | _ => false end.
Definition bad_position (s : schema) (vd : var_def) (u : usage) : bool :=
  match u_type u, type_from_ast s (vd_type vd) with
  | Some it, Some vt =>
      if is_nonnull it && negb (is_nonnull vt) then
        let nn_default := match vd_default vd with
                          | Some (VNull _) => false | Some _ => true | None => false end in
        (negb nn_default && negb (u_default u)) || negb (is_subtype s vt (nullable it))
      else negb (is_subtype s vt it)
  | _, _ => false
  end.
Definition r24_variables_in_allowed_position (s : schema) (d : document) : outcome (list viol) :=
  ocat (fun k =>
     do fr <- op_closure s d k;
     Ok (flat_map (fun u => match last_vardef (op_defined d k) (u_name u) with
                            | Some vd => if bad_position s vd u then [mk 24 (u_loc u)] else []
                            | None => []
                            end)
                  (op_usages s d k ++ flat_map (frag_usages s d) fr)))
    (op_keys d).

Fixpoint value_dup_fields (v : value) {struct v} : list viol :=
  match v with
  | VList vs _ =>
      (fix go (xs : list value) : list viol :=
         match xs with [] => [] | x :: xs' => value_dup_fields x ++ go xs' end) vs
  | VObject fs _ =>
      map (mk 26) (dup_locs (map (fun f => (n_val (fst (fst f)), snd f)) fs))
      ++ (fix go (xs : list (name * value * loc)) : list viol :=
            match xs with [] => [] | (_, x, _) :: xs' => value_dup_fields x ++ go xs' end) fs
  | _ => []
  end.
Definition r26_unique_input_field_names (s : schema) (d : document) : list viol :=
  flat_map (fun p => value_dup_fields (snd p)) (doc_typed_values s d).
