(* The `shape` checker of C05: a decidable over-approximation-free reading of
   "the response data has exactly the shape determined by the selection sets
   and schema types", evaluated on the implementation's data:
   - one value per response key (no duplicate keys), every key is the
     response name of a field selected (directly, through inline fragments or
     through spread fragments) in one of the selection sets that apply;
   - every field selected unconditionally (no directive on it or on the
     fragments it is reached through, every type condition on the way always
     applies to the parent type) is present;
   - lists exactly where list types are declared, objects exactly where the
     field type is composite, leaf values of the declared scalar kind / enum.
   Nullability is NOT part of the check: the statement of C05 does not name
   it and the executor of py-gql does not propagate nulls out of non-null
   positions (it records an error and leaves null in place; properties
   C04/C10). A selection set applies "unconditionally" to an object only if
   the field it hangs from is itself selected unconditionally. *)
From PyGql Require Export Valid.ValidOverlap Base.Pv.

Definition scand := (str * bool * option sfield * list selection)%type.

(* a fragment with this type condition applies to every object the selection
   set is evaluated for *)
Definition applies_always (s : schema) (parent tc : option str) : bool :=
  match parent, tc with
  | Some p, Some t => str_eqb p t || (is_object s p && is_possible_type s t p)
  | _, _ => false
  end.

Fixpoint collect_static (fuel : nat) (s : schema) (frs : list (str * (ty * list selection)))
         (parent : option str) (direct : bool) (sels : list selection) : list scand :=
  match fuel with
  | O => []
  | S f =>
      flat_map (fun x =>
        match x with
        | SField alias n _ dirs _ sub _ =>
            [(response_name alias n,
              direct && match dirs with [] => true | _ => false end,
              field_def_of s parent (n_val n), sub)]
        | SSpread n dirs _ =>
            match alookup (n_val n) frs with
            | Some (tc, fsels) =>
                collect_static f s frs (ov_type_name s tc)
                  (direct && match dirs with [] => true | _ => false end
                          && applies_always s parent (ov_type_name s tc)) fsels
            | None => []
            end
        | SInline tc dirs _ sub _ =>
            collect_static f s frs
              (match tc with Some t => ov_type_name s t | None => parent end)
              (direct && match tc with None => true | Some t => applies_always s parent (ov_type_name s t) end
                      && match dirs with [] => true | _ => false end) sub
        end) sels
  end.

Definition leaf_ok (s : schema) (n : str) (v : pv) : bool :=
  match lookup_type s n, v with
  | Some (TScalar SkInt), PInt _ => true
  | Some (TScalar SkFloat), PFloat _ => true
  | Some (TScalar SkFloat), PInt _ => true
  | Some (TScalar SkString), PStr _ => true
  | Some (TScalar SkBoolean), PBool _ => true
  | Some (TScalar SkID), PStr _ => true
  | Some (TScalar SkCustom), PDict _ => false
  | Some (TScalar SkCustom), PList _ => false
  | Some (TScalar SkCustom), _ => true
  | Some (TEnum vals), PStr x => mem_str x vals
  | _, _ => false
  end.

Fixpoint nodup_keys (seen : list str) (kvs : list (str * pv)) : bool :=
  match kvs with
  | [] => true
  | (k, _) :: kvs' => negb (mem_str k seen) && nodup_keys (k :: seen) kvs'
  end.

(* [sets]: the selection sets that apply to the object, each with the named
   type it is evaluated against *)
Fixpoint shape_value (fuel : nat) (s : schema) (frs : list (str * (ty * list selection)))
         (t : tref) (sets : list (option str * list selection * bool)) (v : pv) : bool :=
  match fuel with
  | O => false
  | S f =>
      match t with
      | RNonNull t' => shape_value f s frs t' sets v
      | RList t' => match v with
                    | PNone => true
                    | PList vs => forallb (shape_value f s frs t' sets) vs
                    | _ => false
                    end
      | RNamed n =>
          match v with
          | PNone => true
          | _ =>
              if is_leaf s n then leaf_ok s n v
              else match v with
                   | PDict kvs =>
                       let cands := flat_map (fun ps => collect_static f s frs (fst (fst ps)) (snd ps) (snd (fst ps))) sets in
                       nodup_keys [] kvs
                       && forallb (fun c => let '(k, must, _, _) := c in
                                            negb must || mem_str k (map fst kvs)) cands
                       && forallb (fun kv =>
                            let mine := filter (fun c => let '(k, _, _, _) := c in str_eqb k (fst kv)) cands in
                            (* which of the selected fields applies depends on the runtime
                               type: the value must fit the declared type of one of them *)
                            existsb (fun ft =>
                                shape_value f s frs ft
                                  (flat_map (fun c => let '(_, must, fd, sub) := c in
                                                      match fd with
                                                      | Some d => [(Some (unwrap (sf_type d)), sub, must)]
                                                      | None => []
                                                      end) mine) (snd kv))
                              (flat_map (fun c => let '(_, _, fd, _) := c in
                                                  match fd with Some d => [sf_type d] | None => [] end) mine)) kvs
                   | _ => false
                   end
          end
      end
  end.

Definition shape_ok (fuel : nat) (s : schema) (d : document) (opidx : nat) (has_errors : bool) (data : pv) : bool :=
  match nth_error (doc_defs d) opidx with
  | Some (DOperation k _ _ _ _ sels _) =>
      match data with
      | PNone => has_errors
      | _ => match root_type s k with
             | Some r => shape_value fuel s (frag_table (doc_defs d)) (RNamed r) [(Some r, sels, true)] data
             | None => false
             end
      end
  | _ => false
  end.
