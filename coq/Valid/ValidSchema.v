(* By-name schema model used by the validation rules (C05/C06).
   Stands for the parts of py_gql/schema/schema.py and schema/types.py that
   the validation code reads: type lookup, kinds, fields with arguments,
   possible types, is_subtype, types_overlap, directives with locations.
   Identity of Python type objects is not observable by validation, named
   types are compared by name (names are unique keys of Schema.types). *)
From PyGql Require Export Lang.Ast.
From Coq Require Export ZArith.

Inductive tref :=
| RNamed (n : str)
| RList (t : tref)
| RNonNull (t : tref).

(* InputValue (Argument / InputField): name, type, has_default_value *)
Record sarg := SArg { sa_name : str; sa_type : tref; sa_default : bool }.
(* Field: name, arguments, type *)
Record sfield := SField_ { sf_name : str; sf_args : list sarg; sf_type : tref }.

Inductive scalar_kind := SkInt | SkFloat | SkString | SkBoolean | SkID | SkCustom.

Inductive tdef :=
| TScalar (k : scalar_kind)
| TObject (ifaces : list str) (fields : list sfield)
| TInterface (fields : list sfield)
| TUnion (members : list str)
| TEnum (vals : list str)
| TInput (fields : list sarg).

Record sdir := SDir { sd_locs : list str; sd_args : list sarg }.

Record schema := Schema {
  s_types : list (str * tdef);
  s_query : option str;
  s_mutation : option str;
  s_subscription : option str;
  s_dirs : list (str * sdir) }.

Fixpoint tref_eqb (a b : tref) : bool :=
  match a, b with
  | RNamed x, RNamed y => str_eqb x y
  | RList x, RList y => tref_eqb x y
  | RNonNull x, RNonNull y => tref_eqb x y
  | _, _ => false
  end.

Fixpoint unwrap (t : tref) : str :=
  match t with RNamed n => n | RList t' => unwrap t' | RNonNull t' => unwrap t' end.

Definition nullable (t : tref) : tref :=
  match t with RNonNull t' => t' | _ => t end.

Definition lookup_type (s : schema) (n : str) : option tdef := alookup n (s_types s).

Definition is_composite (s : schema) (n : str) : bool :=
  match lookup_type s n with
  | Some (TObject _ _) | Some (TInterface _) | Some (TUnion _) => true
  | _ => false
  end.
Definition is_object (s : schema) (n : str) : bool :=
  match lookup_type s n with Some (TObject _ _) => true | _ => false end.
Definition is_abstract (s : schema) (n : str) : bool :=
  match lookup_type s n with Some (TInterface _) | Some (TUnion _) => true | _ => false end.
Definition is_leaf (s : schema) (n : str) : bool :=
  match lookup_type s n with Some (TScalar _) | Some (TEnum _) => true | _ => false end.
Definition is_input_named (s : schema) (n : str) : bool :=
  match lookup_type s n with
  | Some (TScalar _) | Some (TEnum _) | Some (TInput _) => true
  | _ => false
  end.
Definition is_output_named (s : schema) (n : str) : bool :=
  match lookup_type s n with
  | Some (TScalar _) | Some (TEnum _) | Some (TObject _ _) | Some (TInterface _) | Some (TUnion _) => true
  | _ => false
  end.
Definition is_input_type (s : schema) (t : tref) : bool := is_input_named s (unwrap t).
Definition is_output_type (s : schema) (t : tref) : bool := is_output_named s (unwrap t).

(* Schema.get_type_from_literal; None stands for UnknownType *)
Fixpoint type_from_ast (s : schema) (t : ty) : option tref :=
  match t with
  | TNamed n _ => match lookup_type s (n_val n) with Some _ => Some (RNamed (n_val n)) | None => None end
  | TList t' _ => match type_from_ast s t' with Some r => Some (RList r) | None => None end
  | TNonNull t' _ => match type_from_ast s t' with Some r => Some (RNonNull r) | None => None end
  end.

Definition find_field (n : str) (fs : list sfield) : option sfield :=
  find (fun f => str_eqb (sf_name f) n) fs.
Definition find_arg (n : str) (l : list sarg) : option sarg :=
  find (fun a => str_eqb (sa_name a) n) l.

Definition type_fields (s : schema) (n : str) : option (list sfield) :=
  match lookup_type s n with
  | Some (TObject _ fs) => Some fs
  | Some (TInterface fs) => Some fs
  | _ => None
  end.

(* Schema.get_possible_types as a list of object type names *)
Definition implementers (s : schema) (iface : str) : list str :=
  flat_map (fun p => match snd p with
                     | TObject ifs _ => if mem_str iface ifs then [fst p] else []
                     | _ => []
                     end) (s_types s).
Definition possible_types (s : schema) (n : str) : list str :=
  match lookup_type s n with
  | Some (TUnion ms) => ms
  | Some (TInterface _) => implementers s n
  | _ => []
  end.
Definition is_possible_type (s : schema) (abstract_n n : str) : bool :=
  is_object s n && mem_str n (possible_types s abstract_n).

(* Schema.types_overlap on named composite types *)
Definition types_overlap (s : schema) (a b : str) : bool :=
  if str_eqb a b then true
  else if is_abstract s a && is_abstract s b
       then existsb (fun t => mem_str t (possible_types s b)) (possible_types s a)
       else (is_abstract s a && is_possible_type s a b) || (is_abstract s b && is_possible_type s b a).

(* Schema.is_subtype *)
Fixpoint is_subtype (s : schema) (t sup : tref) : bool :=
  if tref_eqb t sup then true else
  match t, sup with
  | RList t', RList sup' => is_subtype s t' sup'
  | RNonNull t', RNonNull sup' => is_subtype s t' sup'
  | RNonNull t', _ => is_subtype s t' sup
  | RList _, _ => false
  | RNamed n, RNamed m => is_abstract s m && is_possible_type s m n
  | RNamed _, _ => false
  end.

(* ---- introspection meta fields (validation/visitors.py _get_field_def) ---- *)
Local Open Scope string_scope.
Definition S_ (x : string) : str := str_of_string x.
Definition meta_typename : sfield := SField_ (S_ "__typename") [] (RNonNull (RNamed (S_ "String"))).
Definition meta_schema : sfield := SField_ (S_ "__schema") [] (RNonNull (RNamed (S_ "__Schema"))).
Definition meta_type : sfield :=
  SField_ (S_ "__type") [SArg (S_ "name") (RNonNull (RNamed (S_ "String"))) false] (RNamed (S_ "__Type")).

Definition opt_str_eqb (a : option str) (b : str) : bool :=
  match a with Some x => str_eqb x b | None => false end.

Definition get_field_def (s : schema) (parent : str) (fname : str) : option sfield :=
  if opt_str_eqb (s_query s) parent && str_eqb fname (S_ "__schema") then Some meta_schema
  else if opt_str_eqb (s_query s) parent && str_eqb fname (S_ "__type") then Some meta_type
  else if is_composite s parent && str_eqb fname (S_ "__typename") then Some meta_typename
  else match type_fields s parent with
       | Some fs => find_field fname fs
       | None => None
       end.

Definition root_type (s : schema) (k : op_kind) : option str :=
  match k with OpQuery => s_query s | OpMutation => s_mutation s | OpSubscription => s_subscription s end.

(* InputValue.required *)
Definition sarg_required (a : sarg) : bool :=
  match sa_type a with RNonNull _ => negb (sa_default a) | _ => false end.
