(* C13, "reporting all violations together": every violated rule instance,
   and which reported error may stand in for one that the code skips.

   [validate_all] checks every rule instance of every member: it is the walk of
   SchemaValidator with every [continue] removed (a duplicate member is still
   checked, a field whose type breaks covariance still has its arguments
   compared, a type with an invalid name is still looked into).

   [masked_by m e] lists, read off the [continue] statements of
   schema/validation.py, which reported label [m] may hide label [e] of the
   same member. *)
From PyGql Require Export Schema.SchemaFull Schema.SchemaValidateModel.

Inductive masked_by : vlabel -> vlabel -> Prop :=
(* __call__: 'Invalid type name' -> continue: nothing else about that type *)
| mask_type_name l : masked_by LInvalidTypeName l
(* validate_fields / validate_input_fields: 'Duplicate field' -> continue *)
| mask_dup_field_out : masked_by LDuplicateField LFieldNotOutput
| mask_dup_field_arg_name : masked_by LDuplicateField LInvalidName
| mask_dup_field_dup_arg : masked_by LDuplicateField LDuplicateArg
| mask_dup_field_arg_in : masked_by LDuplicateField LArgNotInput
| mask_dup_field_res1 : masked_by LDuplicateField LResMissing
| mask_dup_field_res2 : masked_by LDuplicateField LResPosOnly
| mask_dup_field_res3 : masked_by LDuplicateField LResNeedsDefault
| mask_dup_field_res4 : masked_by LDuplicateField LResPositional
| mask_dup_field_res5 : masked_by LDuplicateField LResExtraRequired
| mask_dup_field_input : masked_by LDuplicateField LInputFieldNotInput
(* argument loops: 'Duplicate argument' -> continue *)
| mask_dup_arg : masked_by LDuplicateArg LArgNotInput
| mask_dup_dir_arg : masked_by LDirDuplicateArg LDirArgNotInput
(* validate_interfaces: 'only implement once' -> continue *)
| mask_twice_missing : masked_by LInterfaceTwice LIfaceFieldMissing
| mask_twice_type : masked_by LInterfaceTwice LIfaceFieldType
| mask_twice_arg1 : masked_by LInterfaceTwice LIfaceArgMissing
| mask_twice_arg2 : masked_by LInterfaceTwice LIfaceArgType
| mask_twice_arg3 : masked_by LInterfaceTwice LIfaceExtraRequiredArg
(* validate_implementation: 'expects type' -> continue *)
| mask_ftype_arg1 : masked_by LIfaceFieldType LIfaceArgMissing
| mask_ftype_arg2 : masked_by LIfaceFieldType LIfaceArgType
| mask_ftype_arg3 : masked_by LIfaceFieldType LIfaceExtraRequiredArg
(* validate_union_members: 'expects object types' -> continue *)
| mask_union : masked_by LUnionMemberNotObject LUnionMemberTwice.

(* the masking error names the same member: its subject is a prefix of the
   masked error's subject ('Invalid name "x".' only carries the bare name) *)
Definition same_member (m e : verr) : Prop :=
  (exists rest, v_subject e = v_subject m ++ rest) \/ v_label e = LInvalidName.

Definition masks (m e : verr) : Prop := masked_by (v_label m) (v_label e) /\ same_member m e.

(* every element of [all] is reported, or hidden by a reported error that may mask it *)
Definition covers (reported all : list verr) : Prop :=
  forall e, In e all -> In e reported \/ exists m, In m reported /\ masks m e.

(* ------------------------------------------------------------ the walk without [continue] *)
Fixpoint loop_all {A} (name : A -> str) (pre dup body : A -> list verr)
         (seen : list str) (l : list A) : list verr :=
  match l with
  | [] => []
  | x :: l' =>
      pre x ++ (if mem_str (name x) seen then dup x else []) ++ body x
      ++ loop_all name pre dup body (if mem_str (name x) seen then seen else name x :: seen) l'
  end.

Definition validate_args_all (ts : list type_def) (path : list str) (args : list arg_def) : list verr :=
  loop_all a_name
    (fun a => check_valid_name (a_name a))
    (fun a => [err LDuplicateArg (path ++ [a_name a])])
    (fun a => if is_input_ty ts (a_type a) then [] else [err LArgNotInput (path ++ [a_name a])])
    [] args.

Definition validate_fields_all (s : schema) (tname : str) (tdr : option rsig)
           (fields : list field_def) : list verr :=
  let ts := s_types s in
  (match fields with [] => [err LNoFields [tname]] | _ => [] end)
  ++ loop_all f_name
       (fun f => check_valid_name (f_name f))
       (fun f => [err LDuplicateField [tname; f_name f]])
       (fun f =>
          (if is_output_ty ts (f_type f) then [] else [err LFieldNotOutput [tname; f_name f]])
          ++ validate_args_all ts [tname; f_name f] (f_args f)
          ++ match or_else (f_resolver f) (or_else tdr (s_default_resolver s)) with
             | Some sg => resolver_errors [tname; f_name f] sg (f_args f)
             | None => []
             end)
       [] fields.

Definition validate_implementation_all (ts : list type_def) (tname : str) (ofields : list field_def)
           (iname : str) (ifields : list field_def) : list verr :=
  flat_map (fun f =>
    match find_last (fun g => str_eqb (f_name f) (f_name g)) ofields with
    | None => [err LIfaceFieldMissing [tname; iname; f_name f]]
    | Some g =>
        (if negb (is_subtype_model ts (f_type g) (f_type f))
         then [err LIfaceFieldType [tname; iname; f_name f]] else [])
        ++ flat_map (fun a =>
             match find_last (fun b => str_eqb (a_name a) (a_name b)) (f_args g) with
             | None => [err LIfaceArgMissing [tname; iname; f_name f; a_name a]]
             | Some b => if ty_eqb (a_type a) (a_type b) then []
                         else [err LIfaceArgType [tname; iname; f_name f; a_name a]]
             end) (f_args f)
        ++ flat_map (fun b =>
             match find_last (fun a => str_eqb (a_name b) (a_name a)) (f_args f) with
             | None => if is_non_null (a_type b)
                       then [err LIfaceExtraRequiredArg [tname; iname; f_name f; a_name b]] else []
             | Some _ => []
             end) (f_args g)
    end) ifields.

Fixpoint ifaces_all (ts : list type_def) (tname : str) (ofields : list field_def)
         (seen : list str) (l : list str) : list verr :=
  match l with
  | [] => []
  | i :: l' =>
      match find_type ts i with
      | Some it =>
          match t_body it with
          | BInterface ifields =>
              (if mem_str i seen then [err LInterfaceTwice [tname; i]] else [])
              ++ validate_implementation_all ts tname ofields i ifields
              ++ ifaces_all ts tname ofields (if mem_str i seen then seen else i :: seen) l'
          | _ => err LNotInterface [tname; i] :: ifaces_all ts tname ofields seen l'
          end
      | None => err LNotInterface [tname; i] :: ifaces_all ts tname ofields seen l'
      end
  end.

(* [seen]: every earlier member *)
Fixpoint union_all (ts : list type_def) (tname : str) (seen : list str) (l : list str) : list verr :=
  match l with
  | [] => []
  | m :: l' =>
      (if negb (is_object_name ts m) then [err LUnionMemberNotObject [tname; m]] else [])
      ++ (if mem_str m seen then [err LUnionMemberTwice [tname; m]] else [])
      ++ union_all ts tname (m :: seen) l'
  end.

Definition validate_input_fields_all (ts : list type_def) (tname : str) (fields : list input_field) : list verr :=
  (match fields with [] => [err LNoFields [tname]] | _ => [] end)
  ++ loop_all i_name
       (fun f => check_valid_name (i_name f))
       (fun f => [err LDuplicateField [tname; i_name f]])
       (fun f => if is_input_ty ts (i_type f) then [] else [err LInputFieldNotInput [tname; i_name f]])
       [] fields.

Definition validate_directives_all (ts : list type_def) (ds : list directive_def) : list verr :=
  flat_map (fun d =>
    check_valid_name (d_name d)
    ++ loop_all a_name
         (fun a => check_valid_name (a_name a))
         (fun a => [err LDirDuplicateArg [d_name d; a_name a]])
         (fun a => if is_input_ty ts (a_type a) then [] else [err LDirArgNotInput [d_name d; a_name a]])
         [] (d_args d)) ds.

Definition validate_type_all (s : schema) (t : type_def) : list verr :=
  let ts := s_types s in
  (if negb (t_intro t || t_spec t || valid_name (t_name t))
   then [err LInvalidTypeName [t_name t]] else [])
  ++ match t_body t with
     | BObject ifaces fields dr =>
         validate_fields_all s (t_name t) dr fields
         ++ ifaces_all ts (t_name t) fields [] ifaces
     | BInterface fields => validate_fields_all s (t_name t) None fields
     | BUnion ms =>
         (match ms with [] => [err LUnionEmpty [t_name t]] | _ => [] end) ++ union_all ts (t_name t) [] ms
     | BEnum vs => validate_enum_values (t_name t) vs
     | BInput fs => validate_input_fields_all ts (t_name t) fs
     | BScalar => []
     end.

(* every violated rule instance of the schema *)
Definition validate_all (s : schema) : list verr :=
  validate_roots s
  ++ flat_map (validate_type_all s) (s_types s)
  ++ validate_directives_all (s_types s) (s_dirs s).
