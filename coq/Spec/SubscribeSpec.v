(* C17 -- what the response stream of a subscription must be. *)
From PyGql Require Import Base.Str Exec.SubscribeModel.

Section SubscribeSpec.
  Variables (cache event data err : Type).
  Variable run : cache -> event -> cache * data * list err.
  Variable c_fresh : cache.          (* the empty caches of a newly built executor *)

  (* executing the operation's selection with [e] as root value, alone, on a
     fresh executor with an empty error list: its data and exactly the errors
     raised while processing [e] *)
  Definition spec_result (e : event) : data * list err :=
    let '(_, d, es) := run c_fresh e in (d, es).

  (* one result per source event, in source order *)
  Definition spec_stream (events : list event) : list (data * list err) :=
    map spec_result events.

  (* a sequential consumer requests item k+1 only after result k was produced,
     and the stream ends when (and only when) the source has ended *)
  Definition spec_trace (n : nat) : list trace_ev :=
    flat_map (fun k => [Pulled k; Emitted k]) (seq 0 n) ++ [Ended].

  (* what a consumer that keeps reading sees for one event when executions
     may abort ([data] = [option tree]): a result, or the exception raised by
     __anext__ -- the errors registered before the abort are not observable *)
  Definition observe {tree : Type} (r : option tree * list err) : option (tree * list err) :=
    match fst r with Some d => Some (d, snd r) | None => None end.

  (* the documented exception for each refusal condition *)
  Definition documented_class (r : refusal) : exn_class :=
    match r with
    | RefFieldCount => ExecutionErrorC            (* several (or no) root fields *)
    | RefNoResolver => RuntimeErrorC              (* no subscription resolver *)
    | RefNotSubscription => RuntimeErrorC         (* query / mutation operation *)
    | RefRuntime => RuntimeErrorC                 (* runtime without stream support *)
    | RefNoFieldDef => RuntimeErrorC
    | RefInvalidOperation => ExecutionErrorC      (* InvalidOperationError <: ExecutionError *)
    | RefVariables => VariablesCoercionErrorC
    | RefDirectiveArguments => CoercionErrorC     (* CoercionError of collect_fields: not among the
                                                     documented ones, but raised before the resolver is called *)
    end.
End SubscribeSpec.
