(* "No type-system definition in the document". *)
From PyGql Require Export Lang.Ast.

Definition exec_def (d : definition) : Prop :=
  match d with DOperation _ _ _ _ _ _ _ | DFragment _ _ _ _ _ _ _ => True | _ => False end.

Definition exec_only (d : document) : Prop := Forall exec_def (doc_defs d).
