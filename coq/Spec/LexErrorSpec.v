(* The first lexical error of a text, declaratively: which class of syntax
   error is reported, and at which offset.  The text is cut into the tokens
   of Spec/LexicalSpec.v as far as that is possible; what follows the last
   token (and the ignored characters after it) is a lexeme that cannot be
   completed, and the table below says how each such lexeme is reported.
   Offsets are those of the library (e.g. an invalid character between tokens
   is reported one past its index, inside a string at its index).  Nothing here
   refers to the lexer model. *)
From PyGql Require Export Spec.LexicalSpec.
Local Open Scope N_scope.

(* classes raised while cutting the text into tokens / by the grammar *)
Definition lexical (k : nat) : Prop :=
  k = E_InvalidCharacter \/ k = E_UnexpectedCharacter \/ k = E_NonTerminatedString \/ k = E_InvalidEscapeSequence.
Definition syntactic (k : nat) : Prop := k = E_UnexpectedToken \/ k = E_UnexpectedEOF.

Definition HexChar (c : char) : Prop := exists v, HexDigit c v.
Definition EscapeLetter (e : char) : Prop := exists d, EscapedCharacter e d.

(* ---- "..." ---- the text starts with a dot *)
Inductive bad_dots : str -> nat -> nat -> Prop :=
| BD_eof1 : bad_dots [46] E_UnexpectedEOF 1
| BD_char1 c r : c <> 46 -> bad_dots (46 :: c :: r) E_UnexpectedCharacter 2
| BD_eof2 : bad_dots [46; 46] E_UnexpectedEOF 2
| BD_char2 c r : c <> 46 -> bad_dots (46 :: 46 :: c :: r) E_UnexpectedCharacter 3.

(* ---- quoted strings ---- the text after the opening quote; offsets relative to it.
   What stops a string: the end of the text or of the line, a character that is
   not a SourceCharacter, an escape that is cut off or not one of the grammar's. *)
Inductive bad_string_tail : str -> nat -> nat -> Prop :=
| BST_eof : bad_string_tail [] E_NonTerminatedString 0
| BST_newline c r : c = 10 \/ c = 13 -> bad_string_tail (c :: r) E_NonTerminatedString 0
| BST_invalid c r : ~ SourceCharacter c -> bad_string_tail (c :: r) E_InvalidCharacter 0
| BST_esc_eof : bad_string_tail [92] E_NonTerminatedString 2
| BST_esc_bad e r : ~ EscapeLetter e -> e <> 117 -> bad_string_tail (92 :: e :: r) E_InvalidEscapeSequence 1
| BST_uni_eof hs : Forall HexChar hs -> (length hs < 4)%nat ->
    bad_string_tail (92 :: 117 :: hs) E_NonTerminatedString (3 + length hs)
| BST_uni_bad hs x r : Forall HexChar hs -> (length hs < 4)%nat -> ~ HexChar x ->
    bad_string_tail (92 :: 117 :: hs ++ x :: r) E_InvalidEscapeSequence 1.

Inductive bad_string : str -> nat -> nat -> Prop :=
| BS_tail bad k off : bad_string_tail bad k off -> bad_string bad k off
| BS_char c r k off : PlainStringCharacter c -> bad_string r k off -> bad_string (c :: r) k (S off)
| BS_esc e d r k off : EscapedCharacter e d -> bad_string r k off -> bad_string (92 :: e :: r) k (2 + off)
| BS_uni h1 h2 h3 h4 r k off : HexChar h1 -> HexChar h2 -> HexChar h3 -> HexChar h4 ->
    bad_string r k off -> bad_string (92 :: 117 :: h1 :: h2 :: h3 :: h4 :: r) k (6 + off).

(* ---- block strings ---- the text after the opening delimiter *)
Inductive bad_block : str -> nat -> nat -> Prop :=
| BB_eof : bad_block [] E_NonTerminatedString 0
| BB_invalid c r : ~ SourceCharacter c -> bad_block (c :: r) E_InvalidCharacter 0
| BB_esc rest k off : bad_block rest k off -> bad_block (92 :: 34 :: 34 :: 34 :: rest) k (4 + off)
| BB_char c rest k off :
    SourceCharacter c -> ~ triple_quote (c :: rest) -> ~ (c = 92 /\ triple_quote rest) ->
    bad_block rest k off -> bad_block (c :: rest) k (S off).

(* ---- numbers ---- the text starts with "-" or a digit.  Digit+ is missing: *)
Inductive no_digits : str -> nat -> Prop :=
| ND_eof : no_digits [] E_UnexpectedEOF
| ND_char c r : ~ Digit c -> no_digits (c :: r) E_UnexpectedCharacter.

Definition exp_indicator (e : char) : Prop := e = 101 \/ e = 69.
Definition sign_head (r : str) : Prop := match r with c :: _ => c = 43 \/ c = 45 | [] => False end.

Inductive Mantissa : str -> Prop :=
| M_int ip : IntegerPart ip -> Mantissa ip
| M_frac ip fp : IntegerPart ip -> FractionalPart fp -> Mantissa (ip ++ fp).

Inductive bad_number : str -> nat -> nat -> Prop :=
| BN_int r k : no_digits r k -> bad_number (45 :: r) k 1                    (* "-" and no digit *)
| BN_zero sg d r : sg = [] \/ sg = [45] -> Digit d ->                       (* 0 followed by a digit *)
    bad_number (sg ++ 48 :: d :: r) E_UnexpectedCharacter (length sg + 1)
| BN_frac ip r k : IntegerPart ip -> no_digits r k ->                       (* "." and no digit *)
    bad_number (ip ++ 46 :: r) k (length ip + 1)
| BN_exp m e sg r k : Mantissa m -> exp_indicator e ->                      (* e / E, a sign or not, no digit *)
    sg = [] \/ sg = [43] \/ sg = [45] -> (sg = [] -> ~ sign_head r) -> no_digits r k ->
    bad_number (m ++ e :: sg ++ r) k (length m + 1 + length sg)
| BN_follow_mantissa m c r : Mantissa m -> NameStart c -> ~ exp_indicator c ->   (* a letter or _ right after *)
    bad_number (m ++ c :: r) E_UnexpectedCharacter (length m)
| BN_follow_exp m ep c r : Mantissa m -> ExponentPart ep -> NameStart c ->
    bad_number (m ++ ep ++ c :: r) E_UnexpectedCharacter (length m + length ep).

(* ---- any lexeme ---- the text does not start with an ignored character or "#" *)
Definition lexeme_start (r : str) : Prop :=
  match r with c :: _ => ~ IgnoredChar c /\ c <> 35 | [] => True end.

Definition starts_no_token (c : char) : Prop :=
  (forall k, ~ Punctuator c k) /\ c <> 46 /\ c <> 34 /\ c <> 45 /\ ~ Digit c /\ ~ NameStart c.

Inductive bad_lexeme : str -> nat -> nat -> Prop :=
| BL_invalid c r : ~ SourceCharacter c -> bad_lexeme (c :: r) E_InvalidCharacter 1
| BL_dots rest k off : bad_dots rest k off -> bad_lexeme rest k off
| BL_block rest k off : bad_block rest k off -> bad_lexeme (34 :: 34 :: 34 :: rest) k (3 + off)
| BL_string rest k off : ~ triple_quote (34 :: rest) -> bad_string rest k off -> bad_lexeme (34 :: rest) k (1 + off)
| BL_number c r k off : c = 45 \/ Digit c -> bad_number (c :: r) k off -> bad_lexeme (c :: r) k off
| BL_other c r : SourceCharacter c -> starts_no_token c -> bad_lexeme (c :: r) E_UnexpectedCharacter 0.

(* tokens as far as possible, then ignored characters, then the lexeme that fails *)
Inductive lex_error_from : str -> nat -> nat -> nat -> Prop :=
| LEF_here ign rest pos k off :
    Ignored ign rest -> lexeme_start rest -> bad_lexeme rest k off ->
    lex_error_from (ign ++ rest) pos k (pos + length ign + off)%nat
| LEF_next ign lexeme rest kd v pos k p :
    Ignored ign (lexeme ++ rest) -> Token follow_impl lexeme rest kd v ->
    lex_error_from rest (pos + length ign + length lexeme)%nat k p ->
    lex_error_from (ign ++ lexeme ++ rest) pos k p.

Definition lex_error (s : str) (k p : nat) : Prop := lex_error_from s 0%nat k p.
