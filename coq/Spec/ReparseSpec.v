(* Vocabulary for "the spanned text parses back to an equal node": the text a
   node spans, and the node with every span moved to start at offset 0. *)
From PyGql Require Export Lang.Ast Lang.Token.

Definition substring (s : str) (a b : nat) : str := firstn (b - a) (skipn a s).

Definition shift_loc (p : nat) (l : loc) : loc :=
  match l with Some (a, b) => Some (a - p, b - p) | None => None end.

Definition shift_name (p : nat) (n : name) : name := Name (n_val n) (shift_loc p (n_loc n)).

Fixpoint shift_ty (p : nat) (t : ty) : ty :=
  match t with
  | TNamed n l => TNamed (shift_name p n) (shift_loc p l)
  | TList t l => TList (shift_ty p t) (shift_loc p l)
  | TNonNull t l => TNonNull (shift_ty p t) (shift_loc p l)
  end.

Fixpoint shift_value (p : nat) (v : value) : value :=
  match v with
  | VVar n l => VVar (shift_name p n) (shift_loc p l)
  | VInt s l => VInt s (shift_loc p l)
  | VFloat s l => VFloat s (shift_loc p l)
  | VString s b l => VString s b (shift_loc p l)
  | VBool b l => VBool b (shift_loc p l)
  | VNull l => VNull (shift_loc p l)
  | VEnum s l => VEnum s (shift_loc p l)
  | VList vs l => VList (map (shift_value p) vs) (shift_loc p l)
  | VObject fs l =>
      VObject (map (fun f => (shift_name p (fst (fst f)), shift_value p (snd (fst f)),
                              shift_loc p (snd f))) fs)
              (shift_loc p l)
  end.

Definition shift_tok (p : nat) (t : ptok) : ptok :=
  PTok (tk t) (tval t) (tstart t - p) (tend t - p).

(* span of a non-empty token segment *)
Definition seg_start (seg : list ptok) : nat := match seg with t :: _ => tstart t | [] => 0 end.
Definition seg_end (seg : list ptok) : nat := match seg with t :: r => tend (last r t) | [] => 0 end.

(* the same for the nodes of executable definitions *)
Definition shift_arg (p : nat) (a : argument) : argument :=
  Arg (shift_name p (a_name a)) (shift_value p (a_val a)) (shift_loc p (a_loc a)).
Definition shift_dir (p : nat) (d : directive) : directive :=
  Dir (shift_name p (d_name d)) (map (shift_arg p) (d_args d)) (shift_loc p (d_loc d)).

Fixpoint shift_sel (p : nat) (s : selection) : selection :=
  match s with
  | SField al n args dirs sl sub l =>
      SField (option_map (shift_name p) al) (shift_name p n) (map (shift_arg p) args)
             (map (shift_dir p) dirs) (option_map (shift_loc p) sl) (map (shift_sel p) sub) (shift_loc p l)
  | SSpread n dirs l => SSpread (shift_name p n) (map (shift_dir p) dirs) (shift_loc p l)
  | SInline tc dirs ssl sub l =>
      SInline (option_map (shift_ty p) tc) (map (shift_dir p) dirs) (shift_loc p ssl)
              (map (shift_sel p) sub) (shift_loc p l)
  end.

Definition shift_var_def (p : nat) (v : var_def) : var_def :=
  VarDef (shift_name p (vd_var v)) (shift_loc p (vd_var_loc v)) (shift_ty p (vd_type v))
         (option_map (shift_value p) (vd_default v)) (map (shift_dir p) (vd_dirs v)) (shift_loc p (vd_loc v)).

(* operations and fragments (other definitions are left alone) *)
Definition shift_exec_def (p : nat) (d : definition) : definition :=
  match d with
  | DOperation k n vds dirs ssl sels l =>
      DOperation k (option_map (shift_name p) n) (map (shift_var_def p) vds) (map (shift_dir p) dirs)
                 (shift_loc p ssl) (map (shift_sel p) sels) (shift_loc p l)
  | DFragment n vds tc dirs ssl sels l =>
      DFragment (shift_name p n) (map (shift_var_def p) vds) (shift_ty p tc) (map (shift_dir p) dirs)
                (shift_loc p ssl) (map (shift_sel p) sels) (shift_loc p l)
  | _ => d
  end.
