(* Declarative forms of the local validation rules (June 2018, section 5),
   stated over the nodes of the document met by static descent ([reaches], the
   named parent type comes with the node) -- no traversal order, no stacks. *)
From PyGql Require Export Spec.ValidSpec.

Definition node_dirs (z : selection) : list directive :=
  match z with
  | SField _ _ _ dirs _ _ _ => dirs
  | SSpread _ dirs _ => dirs
  | SInline _ dirs _ _ _ => dirs
  end.
Definition node_location (z : selection) : str :=
  match z with
  | SField _ _ _ _ _ _ _ => S_ "FIELD"
  | SSpread _ _ _ => S_ "FRAGMENT_SPREAD"
  | SInline _ _ _ _ _ => S_ "INLINE_FRAGMENT"
  end.
Definition def_location (df : definition) : option str :=
  match df with
  | DOperation OpQuery _ _ _ _ _ _ => Some (S_ "QUERY")
  | DOperation OpMutation _ _ _ _ _ _ => Some (S_ "MUTATION")
  | DOperation OpSubscription _ _ _ _ _ _ => Some (S_ "SUBSCRIPTION")
  | DFragment _ _ _ _ _ _ _ => Some (S_ "FRAGMENT_DEFINITION")
  | _ => None
  end.

(* a directive of the document together with the name of its location *)
Definition directive_at (s : schema) (d : document) (w : str) (dr : directive) : Prop :=
  (exists q z, reaches s d q z /\ In dr (node_dirs z) /\ w = node_location z)
  \/ (exists df, In df (doc_defs d) /\ In dr (def_dirs df) /\ def_location df = Some w).

Definition arg_names (args : list argument) : list str := map (fun a => n_val (a_name a)) args.
Definition dir_names (dirs : list directive) : list str := map (fun dr => n_val (d_name dr)) dirs.
Definition op_vars (df : definition) : list var_def :=
  match df with DOperation _ _ vds _ _ _ _ => vds | _ => [] end.

(* 5.3.1 Field selections on objects, interfaces and unions *)
Definition spec_fields_on_correct_type (s : schema) (d : document) : Prop :=
  forall p a n args dirs sl sub l,
    reaches s d (Some p) (SField a n args dirs sl sub l) -> get_field_def s p (n_val n) <> None.

(* 5.3.3 Leaf field selections *)
Definition spec_scalar_leafs (s : schema) (d : document) : Prop := ~ static_misshaped s d.

(* 5.4.1 Argument names (fields and directives) *)
Definition spec_known_argument_names (s : schema) (d : document) : Prop :=
  (forall p a n args dirs sl sub l f,
      reaches s d (Some p) (SField a n args dirs sl sub l) -> get_field_def s p (n_val n) = Some f ->
      forall x, In x (arg_names args) -> find_arg x (sf_args f) <> None)
  /\ (forall w dr dd, directive_at s d w dr -> alookup (n_val (d_name dr)) (s_dirs s) = Some dd ->
                      forall x, In x (arg_names (d_args dr)) -> find_arg x (sd_args dd) <> None).

(* 5.4.2 Argument uniqueness *)
Definition spec_unique_argument_names (s : schema) (d : document) : Prop :=
  (forall q a n args dirs sl sub l, reaches s d q (SField a n args dirs sl sub l) -> NoDup (arg_names args))
  /\ (forall w dr, directive_at s d w dr -> NoDup (arg_names (d_args dr))).

(* 5.4.2.1 Required arguments *)
Definition required_provided (defs : list sarg) (args : list argument) : Prop :=
  forall ad, In ad defs -> sarg_required ad = true -> In (sa_name ad) (arg_names args).
Definition spec_provided_required_arguments (s : schema) (d : document) : Prop :=
  (forall p a n args dirs sl sub l f,
      reaches s d (Some p) (SField a n args dirs sl sub l) -> get_field_def s p (n_val n) = Some f ->
      required_provided (sf_args f) args)
  /\ (forall w dr dd, directive_at s d w dr -> alookup (n_val (d_name dr)) (s_dirs s) = Some dd ->
                      required_provided (sd_args dd) (d_args dr)).

(* 5.7.1 / 5.7.2 Directives are defined and in valid locations *)
Definition spec_known_directives (s : schema) (d : document) : Prop :=
  forall w dr, directive_at s d w dr ->
               exists dd, alookup (n_val (d_name dr)) (s_dirs s) = Some dd /\ In w (sd_locs dd).

(* 5.7.3 Directives are unique per location *)
Definition spec_unique_directives (s : schema) (d : document) : Prop :=
  (forall q z, reaches s d q z -> NoDup (dir_names (node_dirs z)))
  /\ (forall df, In df (doc_defs d) -> def_location df <> None -> NoDup (dir_names (def_dirs df))).

(* 5.5.1.2 / 5.5.1.3 Fragment type conditions exist and are composite *)
Definition composite_condition (s : schema) (t : ty) : Prop :=
  exists n, type_from_ast s t = Some (RNamed n) /\ is_composite s n = true.
Definition spec_fragments_on_composite (s : schema) (d : document) : Prop :=
  (forall n vds tc dirs ssl sels l, In (DFragment n vds tc dirs ssl sels l) (doc_defs d) -> composite_condition s tc)
  /\ (forall q t dirs ssl sub l, reaches s d q (SInline (Some t) dirs ssl sub l) -> composite_condition s t).

(* 5.8.1 Variable uniqueness, 5.8.2 Variables are input types (and their types exist) *)
Definition spec_unique_variable_names (d : document) : Prop :=
  forall df, In df (doc_defs d) -> NoDup (map (fun vd => n_val (vd_var vd)) (op_vars df)).
Definition spec_known_type_names (s : schema) (d : document) : Prop :=
  forall df vd, In df (doc_defs d) -> In vd (op_vars df) -> type_from_ast s (vd_type vd) <> None.
Definition spec_variables_are_input_types (s : schema) (d : document) : Prop :=
  forall df vd, In df (doc_defs d) -> In vd (op_vars df) ->
                exists r, type_from_ast s (vd_type vd) = Some r /\ is_input_type s r = true.

(* 5.2.3.1 Single root field, 5.1.1 Executable definitions *)
Definition spec_single_field_subscriptions (d : document) : Prop :=
  forall n vds dirs ssl sels l, In (DOperation OpSubscription n vds dirs ssl sels l) (doc_defs d) -> length sels = 1.
Definition spec_executable_definitions (d : document) : Prop :=
  forall df, In df (doc_defs d) -> is_operation df \/ exists f, fragment_named df f.

(* 5.5.2.3 Fragment spread is possible: the fragment's type and the parent type
   have a common possible object type *)
Definition spec_possible_spreads (s : schema) (d : document) (frag_type : str -> option tref) : Prop :=
  (forall p n dirs l ft, reaches s d (Some p) (SSpread n dirs l) ->
       frag_type (n_val n) = Some (RNamed ft) -> is_composite s ft = true -> types_overlap s ft p = true)
  /\ (forall p t dirs ssl sub l ft, reaches s d (Some p) (SInline (Some t) dirs ssl sub l) ->
       type_from_ast s t = Some (RNamed ft) -> is_composite s ft = true -> types_overlap s ft p = true).

(* 5.6.3 Input object field uniqueness: every object literal inside a value *)
Inductive objects_unique : value -> Prop :=
| ou_var n l : objects_unique (VVar n l)
| ou_int x l : objects_unique (VInt x l)
| ou_float x l : objects_unique (VFloat x l)
| ou_string x b l : objects_unique (VString x b l)
| ou_bool b l : objects_unique (VBool b l)
| ou_null l : objects_unique (VNull l)
| ou_enum x l : objects_unique (VEnum x l)
| ou_list vs l : Forall objects_unique vs -> objects_unique (VList vs l)
| ou_obj fs l :
    NoDup (map (fun f => n_val (fst (fst f))) fs) ->
    Forall (fun f => objects_unique (snd (fst f))) fs -> objects_unique (VObject fs l).

(* the values written in the document: arguments of fields and directives,
   defaults of operation variables *)
Definition value_in_doc (s : schema) (d : document) (v : value) : Prop :=
  (exists q a n args dirs sl sub l x, reaches s d q (SField a n args dirs sl sub l) /\ In x args /\ a_val x = v)
  \/ (exists w dr x, directive_at s d w dr /\ In x (d_args dr) /\ a_val x = v)
  \/ (exists df vd, In df (doc_defs d) /\ In vd (op_vars df) /\ vd_default vd = Some v).

Definition spec_unique_input_field_names (s : schema) (d : document) : Prop :=
  forall v, value_in_doc s d v -> objects_unique v.
