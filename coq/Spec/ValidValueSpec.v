(* 5.6.1 Values of Correct Type, declaratively: a literal is acceptable at an
   input type when it can be coerced to it (June 2018, 3.9 / 3.11 / 3.12 input
   coercion: null only for nullable types, lists item by item, a single
   non-list value stands for a one element list, input objects field by field
   with every required field present, enum values by name, scalars by the
   literal kinds the scalar accepts). Variables are checked by
   VariablesInAllowedPosition, not here. *)
From PyGql Require Export Valid.ValidSchema.

Fixpoint dec_digits (acc : Z) (l : str) : option Z :=
  match l with
  | [] => Some acc
  | c :: l' => if (N.leb 48 c && N.leb c 57)%bool
               then dec_digits (acc * 10 + Z.of_N (c - 48)) l' else None
  end.
(* the integer an IntValue token denotes *)
Definition dec_int (l : str) : option Z :=
  match l with
  | [] => None
  | c :: l' => if N.eqb c 45
               then match l' with [] => None | _ => option_map Z.opp (dec_digits 0 l') end
               else dec_digits 0 l
  end.

Inductive scalar_literal : scalar_kind -> value -> Prop :=
| sl_int sv l z : dec_int sv = Some z -> (-2147483648 <= z <= 2147483647)%Z -> scalar_literal SkInt (VInt sv l)
| sl_float_int sv l : scalar_literal SkFloat (VInt sv l)
| sl_float sv l : scalar_literal SkFloat (VFloat sv l)
| sl_string sv b l : scalar_literal SkString (VString sv b l)
| sl_bool b l : scalar_literal SkBoolean (VBool b l)
| sl_id_string sv b l : scalar_literal SkID (VString sv b l)
| sl_id_int sv l : scalar_literal SkID (VInt sv l)
| sl_custom_int sv l : scalar_literal SkCustom (VInt sv l)
| sl_custom_float sv l : scalar_literal SkCustom (VFloat sv l)
| sl_custom_string sv b l : scalar_literal SkCustom (VString sv b l)
| sl_custom_bool b l : scalar_literal SkCustom (VBool b l)
| sl_custom_enum e l : scalar_literal SkCustom (VEnum e l).

Definition not_null_lit (v : value) : Prop := match v with VNull _ => False | _ => True end.
Definition single_item (v : value) : Prop :=
  match v with VNull _ | VList _ _ | VVar _ _ => False | _ => True end.

Inductive coercible (s : schema) : tref -> value -> Prop :=
| co_var t n l : coercible s t (VVar n l)
| co_nonnull t v : not_null_lit v -> coercible s t v -> coercible s (RNonNull t) v
| co_null_named n l : coercible s (RNamed n) (VNull l)
| co_null_list t l : coercible s (RList t) (VNull l)
| co_list t vs l : Forall (coercible s t) vs -> coercible s (RList t) (VList vs l)
| co_single t v : single_item v -> coercible s t v -> coercible s (RList t) v
| co_scalar n k v : lookup_type s n = Some (TScalar k) -> scalar_literal k v -> coercible s (RNamed n) v
| co_enum n vals e l : lookup_type s n = Some (TEnum vals) -> In e vals -> coercible s (RNamed n) (VEnum e l)
| co_object n defs fs l :
    lookup_type s n = Some (TInput defs) ->
    (forall fd, In fd defs -> sarg_required fd = true ->
                exists f, In f fs /\ n_val (fst (fst f)) = sa_name fd) ->
    Forall (fun f => exists fd, find_arg (n_val (fst (fst f))) defs = Some fd
                                /\ coercible s (sa_type fd) (snd (fst f))) fs ->
    coercible s (RNamed n) (VObject fs l).

(* types the parser can produce: no `T!!` *)
Fixpoint wf_tref (t : tref) : Prop :=
  match t with
  | RNamed _ => True
  | RList t' => wf_tref t'
  | RNonNull t' => match t' with RNonNull _ => False | _ => wf_tref t' end
  end.

(* the part of schema validity the rule relies on: input object fields have
   (well formed) input types *)
Definition wf_inputs (s : schema) : Prop :=
  forall n defs fd, lookup_type s n = Some (TInput defs) -> In fd defs ->
                    is_input_type s (sa_type fd) = true /\ wf_tref (sa_type fd).
