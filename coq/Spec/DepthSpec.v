(* Declarative meaning of "nesting depth measured through inline fragments
   and fragment spreads at any level": the longest field path. No fuel, no
   seen-sets, no grouping. *)
From PyGql Require Export Exec.Collect Exec.Depth.

Section DepthSpec.
  Variable frags : frag_table.
  Variable vs : vars.

  (* a selection carrying directives [ds] takes part in the operation *)
  Definition included (ds : list directive) : bool :=
    match skip_selection ds vs with Ok false => true | _ => false end.

  (* [reach ss f]: the field node [f] is selected by the selection list [ss],
     directly or through inline fragments / fragment spreads *)
  Inductive reach : list selection -> selection -> Prop :=
  | R_field ss a n args ds sl sub l :
      In (SField a n args ds sl sub l) ss -> included ds = true ->
      reach ss (SField a n args ds sl sub l)
  | R_inline ss tc ds ssl sub l f :
      In (SInline tc ds ssl sub l) ss -> included ds = true ->
      reach sub f -> reach ss f
  | R_spread ss n ds l tc fsels f :
      In (SSpread n ds l) ss -> included ds = true ->
      alookup (n_val n) frags = Some (tc, fsels) ->
      reach fsels f -> reach ss f.

  Definition field_children (f : selection) : list selection :=
    match f with
    | SField _ _ _ _ (Some _) sub _ => sub
    | _ => []
    end.

  (* there is a path of [k] nested fields through [ss] *)
  Inductive path_len : list selection -> nat -> Prop :=
  | P_zero ss : path_len ss 0
  | P_step ss f k : reach ss f -> path_len (field_children f) k -> path_len ss (S k).

  (* [d] is the length of the longest field path *)
  Definition is_depth (ss : list selection) (d : nat) : Prop :=
    path_len ss d /\ forall k, path_len ss k -> k <= d.
End DepthSpec.
