(* Which token a syntactically invalid text is rejected at, declaratively:
   the token sequence before the blamed token is a prefix of some sentence of
   the grammar (a viable prefix), and extended by the blamed token it is not.
   Stated for any set of sentences; instantiated with the sentences of the
   type and value sub-languages (the token sequences of parse_type /
   parse_value: SOF, one Type / Value, EOF). *)
From PyGql Require Export Spec.GrammarSpec.

Section Viable.
Variable sentence : list ptok -> Prop.

Definition viable (pre : list ptok) : Prop := exists rest, sentence (pre ++ rest).

(* the first token with which the tokens read so far stop being a viable prefix *)
Definition blamed (pre : list ptok) (t : ptok) : Prop := viable pre /\ ~ viable (pre ++ [t]).
End Viable.

Definition type_sentence (nl : bool) (ts : list ptok) : Prop :=
  exists body t, whole ts body /\ D_type nl body t.

Definition value_sentence (nl : bool) (ts : list ptok) : Prop :=
  exists body v, whole ts body /\ D_value nl false body v.
